"""Document-level parts of C10 (agnostic export vs kern export under the clef in force) and C18 (the same rows
presented under different spine types)."""
import random

from harness import core, docs, engine, spec, tokens
from harness.docs import C1

OWN = {'**text': 'LYRICS', '**dynam': 'DYNAMICS', '**dyn': 'DYNAMICS', '**harm': 'HARMONY', '**mxhm': 'HARMONY', '**fing': 'FINGERING',
       '**silbe': 'OTHER', '**foo': 'OTHER'}


def c10_worker(kp, job):
    seed, idx = job
    rng = random.Random(seed * 275604541 + idx)
    plain = idx % 4 != 3
    g = docs.gen_doc(rng, force_clef=True, plain_acc=plain, mid_signatures=True, max_spines=3, clef_in_split=0.5 if idx % 2 == 0 else 0.0,
                     second_clef_row=0.5 if idx % 3 == 1 else 0.0)
    text = g.text
    bad = docs.bad_cells(kp, text)
    try:
        doc, errs = kp.loads(text)
    except Exception as e:
        return {'records': [engine.rec('loads', impl='raise:' + type(e).__name__, req=('import', [C1.join(bad), text]), key=text)]}
    records = []
    allc = spec.all_categories(kp)
    kern = docs.impl_dumps(kp, doc)
    for enc in ('akern', 'aekern'):
        out = docs.impl_dumps(kp, doc, encoding=enc)
        viol = []
        tag = ''
        if out.startswith('ok:'):
            want = spec.expected_export(g, allc, enc)
            c = spec.compare_export(out[3:], want)
            if c:
                msg, feats = c
                viol.append(('clef-in-force', (','.join(sorted(feats)) + ': ' if feats else '') + f'{enc}: ' + msg, {'text': text}))
            if kern.startswith('ok:'):
                ka, aa = engine.grid(kern[3:]), engine.grid(out[3:])
                if len(ka) != len(aa) or any(len(x) != len(y) for x, y in zip(ka, aa)):
                    viol.append(('only-pitch-letters', f'{enc} and kern exports have different grids', {'text': text}))
        else:
            viol.append(('agnostic-raises', f'{tag}{enc} export raised {out} although a supported clef is in force for every note', {'text': text}))
        records.append(engine.rec('agnostic:' + enc, impl=out, req=docs.model_dumps_req(bad, text, encoding=enc), viol=viol,
                                  kind=enc + ('' if plain else '-natural/display'), key=(text, enc),
                                  sample={'text': text, enc: out[3:]} if idx % 43 == 0 and enc == 'akern' else None))
    # the same comparison under category selections that drop a part of the notes (the pitch handed to the converter is
    # built from the SELECTED sub-parts: "differs only in the pitch letters" must hold under every selection)
    if plain:
        from harness import optprops
        for sel in rng.sample([{'exclude': ['ALTERATION']}, {'exclude': ['DECORATION']}, {'exclude': ['DURATION']},
                               {'include': ['CORE', 'SIGNATURES', 'STRUCTURAL', 'BARLINES']}, {'exclude': ['ALTERATION', 'DECORATION']}], 2):
            for enc in ('akern', 'aekern'):
                o = dict(sel, encoding=enc)
                records.append(optprops.evaluate(kp, g, doc, bad, text, o, 'agnostic-filtered:' + enc, clause='clef-in-force'))
    return {'records': records}


def c10_document_level(chk, b):
    model = core.Model() if b.modelrun_ok else None
    full = chk.tier == 'thorough' or bool(b.drift) or not b.proof_ok or not b.modelrun_ok
    n = core.budget(chk, full, 50, 300)
    results = engine.pmap(c10_worker, [(chk.seed, i) for i in range(n)])
    engine.settle(chk, results, model)
    chk.rule += ('; document level: generated documents with a clef in force for every note, clef changes, chords and splits: '
                 'akern / aekern export vs the generator oracle (C10 closed formula under the clef in force), also under 2 category '
                 'selections that drop note parts, every 4th document with naturals / display suffixes (finding K6)')


def c18_worker(kp, job):
    seed, idx = job
    rng = random.Random(seed * 295075147 + idx)
    g = docs.gen_doc(rng, kern_only=True, max_spines=2, splits=False, measures=rng.randint(1, 3), rest_in_chord=0)
    base_text = g.text
    records = []
    try:
        ref, _ = kp.loads(base_text)
    except Exception as e:
        return {'records': []}
    col = rng.randrange(len(g.headers))
    ref_rows = ref.tree.stages
    for h in ['**text', '**dynam', '**dyn', '**harm', '**mxhm', '**fing', '**silbe']:
        lines = []
        for kind, payload in g.lines:
            if kind == 'global':
                lines.append(payload)
            else:
                lines.append('\t'.join((h if c.kind == 'header' and c.spine == col else c.text) for c in payload))
        text = g.nl.join(lines) + (g.nl if g.final_nl else '')
        bad = docs.bad_cells(kp, text)
        viol = []
        try:
            doc, errs = kp.loads(text)
            dump = 'ok:' + docs.impl_show_doc(kp, doc, errs)
        except Exception as e:
            doc, dump = None, 'raise:' + type(e).__name__
            viol.append(('never-fails', f'the document with column {col} presented as {h} does not import: {type(e).__name__}', {'text': text}))
        if doc is not None:
            w = {'text': text, 'header': h}
            if errs:
                viol.append(('never-fails', f'{h}: {len(errs)} import errors in the non-kern spine', w))
            def bar_stages(d):
                return [si for si, st in enumerate(d.tree.stages) if any(n.token is not None and n.token.category.name == 'BARLINES' for n in st)]
            if bar_stages(doc) != bar_stages(ref) or [s for s in doc.measure_start_tree_stages if s in bar_stages(doc)] != \
                    [s for s in ref.measure_start_tree_stages if s in bar_stages(ref)]:
                viol.append(('barlines', f'{h}: barlines detected at stages {bar_stages(doc)}, under **kern at {bar_stages(ref)}', w))
            shared = set()
            TC = kp.TokenCategory
            for p in ('STRUCTURAL', 'SIGNATURES', 'EMPTY', 'BARLINES', 'IMAGE_ANNOTATIONS', 'COMMENTS'):
                shared |= {TC[x] for x in spec.documented_descendants()[p]}
            own = OWN[h]
            for sa, sb in zip(doc.tree.stages, ref_rows):
                for na, nb in zip(sa, sb):
                    if na.token is None or na.header_node is None or na.header_node.token.spine_id != col or na.header_node is na:
                        continue
                    kt = nb.token
                    if kt.category in shared:
                        if tokens.dump_token(na.token) != tokens.dump_token(kt):
                            viol.append(('shared-structure', f'{h}: the cell {kt.encoding!r} is {tokens.pretty(tokens.dump_token(na.token))[:60]} instead of the kern token', w))
                            break
                    elif not (type(na.token).__name__ == 'SimpleToken' and na.token.category.name == own):
                        viol.append(('own-category', f'{h}: the cell {kt.encoding!r} became {type(na.token).__name__}/{na.token.category.name}, expected SimpleToken/{own}', w))
                        break
        records.append(engine.rec('as-' + h, impl=dump, req=('import', [C1.join(bad), text]), viol=viol, kind='doc-as-' + h, key=(text,),
                                  sample={'text': text} if idx % 29 == 0 and h == '**text' else None))
    return {'records': records}


def c18_mixed_worker(kp, job):
    """documents with a **kern spine that splits / joins to the LEFT of two or more non-kern spines of different types
    sharing one vocabulary: every cell of a non-kern spine is a token of THAT spine's type (own category, or the shared
    structure), whatever stood in the same column before the spine paths shifted"""
    seed, idx = job
    rng = random.Random(seed * 334214467 + idx)
    others = rng.sample(['**text', '**dynam', '**harm', '**fing', '**mxhm', '**dyn', '**silbe'], rng.randint(2, 3))
    g = docs.gen_doc(rng, types=['**kern'] + others, measures=rng.randint(1, 3), rest_in_chord=0, nested=0.7)
    text = g.text
    bad = docs.bad_cells(kp, text)
    viol = []
    try:
        doc, errs = kp.loads(text)
        dump = 'ok:' + docs.impl_show_doc(kp, doc, errs)
    except Exception as e:
        return {'records': [engine.rec('mixed', impl='raise:' + type(e).__name__, req=('import', [C1.join(bad), text]),
                                       viol=[('never-fails', f'a document with spines {others} does not import: {type(e).__name__}', {'text': text})],
                                       kind='mixed', key=(text,))]}
    TC = kp.TokenCategory
    shared = set()
    for p in ('STRUCTURAL', 'SIGNATURES', 'EMPTY', 'BARLINES', 'IMAGE_ANNOTATIONS', 'COMMENTS'):
        shared |= {TC[x] for x in spec.documented_descendants()[p]}
    w = {'text': text}
    for st in doc.tree.stages:
        for nd in st:
            if nd.token is None or nd.header_node is None or nd.header_node is nd:
                continue
            h = nd.header_node.token.encoding
            if h not in OWN:
                continue
            c = nd.token.category
            if c in shared:
                continue
            if type(nd.token).__name__ == 'ErrorToken':
                viol.append(('never-fails', f'{h}: the cell {nd.token.encoding!r} is an ErrorToken', w))
                break
            if not (type(nd.token).__name__ == 'SimpleToken' and c.name == OWN[h]):
                viol.append(('own-category', f'{h}: the cell {nd.token.encoding!r} became {type(nd.token).__name__}/{c.name}, expected SimpleToken/{OWN[h]}', w))
                break
    return {'records': [engine.rec('mixed', impl=dump, req=('import', [C1.join(bad), text]), viol=viol[:1], kind='mixed:' + ','.join(sorted(g.flags & {'split', 'join'})),
                                   key=(text,), sample={'text': text} if idx % 31 == 0 else None)]}


def c18_bbox_worker(kp, job):
    """bounding-box cells (the same cell text in several columns and lines, other boxes of the same page after them) in
    columns of one spine type: every box token carries the page and the rectangle it carries when the same rows stand
    under **kern"""
    seed, idx = job
    rng = random.Random(seed * 236887699 + idx)
    T = ['**text', '**dynam', '**dyn', '**harm', '**mxhm', '**fing', '**silbe'][idx % 7]
    ncols = rng.randint(2, 3)
    boxes = [f'*xywh-p{rng.randint(1, 2)}:{rng.randint(0, 50)},{rng.randint(0, 90)},{rng.randint(10, 300)},{rng.randint(10, 90)}' for _ in range(3)]
    rows = []
    for k in range(rng.randint(3, 6)):
        b0 = rng.choice(boxes)
        rows.append([b0 if rng.random() < 0.7 else rng.choice(boxes) for _ in range(ncols)])
        rows.append([('data', rng.randrange(5)) for _ in range(ncols)])
    def build(h):
        vocab = ['4c', '4d', '4e', '4f', '.'] if h == '**kern' else ['la', 'p', '1', 'I', '.']
        lines = ['\t'.join([h] * ncols)] + ['\t'.join(vocab[c[1]] if isinstance(c, tuple) else c for c in r) for r in rows] + ['\t'.join(['*-'] * ncols)]
        return '\n'.join(lines) + '\n'
    viol = []
    w = {'text': build(T)}
    try:
        dk, _ = kp.loads(build('**kern'))
        dt, _ = kp.loads(build(T))
        def rects(doc):
            out = []
            for st in doc.tree.stages:
                for nd in st:
                    t = nd.token
                    if type(t).__name__ == 'BoundingBoxToken':
                        bb = t.bounding_box
                        out.append((t.encoding, t.page_number, bb.from_x, bb.from_y, bb.to_x, bb.to_y))
            return out
        rk, rt = rects(dk), rects(dt)
        if rk != rt:
            k = next((i for i in range(min(len(rk), len(rt))) if rk[i] != rt[i]), min(len(rk), len(rt)))
            viol.append(('shared-structure', f'{T}: bounding-box token {k} is {rt[k] if k < len(rt) else None}, under **kern the same cell is {rk[k] if k < len(rk) else None}', w))
    except Exception as e:
        viol.append(('never-fails', f'{T}: a document with bounding boxes does not import: {type(e).__name__}', w))
    return {'records': [engine.rec('bbox', viol=viol, kind='bbox:' + T, key=('bbox', build(T)))]}


def c18_document_level(chk, b):
    model = core.Model() if b.modelrun_ok else None
    full = chk.tier == 'thorough' or bool(b.drift) or not b.proof_ok or not b.modelrun_ok
    n = core.budget(chk, full, 14, 120)
    results = engine.pmap(c18_worker, [(chk.seed, i) for i in range(n)])
    results += engine.pmap(c18_mixed_worker, [(chk.seed, i) for i in range(core.budget(chk, full, 60, 400))])
    results += engine.pmap(c18_bbox_worker, [(chk.seed, i) for i in range(core.budget(chk, full, 28, 210))])
    engine.settle(chk, results, model)
    chk.rule += ('; mixed documents: a **kern spine with splits / joins left of 2-3 non-kern spines of different types sharing one '
                 'vocabulary, every cell a token of its own spine\'s type; document level: generated **kern documents whose one column is presented under **text, **dynam, **dyn, **harm, '
                 '**mxhm, **fing and an unknown type: same measure index, shared structure identical to the kern tokens, everything '
                 'else SimpleToken of the own category')
