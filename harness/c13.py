"""C13 - Export options act independently of one another.

proof         : coq/props/C13.v - the spine gate is independent of the cell; the cell depends on (categories, encoding)
                only; the encoding acts on the category-filtered extended text; explicit default categories = omitted
correspondence: dumps with combined spine selection x include/exclude x encoding of kernpy vs the extracted model
monitor       : kernpy's combined export against the composition of the three single-option transformations on the
                generator's description (projection, sub-part deletion, re-encoding), and explicit defaults vs omission
"""
import json
import random

from harness import core, docs, engine, optprops, spec
from harness.docs import C1


def reencode(ekern_text, enc):
    """the rows of the extended export re-encoded cell by cell (kern: both separators removed; basic encodings: every
    note cut at its first signifier separator); a cell that becomes empty is a null placeholder, all-null rows vanish"""
    rows = []
    for line in ekern_text.split('\n'):
        if line == '':
            continue
        cells = []
        for c in line.split('\t'):
            if c.startswith('**e'):
                cells.append('**' + spec.PREFIX[enc] + c[3:])
                continue
            if enc == 'kern':
                t = c.replace('@', '').replace('\u00b7', '')
            else:
                t = c
                if '\u00b7' in c:
                    parts = []
                    for note in c.split(' '):
                        head = note.split('\u00b7')[0]
                        parts.append(head[:-1] if head.endswith('@') else head)
                    t = ' '.join(parts)
                if enc == 'bkern':
                    t = t.replace('@', '')
            cells.append(t if t != '' else '.')
        if all(c in ('.', '*', '') for c in cells):
            continue
        rows.append(cells)
    return rows


def worker(kp, job):
    seed, idx = job
    rng = random.Random(seed * 122949829 + idx)
    CATS = [c.name for c in kp.TokenCategory]
    g = docs.gen_doc(rng, force_clef=True, plain_acc=True, max_spines=4)
    text = g.text
    bad = docs.bad_cells(kp, text)
    try:
        doc, errs = kp.loads(text)
    except Exception as e:
        return {'records': [engine.rec('loads', impl='raise:' + type(e).__name__, req=('import', [C1.join(bad), text]), key=text)]}
    n = len(g.headers)
    types_present = sorted(set(g.headers))
    records = []
    session = []
    for _ in range(14):
        o = {}
        k = rng.randint(2, 3)
        which = rng.sample(['sel', 'cat', 'enc'], k)
        if 'sel' in which:
            if rng.random() < 0.6:
                o['spine_ids'] = sorted(rng.sample(range(n), rng.randint(0, n)))
            if rng.random() < 0.6 or 'spine_ids' not in o:
                o['spine_types'] = rng.sample(types_present + ['**kern'], rng.randint(1, len(types_present)))
        if 'cat' in which:
            # half of the selections are unconstrained (they may drop durations, pitches, whole notes ...)
            free = rng.random() < 0.5
            if rng.random() < 0.7:
                o['include'] = rng.sample(CATS, rng.randint(0 if free else 1, 10)) + ([] if free else ['DURATION', 'PITCH'])
            if rng.random() < 0.6 or 'include' not in o:
                pool = CATS if free else [c for c in CATS if c not in ('DURATION', 'PITCH', 'NOTE_REST', 'NOTE', 'CORE')]
                o['exclude'] = rng.sample(pool, rng.randint(1, 4))
        if 'enc' in which:
            o['encoding'] = rng.choice(optprops.ENCODINGS)
        rec = optprops.evaluate(kp, g, doc, bad, text, o, '+'.join(sorted(which)), clause='composition')
        # the encoding composes with the other options: re-encoding the EXTENDED export made with the same selection and
        # filter gives the export made with the encoding (cell by cell, on kernpy's own outputs - also for the rows the
        # oracle does not pin down)
        enc = o.get('encoding')
        if enc in ('kern', 'bkern', 'bekern') and rec['impl'].startswith('ok:') and not rec['viol']:
            ek = docs.impl_dumps(kp, doc, **dict(o, encoding='ekern'))
            if ek.startswith('ok:'):
                want_rows = reencode(ek[3:], enc)
                got_rows = [l.split('\t') for l in rec['impl'][3:].split('\n') if l != '']
                if want_rows != got_rows:
                    k = next((i for i in range(min(len(want_rows), len(got_rows))) if want_rows[i] != got_rows[i]), min(len(want_rows), len(got_rows)))
                    rec['viol'].append(('composition', f'options {optprops.fmt(o)}: line {k + 1} is {got_rows[k] if k < len(got_rows) else None}, re-encoding the extended export '
                                        f'made with the same selection gives {want_rows[k] if k < len(want_rows) else None}', {'text': text, 'options': o}))
        records.append(rec)
        session.append((dict(o), rec))
    # ONE Exporter object serving all these option sets in a row (fresh options each time, as dumps builds them), plus
    # a spine-type query in between: each export is the export a fresh exporter gives for those options
    try:
        from kernpy.core.generic import Generic
        exporter = kp.Exporter()
        viol = []
        TC_ = kp.TokenCategory
        for k, (o, rec) in enumerate(session):
            kw = {}
            if 'spine_types' in o: kw['spine_types'] = list(o['spine_types'])
            if 'spine_ids' in o: kw['spine_ids'] = list(o['spine_ids'])
            if 'include' in o: kw['include'] = {TC_[c] for c in o['include']}
            if 'exclude' in o: kw['exclude'] = {TC_[c] for c in o['exclude']}
            if 'encoding' in o: kw['kern_type'] = kp.Encoding(o['encoding'])
            try:
                options = Generic.parse_options_to_ExportOptions(**kw)
                got = 'ok:' + exporter.export_string(doc, options)
            except Exception as e:
                got = 'err:' + type(e).__name__
            if k % 5 == 2:
                try:
                    exporter.get_spine_types(doc)
                except Exception:
                    pass
            if got != rec['impl'] and not viol:
                viol.append(('composition', f'one Exporter object serving several option sets: export {k + 1} ({optprops.fmt(o)}) differs from the export of a fresh exporter',
                             {'text': text, 'options': o}))
        records.append(engine.rec('exporter-session', viol=viol, kind='exporter-session', key=(text, 'exporter-session')))
    except ImportError:
        pass
    # explicit defaults = omission
    base = docs.impl_dumps(kp, doc)
    TC = kp.TokenCategory
    explicit = [
        ('spine_types', dict(spine_types=['**mens', '**kern', '**text', '**harm', '**mxhm', '**root', '**dyn', '**dynam', '**fing'])),
        ('include', dict(include=list(CATS))), ('exclude', dict(exclude=[])), ('encoding', dict(encoding='kern')),
        ('all', dict(spine_types=['**mens', '**kern', '**text', '**harm', '**mxhm', '**root', '**dyn', '**dynam', '**fing'],
                     include=list(CATS), exclude=[], encoding='kern')),
    ]
    for name, o in explicit:
        out = docs.impl_dumps(kp, doc, **o)
        viol = []
        if out != base:
            viol.append(('explicit-default', f'passing the default of {name} explicitly changes the export', {'text': text, 'options': o}))
        records.append(engine.rec('explicit-default', impl=out, req=docs.model_dumps_req(bad, text, **o), viol=viol, kind='explicit-default',
                                  key=(text, 'explicit', name)))
    try:
        out = 'ok:' + kp.dumps(doc, spine_types=None, include=None, exclude=None, from_measure=None, to_measure=None, encoding=None,
                               instruments=None, show_measure_numbers=None, spine_ids=None)
    except Exception as e:
        out = 'err:' + type(e).__name__
    records.append(engine.rec('explicit-none', impl=out, req=docs.model_dumps_req(bad, text),
                              viol=[] if out == base else [('explicit-default', 'passing None for every option changes the export', {'text': text})],
                              kind='explicit-default', key=(text, 'explicit-none')))
    if idx % 19 == 0:
        records[0]['sample'] = {'text': text, 'options': records[0]['key'][1], 'export': records[0]['impl'][3:]}
    return {'records': records}


def run(chk):
    b = core.standard_build(chk)
    model = core.Model() if b.modelrun_ok else None
    full = chk.tier == 'thorough' or bool(b.drift) or not b.proof_ok or not b.modelrun_ok
    n = core.budget(chk, full, 70, 500)
    chk.rule = ('generated documents x 14 combinations of two or three non-default options (subsets of spine ids / types, '
                'include/exclude sets, one of six encodings) compared with the composed transformations of the generator\'s '
                'description, plus 6 explicit-default variants, and the same option sets served by ONE Exporter object; non-trivial = distinct (text, options)')
    results = engine.pmap(worker, [(chk.seed, i) for i in range(n)])
    engine.settle(chk, results, model)
    chk.disagreements_checked = len(chk.broken)


def replay(path):
    rec = json.load(open(path))
    import kernpy as kp
    print(json.dumps(rec, indent=1)[:2500])
    w = rec.get('witness', {})
    if isinstance(w, dict) and 'text' in w and 'options' in w:
        doc, errs = kp.loads(w['text'])
        print(docs.impl_dumps(kp, doc, **w['options']))
    return 0
