"""Interval arithmetic on spelled pitches, written from the music-theory definition (letter steps and semitones),
independent of kernpy's base-40 tables: the oracle for 'the source pitch transposed by the interval'."""
NAT = [0, 2, 4, 5, 7, 9, 11]
LET = 'cdefgab'
MAJOR_PERFECT = {1: 0, 2: 2, 3: 4, 4: 5, 5: 7, 6: 9, 7: 11, 8: 12}
PERFECT = {1, 4, 5, 8}


def interval(name):
    """-> (letter steps, semitones) of a named interval (P1 .. AA7, octave)"""
    if name == 'octave':
        return 7, 12
    q = name.rstrip('0123456789')
    n = int(name[len(q):])
    base = MAJOR_PERFECT[n]
    if n in PERFECT:
        adj = {'P': 0, 'A': 1, 'AA': 2, 'd': -1, 'dd': -2}[q]
    else:
        adj = {'M': 0, 'm': -1, 'A': 1, 'AA': 2, 'd': -2, 'dd': -3}[q]
    return n - 1, base + adj


def parse(letters, acc):
    idx = LET.index(letters[0].lower())
    octave = 4 + len(letters) - 1 if letters[0].islower() else 3 - (len(letters) - 1)
    a = acc.count('#') - acc.count('-')
    return octave * 7 + idx, octave * 12 + NAT[idx] + a


def spell(diatonic, semis):
    octave, idx = divmod(diatonic, 7)
    a = semis - (octave * 12 + NAT[idx])
    if abs(a) > 2:
        return None
    letters = LET[idx] * (octave - 3) if octave >= 4 else LET[idx].upper() * (4 - octave)
    return letters, ('#' * a if a >= 0 else '-' * (-a))


def transpose(letters, acc, name, direction):
    """(pitch letters, accidental) moved by the named interval; None when the result needs more than two accidentals"""
    st, se = interval(name)
    s = 1 if direction == 'up' else -1
    d0, s0 = parse(letters, acc)
    return spell(d0 + s * st, s0 + s * se)
