"""C09 - Transposition is exact interval arithmetic.

proof        : coq/props/C09.v (all octaves in Z) re-checked against the tables regenerated from
               pitch_models.py / transposer.py
correspondence: kernpy.transpose / AgnosticPitch.to_transposed vs the extracted model on the 25,200-case
               grid (exhaustive) + random far octaves
monitor      : the property itself on kernpy against the Gallina spec (spec_transpose), inverse, unison,
               octave and fourth+fifth laws on the same grid
"""
from harness import core

LETTERS = 'cdefgab'


def spelling(l, a, o):
    ch = LETTERS[l]
    body = ch * (o - 4 + 1) if o >= 4 else ch.upper() * (3 - o + 1)
    return body + ('#' * a if a >= 0 else '-' * (-a))


_CALLS = [0]


def impl_transpose(kp, enc, k, d):
    # every other call hands over a direction string built at run time (equal to 'up' / 'down', another object)
    _CALLS[0] += 1
    if _CALLS[0] % 2:
        d = (d.upper() + ' ').lower().strip()
    try:
        return 'ok:' + kp.transpose(enc, k, direction=d)
    except Exception:
        return 'err:raise'


def run(chk):
    b = core.standard_build(chk)
    import kernpy as kp
    octaves = list(range(0, 9))
    extra_octaves = []
    if chk.tier == 'thorough' or b.drift or not b.proof_ok or not b.modelrun_ok:
        extra_octaves = [-40, -7, -1, 9, 10, 33, 1000]
    rnd_octs = [chk.rng.randint(-60, 60) for _ in range(3)]
    names = list(kp.AVAILABLE_INTERVALS)
    by_name = dict(kp.IntervalsByName)
    cases = []
    for l in range(7):
        for a in range(-2, 3):
            for o in octaves + extra_octaves + rnd_octs:
                for n in names:
                    for d in ('up', 'down'):
                        cases.append((l, a, o, n, d))
    chk.rule = ('exhaustive grid 7 letters x 5 alterations x octaves 0..8 (+ far/random octaves) x all named '
                'intervals x 2 directions; a case is non-trivial when distinct (all are)')
    chk.exhaustive = True
    model = core.Model() if b.modelrun_ok else None
    # --- model side
    m_tr = m_spec = None
    if model:
        m_tr = model.batch([('transpose', [spelling(l, a, o), str(by_name[n]), d]) for l, a, o, n, d in cases])
        m_spec = model.batch([('spec_transpose', [str(l), str(a), str(o), n, d]) for l, a, o, n, d in cases])
        m_av = model.one('available_intervals')
        if m_av != 'ok:' + ','.join(names):
            chk.mismatch('AVAILABLE_INTERVALS', {'impl': names, 'model': m_av})
    # --- impl side + monitors
    grid_results = {}
    for i, (l, a, o, n, d) in enumerate(cases):
        enc = spelling(l, a, o)
        k = by_name[n]
        r = impl_transpose(kp, enc, k, d)
        grid_results[(l, a, o, n, d)] = r
        chk.case((l, a, o, n, d), kind=('spellable' if (m_spec and m_spec[i].startswith('ok:')) else 'other'))
        if i % 4001 == 0:
            chk.sample({'pitch': enc, 'interval': n, 'direction': d, 'impl': r,
                        'spec': m_spec[i] if m_spec else None})
        if m_tr is not None and r != m_tr[i]:
            chk.mismatch('transpose', {'pitch': enc, 'interval': n, 'direction': d}, f'impl={r} model={m_tr[i]}')
        # property monitor: exactness against the Gallina spec
        if m_spec is not None and m_spec[i].startswith('ok:') and r != m_spec[i]:
            chk.violation('exact', f'transpose({enc!r}, {n}, {d}) = {r[3:]!r}, expected {m_spec[i][3:]!r}',
                          {'pitch': enc, 'interval': n, 'direction': d}, f'impl={r} spec={m_spec[i]}')
        # inverse law
        if r.startswith('ok:'):
            back = impl_transpose(kp, r[3:], k, 'down' if d == 'up' else 'up')
            if back != 'ok:' + enc:
                chk.violation('inverse', f'transpose back of {enc!r} by {n} {d} gives {back[3:]!r}',
                              {'pitch': enc, 'interval': n, 'direction': d}, f'forward={r} back={back}')
        if n == 'P1' and r != 'ok:' + enc:
            chk.violation('unison', f'unison of {enc!r} gives {r!r}', {'pitch': enc, 'direction': d})
        if n == 'octave':
            exp = 'ok:' + spelling(l, a, o + (1 if d == 'up' else -1))
            if r != exp:
                chk.violation('octave', f'octave {d} of {enc!r} gives {r!r}', {'pitch': enc, 'direction': d})
        if n == 'P4' and r.startswith('ok:'):
            r2 = impl_transpose(kp, r[3:], by_name['P5'], d)
            exp = impl_transpose(kp, enc, by_name['octave'], d)
            if r2 != exp:
                chk.violation('fourth+fifth', f'P4 then P5 {d} of {enc!r} gives {r2!r}, octave gives {exp!r}',
                              {'pitch': enc, 'direction': d})
    # object path (AgnosticPitch.to_transposed) on the base grid, model vs impl
    if model:
        reqs, impl = [], []
        for l in range(7):
            for a in range(-2, 3):
                name = 'CDEFGAB'[l] + ('+' * a if a >= 0 else '-' * (-a))
                for o in (0, 4, 8):
                    for n in names:
                        for d in ('up', 'down'):
                            reqs.append(('to_transposed', [name, str(o), str(by_name[n]), d]))
                            try:
                                q = kp.AgnosticPitch.to_transposed(kp.AgnosticPitch(name, o), by_name[n], d)
                                impl.append(f'ok:{q.name}|{q.octave}')
                            except Exception:
                                impl.append('err:raise')
        for rq, mi, im in zip(reqs, model.batch(reqs), impl):
            chk.case(('obj',) + tuple(rq[1]))
            if mi != im:
                chk.mismatch('to_transposed', rq[1], f'impl={im} model={mi}')
    # results are the caller's own: editing a returned pitch (folding a melody back into range) must not change what
    # the next transposition of an equal pitch returns, nor the argument
    nh = 0
    for _ in range(300 if not (chk.tier == 'thorough' or b.drift or not b.proof_ok or not b.modelrun_ok) else 3000):
        r_ = chk.rng
        l, a, o = r_.randrange(7), r_.randint(-2, 2), r_.randint(1, 7)
        name = 'CDEFGAB'[l] + ('+' * a if a >= 0 else '-' * (-a))
        n, d = r_.choice(names), r_.choice(['up', 'down'])
        chk.case(('own-result', name, o, n, d), kind='own-result')
        try:
            src = kp.AgnosticPitch(name, o)
            q1 = kp.AgnosticPitch.to_transposed(src, by_name[n], d)
            first = (q1.name, q1.octave)
            q1.octave = q1.octave - 1
            if r_.random() < 0.5:
                q1.name = 'C'
            q2 = kp.AgnosticPitch.to_transposed(kp.AgnosticPitch(name, o), by_name[n], d)
            second = (q2.name, q2.octave)
            arg = (src.name, src.octave)
        except Exception:
            continue
        if (second != first or q2 is q1 or arg != (name, o)) and nh < 10:
            nh += 1
            chk.violation('exact', f'to_transposed({name},{o}) by {n} {d} returned {first}; after the caller edited that result the same call returns '
                          f'{second} (same object: {q2 is q1}; argument now {arg})', {'pitch': f'{name}|{o}', 'interval': n, 'direction': d, 'history': 'edit-result-then-repeat'})
    # the pitch object is the caller's too: after its octave (or name) is re-assigned through the public setters, the
    # next transposition of THAT object answers for the new pitch - as a freshly built equal pitch does
    ne = 0
    for _ in range(300 if not (chk.tier == 'thorough' or b.drift or not b.proof_ok or not b.modelrun_ok) else 3000):
        r_ = chk.rng
        l, a, o = r_.randrange(7), r_.randint(-2, 2), r_.randint(1, 7)
        name = 'CDEFGAB'[l] + ('+' * a if a >= 0 else '-' * (-a))
        n, d = r_.choice(names), r_.choice(['up', 'down'])
        n2, d2 = r_.choice(names), r_.choice(['up', 'down'])
        o2 = o + r_.choice([-2, -1, 1, 2])
        name2 = name if r_.random() < 0.6 else 'CDEFGAB'[r_.randrange(7)]
        chk.case(('edited-argument', name, o, n, d, name2, o2, n2, d2), kind='edited-argument')
        try:
            src = kp.AgnosticPitch(name, o)
            try:
                kp.AgnosticPitch.to_transposed(src, by_name[n], d)
            except Exception:
                pass      # an unspellable result: the object is still the caller's
            src.octave = o2
            if name2 != name:
                src.name = name2
            q = kp.AgnosticPitch.to_transposed(src, by_name[n2], d2)
            got = (q.name, q.octave)
        except Exception as e:
            got = 'raise:' + type(e).__name__
        try:
            f = kp.AgnosticPitch.to_transposed(kp.AgnosticPitch(name2, o2), by_name[n2], d2)
            want = (f.name, f.octave)
        except Exception as e:
            want = 'raise:' + type(e).__name__
        if got != want and ne < 10:
            ne += 1
            chk.violation('exact', f'a pitch ({name},{o}) was transposed once, then set to ({name2},{o2}) through its setters: {n2} {d2} of that object gives {got}, '
                          f'of a fresh ({name2},{o2}) gives {want}', {'pitch': f'{name2}|{o2}', 'interval': n2, 'direction': d2, 'history': 'transpose-edit-argument-transpose'})
    # results held by the caller: a melody transposed note by note into a list reads, after the loop, what each result
    # read right after its own call (a later transposition must not show through an earlier result)
    nk = 0
    for _ in range(200 if not (chk.tier == 'thorough' or b.drift or not b.proof_ok or not b.modelrun_ok) else 2000):
        r_ = chk.rng
        n, d = r_.choice(names), r_.choice(['up', 'down'])
        melody = []
        for _k in range(r_.randint(3, 8)):
            l, a, o = r_.randrange(7), r_.randint(-2, 2), r_.randint(0, 8)
            melody.append(('CDEFGAB'[l] + ('+' * a if a >= 0 else '-' * (-a)), o))
        chk.case(('held-results', tuple(melody), n, d), kind='held-results')
        held = []
        for name, o in melody:
            try:
                q = kp.AgnosticPitch.to_transposed(kp.AgnosticPitch(name, o), by_name[n], d)
                held.append((name, o, q, (q.name, q.octave)))
            except Exception:
                pass
        late = [(name, o, then, (q.name, q.octave)) for name, o, q, then in held]
        bad_ = [x for x in late if x[2] != x[3]]
        if (bad_ or len({id(q) for _, _, q, _ in held}) != len(held)) and nk < 10:
            nk += 1
            w_ = bad_[0] if bad_ else late[0]
            chk.violation('exact', f'a melody {melody} transposed {n} {d} note by note: the result for ({w_[0]},{w_[1]}) read {w_[2]} right after its call and reads '
                          f'{w_[3]} after the later calls (results share an object: {len({id(q) for _, _, q, _ in held}) != len(held)})',
                          {'melody': melody, 'interval': n, 'direction': d, 'history': 'held-results'})
    # spellings OUTSIDE the grid have been handed to the library in this process (three and four accidentals, unknown letters,
    # through the string API and the pitch objects; most of them are refused): the grid answers as before
    for l in range(7):
        for acc in ('###', '---', '####', '----', '#-', 'x'):
            for o_ in (3, 4, 5):
                body = spelling(l, 0, o_)
                for n_ in ('P1', 'M2', 'octave'):
                    for d_ in ('up', 'down'):
                        impl_transpose(kp, body + acc, by_name[n_], d_)
        for acc in ('+++', '---'):
            try:
                kp.AgnosticPitch('CDEFGAB'[l] + acc, 4).get_chroma()
            except Exception:
                pass
            try:
                kp.AgnosticPitch.to_transposed(kp.AgnosticPitch('CDEFGAB'[l] + acc, 4), by_name['M2'], 'up')
            except Exception:
                pass
    na = 0
    for (l, a, o, n, d), r0 in grid_results.items():
        if o != 4:
            continue
        chk.case(('after-out-of-grid', l, a, o, n, d), kind='after-out-of-grid')
        r1 = impl_transpose(kp, spelling(l, a, o), by_name[n], d)
        if r1 != r0 and na < 10:
            na += 1
            chk.violation('exact', f'after spellings outside the grid (three / four accidentals) were handed to the library in this process: '
                          f'transpose({spelling(l, a, o)!r}, {n}, {d}) = {r1!r}, before it was {r0!r}',
                          {'pitch': spelling(l, a, o), 'interval': n, 'direction': d, 'history': 'out-of-grid-spellings-first'})
    chk.traces_validated = chk.evaluations
    chk.disagreements_checked = len(chk.broken)


def replay(path):
    import json
    rec = json.load(open(path))
    core.ensure_env()
    import kernpy as kp
    w = rec.get('witness', {})
    if 'pitch' in w and 'interval' in w:
        k = kp.IntervalsByName[w['interval']]
        print('transpose', w, '->', impl_transpose(kp, w['pitch'], k, w.get('direction', 'up')))
    print(json.dumps(rec, indent=1)[:2000])
    return 0
