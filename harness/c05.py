"""C05 - Category filtering removes exactly the unselected material.

proof         : coq/props/C05.v - filter = deletion of the unselected sub-parts, filtering commutes with both sorts of the
                export (selected parts keep their order), include=all/exclude=nothing is the identity, the selected set is
                C11's closure formula; for every note and every include/exclude list
correspondence: dumps(doc, include, exclude, eKern) of kernpy vs the extracted model
monitor       : kernpy's filtered export against the generator's description with the unselected parts deleted
"""
import itertools
import json
import random

from harness import core, docs, engine, optprops, spec
from harness.docs import C1


def worker(kp, job):
    seed, idx, mode = job
    rng = random.Random(seed * 49979687 + idx)
    CATS = [c.name for c in kp.TokenCategory]
    g = docs.gen_doc(rng, max_spines=3, measures=rng.randint(1, 2), twins=0.5) if mode != 'big' else docs.gen_doc(rng, twins=0.4)
    text = g.text
    bad = docs.bad_cells(kp, text)
    try:
        doc, errs = kp.loads(text)
    except Exception as e:
        return {'records': [engine.rec('loads', impl='raise:' + type(e).__name__, req=('import', [C1.join(bad), text]), key=text)]}
    optsets = []
    if mode == 'singles':
        optsets += [{'include': [c]} for c in CATS] + [{'exclude': [c]} for c in CATS]
    elif mode == 'pairs':
        pairs = list(itertools.product(CATS, CATS))
        k = idx % 8
        optsets += [{'include': [a], 'exclude': [b]} for a, b in pairs[k::8]]
    else:
        for _ in range(12):
            o = {}
            if rng.random() < 0.8:
                o['include'] = rng.sample(CATS, rng.randint(1, 8))
            if rng.random() < 0.7:
                o['exclude'] = rng.sample(CATS, rng.randint(1, 5))
            optsets.append(o)
        # selections of every size: include / exclude sets whose size is drawn from the whole range 0 .. all categories
        for _ in range(3):
            o = {'include': rng.sample(CATS, rng.randint(9, len(CATS)))}
            if rng.random() < 0.4:
                o['exclude'] = rng.sample(CATS, rng.randint(1, len(CATS) - 1))
            optsets.append(o)
        optsets.append({'exclude': rng.sample(CATS, rng.randint(6, len(CATS) - 1))})
        optsets.append({'include': list(CATS)})
        optsets.append({'exclude': []})
        # nothing selected: an empty include list is a selection of nothing (not "no filter")
        optsets.append({'include': []})
        optsets.append({'include': [], 'exclude': rng.sample(CATS, rng.randint(0, 2))})
    records = []
    base = docs.impl_dumps(kp, doc, encoding='ekern')
    for o in optsets:
        o = dict(o)
        o['encoding'] = 'ekern'
        r = optprops.evaluate(kp, g, doc, bad, text, o, mode, clause='filter')
        if 'include' in o and not spec.closure(kp, o.get('include'), o.get('exclude')) and r['impl'] != 'ok:':
            r['viol'].append(('filter', f'nothing is selected ({optprops.fmt(o)}) but the export is not empty: {r["impl"][3:60]!r}', {'text': text, 'options': o}))
        if set(o['include'] if 'include' in o else CATS) >= set(CATS) and not o.get('exclude') and r['impl'] != base:
            r['viol'].append(('identity', f'include=all / exclude=nothing changes the export ({optprops.fmt(o)})', {'text': text, 'options': o}))
        records.append(r)
    # one exporter and one options object serving every selection of this document (the selection re-assigned in
    # between): each export must be the export a fresh exporter gives for that selection
    if mode == 'big':
        import kernpy.core.tokens as T
        TC = kp.TokenCategory
        exporter = kp.Exporter()
        options = kp.ExportOptions(kern_type=kp.Encoding.eKern)
        viol = []
        trail = []
        for o, r in zip(optsets, records):
            inc = [TC[c] for c in o['include']] if 'include' in o else None
            exc = [TC[c] for c in o['exclude']] if 'exclude' in o else None
            trail.append(optprops.fmt(o))
            try:
                options.token_categories = T.TokenCategoryHierarchyMapper.valid(include=inc, exclude=exc)
                got = 'ok:' + exporter.export_string(doc, options)
            except Exception as e:
                got = 'err:' + type(e).__name__
            if got != r['impl'] and not viol:
                viol.append(('session', f'one Exporter / one ExportOptions reused: selection {len(trail)} ({trail[-1]}) after {len(trail) - 1} '
                             f'other selections exports something else than a fresh exporter', {'text': text, 'selections': list(trail)}))
        records.append(engine.rec('session', viol=viol, kind='session', key=('session', text, str(optsets))))
    if idx % 13 == 0:
        records[0]['sample'] = {'text': text, 'options': optsets[0], 'export': records[0]['impl'][3:]}
    return {'records': records}


def run(chk):
    b = core.standard_build(chk)
    model = core.Model() if b.modelrun_ok else None
    full = chk.tier == 'thorough' or bool(b.drift) or not b.proof_ok or not b.modelrun_ok
    jobs = [(chk.seed, i, 'singles') for i in range(12 if full else 3)]
    jobs += [(chk.seed, i, 'pairs') for i in range(32 if full else 8)]
    jobs += [(chk.seed, 1000 + i, 'big') for i in range(core.budget(chk, full, 50, 300))]
    chk.rule = ('documents x include/exclude: every single category as include and as exclude (37+37 per document), every '
                'ordered (include, exclude) pair of single categories (37x37, spread over 8 documents each round), random larger '
                'sets on full-size documents, plus the explicit identity selections, and the same selections served by ONE exporter and ONE options object; extended encoding; non-trivial = distinct '
                '(text, options)')
    results = engine.pmap(worker, jobs)
    engine.settle(chk, results, model)
    chk.disagreements_checked = len(chk.broken)


def replay(path):
    rec = json.load(open(path))
    import kernpy as kp
    print(json.dumps(rec, indent=1)[:2500])
    w = rec.get('witness', {})
    if isinstance(w, dict) and 'text' in w:
        doc, errs = kp.loads(w['text'])
        print(docs.impl_dumps(kp, doc, **w.get('options', {})))
    return 0
