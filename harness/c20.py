"""C20 - File and command-line paths equal the in-memory API.

proof         : coq/props/C20.v (pure part only) - the file reader and the text reader of the importer model split every byte
                string without exotic separators into the same rows, hence load = loads on the model
correspondence: kernpy.load(file) vs the model's file-mode import (bytes of the file), on real temporary files
monitor       : on real files and subprocesses: load(file) = loads(text) (whole tree), dump writes what dumps returns (missing
                directories created; a second dump over an existing file, same and other size), `python -m kernpy --kern2ekern / --ekern2kern` (single file, directory, recursive or
                not) write exactly what the API produces, and ekern -> kern -> ekern returns the original ekern.
                PARTIAL: open() / encodings / argparse / glob / exit codes cannot be modelled in Gallina.
"""
import json
import os
import random
import shutil
import subprocess
import sys
import tempfile

from harness import core, docs, engine, spec
from harness.docs import C1

BEKERN = ['STRUCTURAL', 'CORE', 'SIGNATURES', 'BARLINES', 'IMAGE_ANNOTATIONS']


def cli(args, cwd):
    env = dict(os.environ, PYTHONPATH=core.REPO, PYTHONHASHSEED='0')
    p = subprocess.run([sys.executable, '-m', 'kernpy'] + args, cwd=cwd, env=env, stdout=subprocess.PIPE, stderr=subprocess.PIPE,
                       timeout=300, text=True)
    return p.returncode, p.stdout, p.stderr


def file_worker(kp, job):
    seed, idx = job
    rng = random.Random(seed * 217645177 + idx)
    g = docs.gen_doc(rng, max_spines=3, measures=rng.randint(1, 3), rest_in_chord=0)
    g.nl = ['\n', '\r\n', '\n', '\r\n', '\r'][idx % 5]
    g.final_nl = idx % 3 != 0
    if idx % 4 == 0:
        for row in g.rows():
            for c in row:
                if c.kind == 'free' and rng.random() < 0.5:
                    c.text = rng.choice(['ça', 'niño', 'Über', '日本', 'ł', 'naïve'])
    if idx % 4 == 1:
        # cells the line reader must take literally (quotes, commas, spaces)
        for row in g.rows():
            for c in row:
                if c.kind == 'free' and rng.random() < 0.6:
                    c.text = rng.choice(['"q"', '"x', 'a,b', 'x y', 'a"b"c', '""', '" "', "it's", 'nein"', '"Ach,'])
    exotic = idx % 11 == 10
    if exotic:
        for row in g.rows():
            for c in row:
                if c.kind == 'free':
                    c.text = 'a' + rng.choice(['\x0c', '\x0b', ' ', '\x85', '\x1c']) + 'b'
    damaged = idx % 5 == 3 and not exotic
    if damaged:
        # a rejected cell or two: the file import reports the same errors as the string import (and raises alike on request)
        cells_ = [c for row in g.rows() for c in row if c.kind in ('note', 'rest') and c.htype == '**kern']
        for c in rng.sample(cells_, min(len(cells_), rng.randint(1, 2))):
            c.text = rng.choice(['4q', '4zz', 'c4', '8', '4c%%z(', 'h'])
    text = g.text
    tmp = tempfile.mkdtemp(prefix='kvc20_')
    records = []
    try:
        path = os.path.join(tmp, 'in.krn')
        with open(path, 'w', encoding='utf-8', newline='') as f:
            f.write(text)
        bad = docs.bad_cells(kp, text)
        viol = []
        w = {'text': text}
        tag = 'exotic-separator: ' if exotic else ''
        try:
            d1, e1 = kp.load(path)
            a = 'ok:' + docs.impl_show_doc(kp, d1, e1)
        except Exception as e:
            d1, a = None, 'raise:' + type(e).__name__
        try:
            d2, e2 = kp.loads(text)
            b_ = 'ok:' + docs.impl_show_doc(kp, d2, e2)
        except Exception as e:
            d2, b_ = None, 'raise:' + type(e).__name__
        if damaged:
            def strict(fn, arg):
                try:
                    fn(arg, raise_on_errors=True)
                    return 'returns'
                except TypeError:
                    return 'no-such-option'
                except Exception as e_:
                    return 'raises:' + type(e_).__name__
            s1, s2 = strict(kp.load, path), strict(kp.loads, text)
            if s1 != s2:
                viol.append(('load-equals-loads', f'load(file, raise_on_errors=True) {s1}, loads(text, raise_on_errors=True) {s2}', w))
            n1 = len(e1) if d1 is not None else None
            n2 = len(e2) if d2 is not None else None
            if n1 != n2:
                viol.append(('load-equals-loads', f'load(file) reports {n1} errors, loads(text) reports {n2}', w))
        if a != b_:
            viol.append(('load-equals-loads', f'{tag}load(file) and loads(text) differ (line ends {g.nl!r}, final newline {g.final_nl})', w))
        records.append(engine.rec('load', impl=a, req=('import_file', [C1.join(bad), text]) if not exotic else None, viol=viol,
                                  kind='load:' + repr(g.nl), key=('load', text),
                                  sample={'text': text, 'line_end': g.nl} if idx % 23 == 0 else None))
        # dump = dumps, missing directories created
        if d2 is not None and not exotic:
            CATS = [c.name for c in kp.TokenCategory]
            for _ in range(3):
                o = {}
                if rng.random() < 0.6:
                    o['encoding'] = rng.choice(['kern', 'ekern', 'bkern', 'bekern'])
                if rng.random() < 0.5:
                    o['include'] = rng.sample(CATS, rng.randint(1, 6))
                if rng.random() < 0.4:
                    o['spine_types'] = ['**kern']
                s = docs.impl_dumps(kp, d2, **o)
                out = os.path.join(tmp, f'new{rng.randint(0, 9)}', 'deeper', 'out.krn')
                kw = dict(o)
                TC = kp.TokenCategory
                if 'include' in kw:
                    kw['include'] = {TC[c] for c in kw['include']}
                if 'encoding' in kw:
                    kw['encoding'] = kp.Encoding(kw['encoding'])
                v = []
                try:
                    kp.dump(d2, out, **kw)
                    with open(out, encoding='utf-8', newline='') as f:
                        written = 'ok:' + f.read()
                except Exception as e:
                    written = 'err:' + type(e).__name__
                if written != s:
                    v.append(('dump-equals-dumps', f'dump wrote something else than dumps returns (options {o})', {'text': text, 'options': o}))
                records.append(engine.rec('dump', impl=s, req=docs.model_dumps_req(bad, text, **o), viol=v, kind='dump', key=('dump', text, str(o))))
        # an option set for which the export raises: dump raises the same error and writes NOTHING - an existing file
        # keeps its content, a fresh path stays absent (dump writes exactly what dumps returns)
        if d2 is not None and not exotic:
            try:
                M = d2.measures_count()
            except Exception:
                M = 0
            o = rng.choice([{'to_measure': M + rng.randint(1, 4)}, {'from_measure': max(M, 2), 'to_measure': 1}, {'from_measure': -rng.randint(1, 3)}])
            try:
                kp.dumps(d2, **o)
                want = None
            except Exception as e:
                want = type(e).__name__
            if want is not None:
                v = []
                try:
                    good = kp.dumps(d2)
                    kept = os.path.join(tmp, 'kept.krn')
                    kp.dump(d2, kept)
                    fresh = os.path.join(tmp, f'fresh{rng.randint(0, 9)}', 'out.krn')
                    for target in (kept, fresh):
                        try:
                            kp.dump(d2, target, **o)
                            got = 'ok'
                        except Exception as e:
                            got = type(e).__name__
                        if got != want:
                            v.append(('dump-equals-dumps', f'options {o}: dumps raises {want}, dump to {"an existing" if target == kept else "a fresh"} path gives {got}', {'text': text, 'options': o}))
                    with open(kept, encoding='utf-8', newline='') as f:
                        after = f.read()
                    if after != good:
                        v.append(('dump-equals-dumps', f'options {o}: the export raises {want}, yet dump changed the existing file at the path '
                                                       f'({len(good.encode())} -> {len(after.encode())} bytes)', {'text': text, 'options': o}))
                    if os.path.exists(fresh):
                        v.append(('dump-equals-dumps', f'options {o}: the export raises {want}, yet dump created a file at the fresh path', {'text': text, 'options': o}))
                except Exception as e:
                    v.append(('dump-equals-dumps', f'dump on the error path: unexpected {type(e).__name__}', {'text': text, 'options': o}))
                records.append(engine.rec('dump-raises', viol=v[:2], kind='dump-raises:' + want, key=('dump-raises', text, str(o))))
        # a second dump over an existing file: the file must hold the NEW export, also when it has the same length
        if d2 is not None and not exotic:
            import re
            m = list(re.finditer(r'(?<=[0-9.])([a-g])\1*', text))
            if m:
                k = rng.choice(m)
                text_b = text[:k.start()] + chr((ord(k.group(1)) - 97 + 1) % 7 + 97) * (k.end() - k.start()) + text[k.end():]
                try:
                    db, eb = kp.loads(text_b)
                    sa, sb = kp.dumps(d2), kp.dumps(db)
                    same = os.path.join(tmp, 'same.krn')
                    kp.dump(d2, same)
                    kp.dump(db, same)
                    with open(same, encoding='utf-8', newline='') as f:
                        got = f.read()
                    v = []
                    if got != sb:
                        v.append(('dump-equals-dumps', f'a second dump over an existing file left other content than dumps returns (old and new export have '
                                  f'{len(sa.encode())} / {len(sb.encode())} bytes; file equals the OLD export: {got == sa})', {'text': text, 'second': text_b}))
                    records.append(engine.rec('dump-over', viol=v, kind='dump-over:' + ('same-size' if len(sa.encode()) == len(sb.encode()) else 'other-size'),
                                              key=('dump-over', text, text_b)))
                except Exception as e:
                    records.append(engine.rec('dump-over', viol=[('dump-equals-dumps', f'second dump raised {type(e).__name__}', {'text': text, 'second': text_b})],
                                              kind='dump-over', key=('dump-over', text, text_b)))
    finally:
        shutil.rmtree(tmp, ignore_errors=True)
    return {'records': records}


def big_file_worker(kp, job):
    """the file converter on ekern files whose header line lies deep inside the file (kilobytes of reference records and
    comments before it), placed around every power-of-two offset a block-wise reader could cut at: the converted file is
    what get_kern_from_ekern returns for the whole text; and kern -> ekern of a file with such a preamble equals the API"""
    seed, idx = job
    rng = random.Random(seed * 860946001 + idx)
    tmp = tempfile.mkdtemp(prefix='kvc20big_')
    records = []
    try:
        import kernpy.core.exporter as E
        conv = getattr(kp, 'ekern_to_krn', None) or getattr(E, 'ekern_to_krn')
        body = '**ekern\t**text\t**ekern\n*clefG2\t*\t*clefF4\n4@c\u00b7L\tla\t8.@dd@#\n=\t=\t=\n*-\t*-\t*-\n'
        blocks = [256, 512, 1024, 2048, 4096, 8192, 16384, 65536]
        for B in blocks:
            for back in (1, 3, 6, 9, rng.randint(1, 20)):
                target = B * rng.choice([1, 1, 2, 3]) - back          # the header line starts here
                pre, k = '', 0
                while len(pre) < target:
                    k += 1
                    line = f'!!!REF{k}: ' + 'x' * rng.randint(10, 70) + '\n'
                    if len(pre) + len(line) > target:
                        line = '!!' + 'y' * max(0, target - len(pre) - 3) + '\n'
                    pre += line
                if len(pre) != target:
                    continue
                text = pre + body
                src = os.path.join(tmp, f'in_{B}_{back}.ekrn')
                out = os.path.join(tmp, f'out_{B}_{back}.krn')
                with open(src, 'w', encoding='utf-8', newline='') as f:
                    f.write(text)
                viol = []
                try:
                    conv(src, out)
                    got = open(out, encoding='utf-8', newline='').read()
                except Exception as e:
                    got = 'raise:' + type(e).__name__
                want = kp.get_kern_from_ekern(text)
                # the kern text of this file, written by hand: the preamble as it is, the body without separators under **kern
                body_kern = '**kern\t**text\t**kern\n*clefG2\t*\t*clefF4\n4cL\tla\t8.dd#\n=\t=\t=\n*-\t*-\t*-\n'
                if want != pre + body_kern:
                    viol.append(('cli-ekern2kern', f'an ekern text with {k} records before its header line: get_kern_from_ekern does not return the kern text '
                                                   f'(header line {want[len(pre):len(pre) + 24]!r}...)', {'header_offset': target, 'preamble_lines': k, 'body': body}))
                if got != want:
                    k_ = next((i for i in range(min(len(got), len(want))) if got[i] != want[i]), min(len(got), len(want)))
                    viol.append(('cli-ekern2kern', f'an ekern file whose header line starts at character {target}: the converted file differs from '
                                                   f'get_kern_from_ekern(text) at character {k_} ({got[k_:k_ + 12]!r} vs {want[k_:k_ + 12]!r})',
                                 {'header_offset': target, 'preamble_lines': k, 'body': body}))
                records.append(engine.rec('big-file', viol=viol, kind='big-file', key=('big-file', B, back, target)))
    finally:
        shutil.rmtree(tmp, ignore_errors=True)
    return {'records': records}


def cli_worker(kp, job):
    seed, idx = job
    rng = random.Random(seed * 236887691 + idx)
    tmp = tempfile.mkdtemp(prefix='kvc20cli_')
    records = []
    # the directory handed to the converters has glob characters in its name every other run (Chopin [op28]); the tree
    # also holds a hidden directory and a file whose name starts with a dot
    TREE = 'tree' if idx % 2 else 'scores [op28] v1'
    try:
        texts = {}
        layout = ['a.krn', 'b.kern', 'sub/c.krn', 'sub/deep/d.krn', 'note.txt', 'sub/a.krn', 'sub/deep/a.krn', 'other/b.kern', 'sub/deep/c.krn',
                  'song.krn', 'song.v2.krn', 'sub/etude.op10.kern',      # dots inside the base name
                  '.c.krn', 'sub/.drafts/e.krn']
        for rel in layout:
            g = docs.gen_doc(rng, max_spines=3, measures=rng.randint(1, 2), rest_in_chord=0, comments=False)
            g.nl = rng.choice(['\n', '\r\n'])
            p = os.path.join(tmp, TREE, rel)
            os.makedirs(os.path.dirname(p), exist_ok=True)
            with open(p, 'w', encoding='utf-8', newline='') as f:
                f.write(g.text)
            texts[rel] = g.text
        # files the converter cannot convert (a cell the grammar rejects) beside the valid ones: they are skipped with a
        # message, every other file of the tree is still converted
        for rel in ('bad.krn', 'sub/bad.krn'):
            p = os.path.join(tmp, TREE, rel)
            with open(p, 'w', encoding='utf-8', newline='') as f:
                f.write('**kern\n*clefG2\n4c\nQQQ\n*-\n')
            texts[rel] = '**kern\n*clefG2\n4c\nQQQ\n*-\n'
        layout = ['bad.krn'] + layout + ['sub/bad.krn']

        def api_ekern(text):
            d, errs = kp.loads(text)
            if errs:
                return None
            TC = kp.TokenCategory
            return kp.dumps(d, spine_types=['**kern'], include={TC[c] for c in BEKERN}, encoding=kp.Encoding.eKern)
        viol = []
        # single file, explicit output
        src = os.path.join(tmp, TREE, 'a.krn')
        out = os.path.join(tmp, 'single.ekrn')
        rc, so, se = cli(['--kern2ekern', '--input_path', src, '--output_path', out], tmp)
        want = api_ekern(texts['a.krn'])
        got = open(out, encoding='utf-8', newline='').read() if os.path.exists(out) else None
        if want is not None and got != want:
            viol.append(('cli-kern2ekern', f'single file: the converter wrote something else than the API (exit {rc}, stderr {se[-120:]!r})', {'text': texts['a.krn']}))
        # back to kern and again to ekern
        if got is not None:
            back = os.path.join(tmp, 'back.krn')
            rc2, _, se2 = cli(['--ekern2kern', '--input_path', out, '--output_path', back], tmp)
            gotk = open(back, encoding='utf-8', newline='').read() if os.path.exists(back) else None
            if gotk != kp.get_kern_from_ekern(got):
                viol.append(('cli-ekern2kern', f'the converter wrote something else than get_kern_from_ekern (exit {rc2})', {'text': got}))
            if gotk is not None:
                again = os.path.join(tmp, 'again.ekrn')
                rc3, _, se3 = cli(['--kern2ekern', '--input_path', back, '--output_path', again], tmp)
                got3 = open(again, encoding='utf-8', newline='').read() if os.path.exists(again) else None
                if got3 != got:
                    viol.append(('cli-round-trip', f'ekern -> kern -> ekern does not return the original ekern (exit {rc3}, stderr {se3[-120:]!r})',
                                 {'text': texts['a.krn']}))
        # in place: the output path names the input file (an ekern file converted where it lies, through the CLI and the API)
        if got is not None:
            import shutil as _sh
            E_ = __import__('kernpy.core.exporter', fromlist=['x'])
            conv_ = getattr(kp, 'ekern_to_krn', None) or getattr(E_, 'ekern_to_krn')
            wantk = kp.get_kern_from_ekern(got)
            for how in ('cli', 'api', 'api-link'):
                ip = os.path.join(tmp, f'inplace_{how}.ekrn')
                with open(ip, 'w', encoding='utf-8', newline='') as f_:
                    f_.write(got)
                outp = ip
                try:
                    if how == 'cli':
                        cli(['--ekern2kern', '--input_path', ip, '--output_path', ip], tmp)
                    elif how == 'api':
                        conv_(ip, ip)
                    else:
                        outp = os.path.join(tmp, 'inplace_link.ekrn')
                        if os.path.lexists(outp):
                            os.remove(outp)
                        os.link(ip, outp)          # another name of the same file
                        conv_(ip, outp)
                    res_ = open(outp, encoding='utf-8', newline='').read()
                except Exception as e_:
                    res_ = 'raise:' + type(e_).__name__
                if res_ != wantk:
                    viol.append(('cli-ekern2kern', f'in place ({how}): converting an ekern file onto itself leaves {res_[:60]!r}... instead of what get_kern_from_ekern '
                                                   f'produces for its content', {'text': got, 'how': how}))
        records.append(engine.rec('cli-single', viol=viol, kind='cli-single', key=('cli', texts['a.krn']),
                                  sample={'input': texts['a.krn'], 'ekern': got} if idx == 0 else None))
        # directory mode
        for recursive in (False, True):
            viol = []
            for rel in layout:
                e = os.path.join(tmp, TREE, os.path.splitext(rel)[0] + '.ekrn')
                if os.path.exists(e):
                    os.remove(e)
            rc, so, se = cli(['--kern2ekern', '--input_path', os.path.join(tmp, TREE)] + (['-r'] if recursive else []), tmp)
            for rel in layout:
                e = os.path.join(tmp, TREE, os.path.splitext(rel)[0] + '.ekrn')
                should = rel.endswith(('.krn', '.kern')) and (recursive or '/' not in rel)
                want = api_ekern(texts[rel]) if should else None
                got = open(e, encoding='utf-8', newline='').read() if os.path.exists(e) else None
                if should and want is not None and got != want:
                    viol.append(('cli-directory', f'recursive={recursive}: {rel} was not converted to what the API produces', {'text': texts[rel]}))
                if not should and got is not None:
                    viol.append(('cli-directory', f'recursive={recursive}: {rel} was converted although it is outside the selection', {'text': texts[rel]}))
            records.append(engine.rec('cli-directory', viol=viol, kind=f'cli-dir-recursive={recursive}', key=('clidir', recursive, texts['a.krn'])))
        # the other direction in directory mode, with and without an --output_path (which directory mode ignores):
        # every x.ekrn gets a sibling x.krn holding what the API produces
        ek = {}
        for rel in layout:
            e = os.path.join(tmp, TREE, os.path.splitext(rel)[0] + '.ekrn')
            if os.path.exists(e):
                ek[os.path.splitext(rel)[0]] = open(e, encoding='utf-8', newline='').read()
        for variant, extra in (('plain', []), ('output-file', ['--output_path', os.path.join(tmp, 'one.krn')]),
                               ('output-dir', ['--output_path', os.path.join(tmp, 'outdir')])):
            t2 = os.path.join(tmp, 'tree_' + variant)
            for stem, content in ek.items():
                os.makedirs(os.path.dirname(os.path.join(t2, stem)), exist_ok=True)
                with open(os.path.join(t2, stem + '.ekrn'), 'w', encoding='utf-8', newline='') as f:
                    f.write(content)
            os.makedirs(os.path.join(tmp, 'outdir'), exist_ok=True)
            rc, so, se = cli(['--ekern2kern', '--input_path', t2, '-r'] + extra, tmp)
            viol = []
            for stem, content in ek.items():
                kpath = os.path.join(t2, stem + '.krn')
                got = open(kpath, encoding='utf-8', newline='').read() if os.path.exists(kpath) else None
                if got != kp.get_kern_from_ekern(content):
                    viol.append(('cli-ekern2kern', f'directory mode ({variant}): {stem}.ekrn was not converted to what get_kern_from_ekern produces '
                                 f'(exit {rc}, written: {got is not None})', {'text': content, 'variant': variant}))
                    break
            records.append(engine.rec('cli-directory-back', viol=viol, kind='cli-dir-ekern2kern-' + variant, key=('clidirback', variant, texts['a.krn'])))
    finally:
        shutil.rmtree(tmp, ignore_errors=True)
    return {'records': records}


def run(chk):
    chk.level = 'proof'
    b = core.standard_build(chk)
    model = core.Model() if b.modelrun_ok else None
    full = chk.tier == 'thorough' or bool(b.drift) or not b.proof_ok or not b.modelrun_ok
    nfile = core.budget(chk, full, 55, 300)
    ncli = 12 if full else 3
    chk.rule = ('generated documents written to real temporary files with LF / CRLF / CR line ends, with and without final newline, '
                'non-ASCII lyrics (every 11th with the extra separators of str.splitlines: finding K9): load vs loads (whole tree), '
                'dump vs dumps for 3 option sets into missing directories; the ekern -> kern file converter on files whose header line lies around power-of-two offsets; dump with an option set whose export raises (same error, existing file untouched, no file created); python -m kernpy subprocesses: single-file kern2ekern, '
                'ekern2kern and back, directory mode (both directions, with and without --output_path) with and without -r over a tree with .krn / .kern / other files, the same file names in several directories; '
                'non-trivial = distinct (text, operation)')
    results = engine.pmap(file_worker, [(chk.seed, i) for i in range(nfile)]) + engine.pmap(cli_worker, [(chk.seed, i) for i in range(ncli)], nproc=min(ncli, 6))
    results += engine.pmap(big_file_worker, [(chk.seed, i) for i in range(2 if not full else 8)])
    engine.settle(chk, results, model)
    chk.notes['partial'] = 'open()/encodings/makedirs/argparse/glob/process behaviour are exercised on real files and subprocesses, not proved'
    chk.disagreements_checked = len(chk.broken)


def replay(path):
    rec = json.load(open(path))
    print(json.dumps(rec, indent=1)[:2500])
    return 0
