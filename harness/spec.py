"""The generator's own abstract description of a document (an oracle independent of kernpy's parser):
what every cell is, which sub-parts it has and of which category, and from that the export the
properties C03 / C04 / C05 / C06 / C10 / C13 demand, for any option set."""
from harness import engine

SHARED = {'STRUCTURAL', 'HEADER', 'SPINE_OPERATION', 'SIGNATURES', 'CLEF', 'TIME_SIGNATURE', 'METER_SYMBOL', 'KEY_SIGNATURE',
          'KEY_TOKEN', 'EMPTY', 'BARLINES', 'IMAGE_ANNOTATIONS', 'BOUNDING_BOXES', 'LINE_BREAK', 'COMMENTS', 'FIELD_COMMENTS',
          'LINE_COMMENTS'}
SIGNATURE_CATS = {'SIGNATURES', 'CLEF', 'TIME_SIGNATURE', 'METER_SYMBOL', 'KEY_SIGNATURE', 'KEY_TOKEN'}
OWN = {'**text': 'LYRICS', '**dynam': 'DYNAMICS', '**dyn': 'DYNAMICS', '**harm': 'HARMONY', '**mxhm': 'HARMONY', '**fing': 'FINGERING'}
SUPPORTED = ['**mens', '**kern', '**text', '**harm', '**mxhm', '**root', '**dyn', '**dynam', '**fing']
PREFIX = {'kern': '', 'ekern': 'e', 'bkern': 'b', 'bekern': 'be', 'akern': 'a', 'aekern': 'ae'}

ENGRAVED = {'*above', '*below', '*centered', '*cue', '*Xcue', '*tremolo', '*Xtremolo', '*ped', '*Xped', '*ela', '*tuplet', '*Xtuplet',
            '*tstart', '*tend'}
OCTSHIFT = {'*8va', '*X8va', '*8ba', '*X8ba'}


def interp_category(t):
    if t == '*':
        return 'EMPTY'
    if t.startswith('*clef'):
        return 'CLEF'
    if t.startswith('*xywh'):
        return 'BOUNDING_BOXES'
    if t.startswith('*k[') or t == '*kcancel':
        return 'KEY_SIGNATURE'
    if t.startswith('*met(') or t.startswith('*M('):
        return 'METER_SYMBOL'
    if t.startswith('*MM'):
        return 'OTHER_CONTEXTUAL'
    if t.startswith('*M'):
        return 'TIME_SIGNATURE'
    if t.startswith('*staff'):
        return 'STRUCTURAL'
    if t in ENGRAVED:
        return 'ENGRAVED_SYMBOLS'
    if t in OCTSHIFT:
        return 'OTHER_CONTEXTUAL'
    if t.endswith(':') or (len(t) > 2 and t[-4] == ':' and t[-3:] in ('dor', 'phr', 'lyd', 'mix', 'aeo', 'ion', 'loc')):
        return 'OTHER_CONTEXTUAL'
    return 'OTHER'


def cell_category(cell):
    """category of the token the cell becomes (None for notes / rests / chords, which have sub-parts)"""
    k = cell.kind
    own = OWN.get(cell.htype, 'OTHER') if cell.htype not in ('**kern', '**root') else None
    if k == 'header':
        return 'HEADER'
    if k == 'spineop':
        return 'SPINE_OPERATION'
    if k == 'fcomment':
        return 'FIELD_COMMENTS'
    if k == 'barline':
        return 'BARLINES'
    if k == 'null':
        return 'EMPTY'
    if k == 'interp':
        c = interp_category(cell.text)
        return c if (own is None or c in SHARED) else own
    if k == 'free':
        return own
    return None


def bar_text(t):
    """a barline keeps its type and loses only the measure number (and the a/b / hidden marks)"""
    eqs = '==' if t.startswith('==') else '='
    rest = t[len(eqs):].lstrip('0123456789')
    if rest.startswith('a'):
        rest = rest[1:]
    if rest.startswith('b'):
        rest = rest[1:]
    if rest.startswith('-'):
        rest = rest[1:]
    return eqs + rest


def dur_parts(d):
    """'4.q' -> ['4', '.', 'q'] ; '4%3..' -> ['4%3', '.', '.']"""
    if not d:
        return []
    i = 0
    while i < len(d) and (d[i].isdigit() or d[i] == '%'):
        i += 1
    parts = [d[:i]]
    while i < len(d) and d[i] == '.':
        parts.append('.')
        i += 1
    if i < len(d):
        parts.append(d[i:])
    return parts


def note_parts(ast, inherited_dur, chord_decos=None):
    """sub-parts of a note / rest with their categories, in canonical order"""
    dur = ast['dur'] if ast['dur'] else inherited_dur
    pd = [(p, 'DURATION') for p in dur_parts(dur)]
    if ast['kind'] == 'note':
        pd.append((ast['pitch'], 'PITCH'))
        if ast['acc']:
            pd.append((ast['acc'], 'ALTERATION'))
    else:
        pd.append(('r', 'REST'))
    decos = sorted(set(chord_decos if chord_decos is not None else ast['decos']))
    return pd, [(d, 'DECORATION') for d in decos], dur


# --------------------------------------------------------------------------- agnostic pitch (C10's closed formula)

BOTTOM = {('G', None): (2, 4), ('F', 3): (6, 3), ('F', 4): (4, 2), ('C', 1): (0, 3), ('C', 2): (5, 2), ('C', 3): (6, 2), ('C', 4): (1, 2)}


def clef_bottom(clef_text):
    body = clef_text.replace('*clef', '')
    name = [c for c in body if c in 'GFC']
    digits = [c for c in body if c.isdigit()]
    if not name or not digits:
        return None
    key = ('G', None) if name[0] == 'G' else (name[0], int(digits[0]))
    return BOTTOM.get(key)


def agnostic_pitch(pitch, acc, clef_text):
    """the Humdrum pitch on the same line or space under G2; None when no supported clef is in force
    or the accidental is outside the property's quantifier (natural / display suffix: finding K6)"""
    b = clef_bottom(clef_text) if clef_text else None
    if b is None:
        return None
    letter = 'cdefgab'.index(pitch[0].lower())
    octave = 4 + len(pitch) - 1 if pitch[0].islower() else 3 - (len(pitch) - 1)
    d = 7 * octave + letter - (7 * b[1] + b[0]) + (7 * 4 + 2)
    l2, o2 = d % 7, d // 7
    s = 'cdefgab'[l2] * (o2 - 3) if o2 >= 4 else 'CDEFGAB'[l2] * (4 - o2)
    return s + acc


# --------------------------------------------------------------------------- the export of one cell

def render_note(pd, deco, selected, encoding, clef):
    pd_k = [(t, c) for t, c in pd if c in selected]
    deco_k = [(t, c) for t, c in deco if c in selected]
    if encoding in ('akern', 'aekern'):
        pa = [(t, c) for t, c in pd_k if c in ('PITCH', 'ALTERATION')]
        if pa:
            pitch = ''.join(t for t, c in pa if c == 'PITCH')
            acc = ''.join(t for t, c in pa if c == 'ALTERATION')
            if not pitch:
                return None      # an alteration without its pitch is not a pitch spelling: outside the quantifier
            g = agnostic_pitch(pitch, acc, clef)
            if g is None:
                return None
            durs = [t for t, c in pd_k if c == 'DURATION']
            pd_txt = '@'.join(durs + [g])
        else:
            pd_txt = '@'.join(t for t, _ in pd_k)
    else:
        pd_txt = '@'.join(t for t, _ in pd_k)
    deco_txt = '·'.join(t for t, _ in deco_k)
    content = pd_txt + ('·' + deco_txt if deco_txt else '')
    if encoding in ('bekern', 'bkern'):
        if pd_txt == '' and deco_txt != '':
            return None           # nothing but signifiers selected: outside C04's quantifier
        content = pd_txt          # basic encodings: note signifiers removed, note by note
    if encoding in ('kern', 'akern'):
        content = content.replace('@', '').replace('·', '')
    if encoding == 'bkern':
        content = content.replace('@', '')
    return content


def spec_cell(cell, selected, encoding='kern', clef=None):
    """expected exported text of one cell; None = outside what the properties pin down"""
    cat = cell_category(cell)
    if cat is not None:
        if cat not in selected:
            return '*' if cat in SIGNATURE_CATS else '.'
        if cell.kind == 'header':
            return '**' + PREFIX[encoding] + cell.text[2:]
        if cell.kind == 'barline':
            return bar_text(cell.text)      # also for hidden barlines (kernpy drops them: finding K2)
        return cell.text                    # verbatim, separators included (kernpy strips them: finding K3)
    ast = cell.ast
    if ast['kind'] in ('note', 'rest'):
        pd, deco, _ = note_parts(ast, '')
        r = render_note(pd, deco, selected, encoding, clef)
        if r is None:
            return None
        return r if r != '' else '*'
    # chord
    if 'CHORD' not in selected:
        return '.'
    union = sorted({d for n in ast['notes'] for d in n['decos']})
    out, dur = [], ''
    for n in ast['notes']:
        pd, deco, dur = note_parts(n, dur, union)
        r = render_note(pd, deco, selected, encoding, clef)
        if r is None:
            return None
        out.append(r if r != '' else '*')
    return ' '.join(out)


ALL = None


def all_categories(kp):
    return {c.name for c in kp.TokenCategory}


_DESC = {}


def documented_descendants():
    """category name -> set of the names of the category and all its descendants, read from the tree documented in
    README.md (NOT from kernpy's own hierarchy functions: the oracle must not move with the code under test)"""
    if not _DESC:
        import re as _re
        from harness import core as _core
        parent, stack, started = {}, [], False
        for line in open(_core.REPO + '/README.md', encoding='utf-8').read().splitlines():
            m = _re.match(r'^((?:\u2502   |    )*)(\u251c\u2500\u2500 |\u2514\u2500\u2500 )(?:TokenCategory\.)?([A-Z_]+)\s*$', line)
            if not m:
                if started:
                    break
                continue
            started = True
            depth = len(m.group(1)) // 4
            while len(stack) > depth:
                stack.pop()
            parent[m.group(3)] = stack[-1] if stack else None
            stack.append(m.group(3))

        def anc(c):
            out = []
            while c is not None:
                out.append(c)
                c = parent.get(c)
            return out
        for a in parent:
            _DESC[a] = {c for c in parent if a in anc(c)}
    return _DESC


def closure(kp, include, exclude):
    """names selected by include / exclude: include categories with their descendants minus exclude with theirs
    (descendants from the documented tree)"""
    desc = documented_descendants()
    names = [c.name for c in kp.TokenCategory]
    inc = set(names) if include is None else set()
    for c in (include or []):
        inc |= desc.get(c, {c})
    exc = set()
    for c in (exclude or []):
        exc |= desc.get(c, {c})
    return inc - exc


def clefs_in_force(rows):
    """clef text in force for every cell (the last clef cell on the cell's spine path, the cell itself included)"""
    texts = [[c.text for c in row] for row in rows]
    paths = engine.reference_paths(texts)
    out = []
    for r, row in enumerate(rows):
        cur = []
        for i, cell in enumerate(row):
            par = paths[r][i][0]
            clef = out[r - 1][par] if (par is not None and r > 0) else None
            if cell.kind == 'interp' and cell.text.startswith('*clef') and cell_category(cell) == 'CLEF':
                clef = cell.text
            cur.append(clef)
        out.append(cur)
    return out


def features(cell, encoding='kern'):
    f = set()
    asts = [cell.ast] if cell.kind == 'note' else (cell.ast['notes'] if cell.kind == 'chord' else [])
    for a in asts:
        if encoding in ('akern', 'aekern') and a['kind'] == 'note' and a['acc'] not in ('', '#', '##', '###', '-', '--', '---'):
            f.add('natural-or-display')
    if cell.kind == 'barline' and '-' in cell.text:
        f.add('hidden-barline')
    if cell.kind in ('free', 'fcomment', 'interp') and ('@' in cell.text or '·' in cell.text):
        f.add('separator-in-cell')
    return f


def expected_export(g, selected, encoding='kern', spine_ids=None, spine_types=None, row_range=None, with_cells=False):
    """expected rows of dumps(doc, ...) for a generated document without measure range: list of
    (cells or None, features); cells is None when some cell is outside what the properties pin down"""
    rows = g.rows()
    clefs = clefs_in_force(rows)
    types = SUPPORTED if spine_types is None else spine_types
    out = []
    for r, row in enumerate(rows):
        if row_range is not None and not (row_range[0] <= r <= row_range[1]):
            continue
        cells = []
        src = []
        undefined = False
        feats = set()
        for i, cell in enumerate(row):
            if cell.htype not in types or (spine_ids is not None and cell.spine not in spine_ids):
                continue
            t = spec_cell(cell, selected, encoding, clefs[r][i])
            if t is None:
                undefined = True
            feats |= features(cell, encoding)
            cells.append(t)
            src.append(cell)
        if undefined:
            out.append((None, feats, src) if with_cells else (None, feats))
        elif cells and not all(c in ('.', '*', '') for c in cells):
            out.append((cells, feats, src) if with_cells else (cells, feats))
    return out


def compare_export(got_text, want_rows):
    """-> None if equal, else (message, features of the first expected row that is not reproduced).
    Rows marked None (outside what the properties pin down) are skipped when the row counts agree."""
    got = grid(got_text)
    k = 0
    for k, (cells, feats) in enumerate(want_rows):
        if k >= len(got):
            if cells is None:
                return None
            return f'line {k + 1} {cells} is missing from the export', feats
        if cells is None:
            if len(got) != len(want_rows):
                return None        # an undefined row may legitimately vanish or stay: nothing more can be aligned
            continue
        if got[k] != cells:
            if len(got) != len(want_rows):
                # a vanished / extra line shifts everything below it: the cause may sit in an earlier row whose
                # expected text happens to equal the next one (e.g. a hidden barline followed by the same barline)
                for _, f2 in want_rows[:k]:
                    feats = feats | f2
            return f'exported line {k + 1} is {got[k]}, expected {cells}', feats
    if len(got) > len(want_rows):
        return f'{len(got)} lines exported, {len(want_rows)} expected: extra {got[len(want_rows)]}', set()
    return None


def grid(text):
    return engine.grid(text)


def measure_starts(g):
    """indices (into g.rows()) of the rows that open a measure: every barline row, and - when it comes before the
    first barline - the first row holding a note, rest, chord or null token (a pickup / no opening barline)"""
    rows = g.rows()
    starts = []
    for r, row in enumerate(rows):
        kinds = {c.kind for c in row}
        if 'barline' in kinds:
            starts.append(r)
        elif not starts and (kinds & {'note', 'rest', 'chord', 'null'} or any(c.kind == 'interp' and c.text == '*' for c in row)):
            starts.append(r)
    return starts
