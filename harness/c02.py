"""C02 - Import builds a spine tree that mirrors the text cell for cell.

proof         : coq/props/C02.v - invariants of the row loop of the importer model (one stage per non-empty
                line, one node per cell, ids = creation order, parents precede children, measure index increasing)
correspondence: the whole imported tree (stages, token of every node, parent / header / last spine operator /
                signature table / children / cancelled_at) of kernpy vs the extracted model, on every spine-operator
                layout up to a bounded depth (exhaustive), generated documents, literal cells and surplus rows
monitor       : kernpy's tree against the independent reference spine-path model (engine.reference_paths)
"""
import itertools
import json
import os
import random
import shutil
import tempfile

from harness import core, docs, engine

LITERALS = ['"q"', '"x', 'a,b', 'x y', ' lead', 'trail ', 'ça', 'niño', 'Über', '日本', "it's", 'a"b"c', '""', ',', '" "', 'a\\tb', '@', 'a@b',
            'a·b', '%', '#',
            # text that Unicode normalisation would rewrite: decomposed accents, singleton code points, compatibility forms
            'cafe\u0301', 'A\u030angstro\u0308m', '\u212b', '\u2126', 'a\u2002b', '\ufb01n', '\u1e9b\u0323', 'e\u0301\u0301']


def layouts(depth, width):
    """every sequence of spine-operator rows (as lists of ops per live path) up to the given depth and width,
    starting from 1 or 2 spines of one or two headers"""
    out = []

    def options(paths):
        # per path: continue '.', split '*^', terminate '*-'; runs of adjacent '*v' over paths of the same origin
        n = len(paths)
        base = []
        for choice in itertools.product(['*', '*^', '*-'], repeat=n):
            base.append(list(choice))
        for i in range(n - 1):
            for j in range(i + 2, n + 1):
                if len({paths[k] for k in range(i, j)}) == 1:
                    row = ['*'] * n
                    for k in range(i, j):
                        row[k] = '*v'
                    base.append(row)
        return base

    def nextpaths(paths, row):
        nxt = []
        for i, op in enumerate(row):
            if op == '*-':
                continue
            if op == '*^':
                nxt += [paths[i], paths[i]]
            elif op == '*v':
                if i > 0 and row[i - 1] == '*v' and paths[i - 1] == paths[i]:
                    continue
                nxt.append(paths[i])
            else:
                nxt.append(paths[i])
        return nxt

    def go(paths, rows, d):
        out.append(list(rows))
        if d == 0 or not paths:
            return
        for row in options(paths):
            if all(c == '*' for c in row):
                continue
            np_ = nextpaths(paths, row)
            if len(np_) > width:
                continue
            go(np_, rows + [row], d - 1)
    for start in ([0], [0, 1]):
        go(start, [], depth)
    return out


def random_layouts(rng, count, depth, width):
    """random sequences of MIXED operator rows: several join groups, splits and terminators on one line (the exhaustive
    family has one join group per line and nothing else beside it), deeper and wider than the exhaustive family"""
    out = []
    for _ in range(count):
        paths = [0] if rng.random() < 0.6 else [0, 1]
        rows = []
        for _d in range(rng.randint(2, depth)):
            if not paths:
                break
            row, i, n = [], 0, len(paths)
            grow = 0
            # rows that mostly split while the score is narrow, rows that mostly join / terminate once it is wide
            mode = 'grow' if n < 4 and rng.random() < 0.8 else rng.choice(['mix', 'shrink', 'shrink'])
            p_join, p_split, p_term = {'grow': (0.1, 0.6, 0.03), 'mix': (0.3, 0.25, 0.1), 'shrink': (0.6, 0.05, 0.25)}[mode]
            while i < n:
                run = 1
                while i + run < n and paths[i + run] == paths[i]:
                    run += 1
                r = rng.random()
                prev_join = bool(row) and row[-1] == '*v' and paths[i - 1] == paths[i]
                if run >= 2 and r < p_join and not prev_join:
                    k = 2 if rng.random() < 0.6 else rng.randint(2, run)
                    row += ['*v'] * k
                    i += k
                    continue
                r = rng.random()
                if r < p_split and n + grow < width:
                    row.append('*^')
                    grow += 1
                elif r < p_split + p_term and n > 1:
                    row.append('*-')
                else:
                    row.append('*')
                i += 1
            if all(c == '*' for c in row):
                continue
            nxt = []
            for j, op in enumerate(row):
                if op == '*-':
                    continue
                if op == '*^':
                    nxt += [paths[j], paths[j]]
                elif op == '*v':
                    if j > 0 and row[j - 1] == '*v' and paths[j - 1] == paths[j]:
                        continue
                    nxt.append(paths[j])
                else:
                    nxt.append(paths[j])
            rows.append(row)
            paths = nxt
        if rows:
            out.append(rows)
    return out


def wide_rows(n):
    """every operator row over n sub-spines of ONE spine that holds at least one join group (maximal runs of *v have
    length >= 2), mixed with continuations, splits and terminators in every position"""
    out = []
    for row in itertools.product(['*', '*^', '*-', '*v'], repeat=n):
        if '*v' not in row:
            continue
        ok, i = True, 0
        while i < n:
            if row[i] == '*v':
                j = i
                while j < n and row[j] == '*v':
                    j += 1
                if j - i < 2:
                    ok = False
                    break
                i = j
            else:
                i += 1
        if ok:
            out.append(list(row))
    return out


def layout_text(hdrs, oprows, rng):
    """interleave data rows between the operator rows; cells are distinct so that misplacement shows"""
    lines = ['\t'.join(hdrs)]
    paths = list(range(len(hdrs)))
    n = 0
    for row in oprows:
        cells = []
        for p in paths:
            n += 1
            cells.append(f'{4 * (1 + n % 3)}{"cdefgab"[n % 7]}' if hdrs[p] == '**kern' else f'w{n}')
        if paths:
            lines.append('\t'.join(cells))
        lines.append('\t'.join(row))
        nxt = []
        for i, op in enumerate(row):
            if op == '*-':
                continue
            if op == '*^':
                nxt += [paths[i], paths[i]]
            elif op == '*v':
                if i > 0 and row[i - 1] == '*v' and paths[i - 1] == paths[i]:
                    continue
                nxt.append(paths[i])
            else:
                nxt.append(paths[i])
        paths = nxt
    if paths:
        lines.append('\t'.join(f'2{"cdefgab"[(n + i) % 7]}' if hdrs[p] == '**kern' else f'z{i}' for i, p in enumerate(paths)))
        lines.append('\t'.join('*-' for _ in paths))
    return '\n'.join(lines) + '\n'


_SCRATCH = {}


def load_via_file(kp, text):
    """kp.load on a real file holding exactly the bytes of the text.  Every other call re-uses ONE path per worker
    process (the file is saved again with the new text, as an editor does), the others use a fresh path."""
    _SCRATCH['n'] = _SCRATCH.get('n', 0) + 1
    if _SCRATCH['n'] % 2 == 0:
        if 'dir' not in _SCRATCH or not os.path.isdir(_SCRATCH['dir']):
            _SCRATCH['dir'] = tempfile.mkdtemp(prefix='kvc02s_')
            import atexit
            atexit.register(shutil.rmtree, _SCRATCH['dir'], True)
        path = os.path.join(_SCRATCH['dir'], 'score.krn')
        with open(path, 'w', encoding='utf-8', newline='') as f:
            f.write(text)
        return kp.load(path)
    tmp = tempfile.mkdtemp(prefix='kvc02_')
    try:
        path = os.path.join(tmp, 'in.krn')
        with open(path, 'w', encoding='utf-8', newline='') as f:
            f.write(text)
        return kp.load(path)
    finally:
        shutil.rmtree(tmp, ignore_errors=True)


def check_tree(kp, text, label, via='string'):
    """violations of the property on kernpy for one text that obeys the spine-path rules (or has a surplus row);
    via = 'string' (kp.loads) or 'file' (kp.load of a file with these bytes: the other line reader)"""
    viol = []
    lines = [l for l in text.splitlines() if l != '']
    rows = [l.split('\t') for l in lines]
    spine_rows = [r for r in rows if not r[0].startswith('!!')]
    try:
        ref = engine.reference_paths(spine_rows)
        ref_err = None
    except ValueError as e:
        ref, ref_err = None, str(e)
    try:
        doc, errors = kp.loads(text) if via == 'string' else load_via_file(kp, text)
    except Exception as e:
        if ref_err is None:
            viol.append(('rejects-valid', f'import raised {type(e).__name__} on a text that obeys the spine-path rules', {'text': text}))
        return viol, None, 'raise:' + type(e).__name__
    dump = 'ok:' + docs.impl_show_doc(kp, doc, errors)
    if ref_err is not None:
        viol.append(('surplus-accepted', f'a line with surplus cells was accepted: {ref_err}', {'text': text}))
        return viol, doc, dump
    stages = doc.tree.stages
    if len(stages) != 1 + len(rows):
        viol.append(('stage-count', f'{len(stages) - 1} stages for {len(rows)} non-empty lines', {'text': text}))
        return viol, doc, dump
    si = 0
    prev_nodes = None
    hdr_of = {}
    for k, row in enumerate(rows):
        st = stages[k + 1]
        if row[0].startswith('!!'):
            if len(st) != 1 or st[0].token.encoding != row[0].strip():
                viol.append(('global-comment', f'line {k + 1}: global comment stage has {len(st)} nodes', {'text': text}))
            continue
        paths = ref[si]
        si += 1
        if len(st) != len(row):
            viol.append(('cell-count', f'line {k + 1}: {len(st)} nodes for {len(row)} cells', {'text': text}))
            return viol, doc, dump
        for i, (cell, nd) in enumerate(zip(row, st)):
            par, origin = paths[i]
            if nd.stage != k + 1:
                viol.append(('stage', f'line {k + 1} cell {i}: node.stage = {nd.stage}', {'text': text}))
            if par is None:
                if nd.header_node is not nd or nd.token.spine_id != i:
                    viol.append(('header', f'line {k + 1} cell {i}: header node / spine id wrong', {'text': text}))
                hdr_of[i] = nd
            else:
                if prev_nodes is None or nd.parent is not prev_nodes[par]:
                    viol.append(('parent', f'line {k + 1} cell {i} ({cell!r}): parent is not the cell above it on its spine path',
                                 {'text': text}))
                if nd.header_node is not hdr_of.get(origin) or nd.header_node.token.spine_id != origin:
                    viol.append(('header', f'line {k + 1} cell {i} ({cell!r}): header / spine id is not that of column {origin}',
                                 {'text': text}))
                if nd not in nd.parent.children:
                    viol.append(('children', f'line {k + 1} cell {i}: node missing from its parent\'s children', {'text': text}))
            # literal text: structural cells and cells of non-kern spines keep their text
            hdr = hdr_of.get(origin)
            htxt = hdr.token.encoding if hdr is not None else None
            literal = (par is None or cell in engine.SPINE_OPS or cell.startswith('!') or
                       (htxt not in ('**kern', '**root') and docs.kern_outcome(kp, cell) is None))
            if literal and nd.token.encoding != cell:
                viol.append(('literal', f'line {k + 1} cell {i}: text {cell!r} became {nd.token.encoding!r}', {'text': text}))
        prev_nodes = st
    ids = doc.get_spine_ids()
    hdrs = [c for c in spine_rows[0]] if spine_rows else []
    if ids != list(range(len(hdrs))):
        viol.append(('spine-ids', f'get_spine_ids() = {ids} for {len(hdrs)} header cells', {'text': text}))
    try:
        st_ = kp.spine_types(doc)
        want = [h for h in hdrs if h in ('**mens', '**kern', '**text', '**harm', '**mxhm', '**root', '**dyn', '**dynam', '**fing')]
        if st_ != want:
            viol.append(('spine-types', f'spine_types = {st_}, header line has {want}', {'text': text}))
    except Exception as e:
        viol.append(('spine-types', f'spine_types raised {type(e).__name__}', {'text': text}))
    return viol, doc, dump


def file_record(kp, text, label, bad, string_dump):
    """the same text through the file line reader: same tree rules, and the same document as the string import"""
    viol, _, dump = check_tree(kp, text, label, via='file')
    viol = [(c, 'file reader: ' + s, dict(w, via='file')) for c, s, w in viol]
    if dump != string_dump:
        viol.append(('file-equals-string', 'file reader: kp.load of a file with these bytes does not build the document kp.loads builds',
                     {'text': text, 'via': 'file'}))
    return engine.rec(label + '-file', impl=dump, req=('import_file', [docs.C1.join(bad), text]), viol=viol, kind=label + '-file',
                      key=('file', text))


def worker(kp, job):
    kind, payload = job
    records = []
    if kind == 'text':
        label, text = payload
        viol, doc, dump = check_tree(kp, text, label)
        bad = docs.bad_cells(kp, text)
        records.append(engine.rec(label, impl=dump, req=('import', [docs.C1.join(bad), text]), viol=viol, kind=label,
                                  key=text, sample={'kind': label, 'text': text} if hash(text) % 97 == 0 else None))
        if label in ('literal', 'surplus'):
            records.append(file_record(kp, text, label, bad, dump))
    elif kind == 'gen':
        seed, idx = payload
        rng = random.Random(seed * 1000003 + idx)
        g = docs.gen_doc(rng, free_headers=True, early_end=(0.25 if idx % 3 == 1 else 0.0))
        text = g.text
        # literal cells into the non-kern spines
        if rng.random() < 0.5:
            rows = text.split(g.nl)
            for _ in range(rng.randint(1, 3)):
                k = rng.randrange(len(rows))
                cells = rows[k].split('\t')
                if not cells[0] or cells[0].startswith('!!') or cells[0].startswith('**'):
                    continue
                cols = [i for i, c in enumerate(cells) if c not in engine.SPINE_OPS and not c.startswith('*') and not c.startswith('=')
                        and not c.startswith('!')]
                if cols:
                    cells[rng.choice(cols)] = rng.choice(LITERALS)
                    rows[k] = '\t'.join(cells)
            text = g.nl.join(rows)
        if rng.random() < 0.3:
            # blank lines (leading, interior, trailing): they are no stage and must not shift the lines below them
            rows = text.split(g.nl)
            for _ in range(rng.randint(1, 3)):
                rows.insert(rng.randrange(len(rows) + 1), '')
            text = g.nl.join(rows)
        if rng.random() < 0.25:
            # a line made only of tabs: NOT a blank line - as many empty cells as the line above has cells, one stage,
            # one (error) node per cell
            rows = text.split(g.nl)
            cand = [k for k, r in enumerate(rows) if '\t' in r and not r.startswith('!!') and not r.startswith('**')
                    and not any(c in engine.SPINE_OPS for c in r.split('\t'))]
            if cand:
                k = rng.choice(cand)
                rows.insert(k + 1, '\t' * rows[k].count('\t'))
                text = g.nl.join(rows)
        viol, doc, dump = check_tree(kp, text, 'generated')
        bad = docs.bad_cells(kp, text)
        if idx % 2 == 0:
            records.append(file_record(kp, text, 'generated', bad, dump))
        records.append(engine.rec('generated', impl=dump, req=('import', [docs.C1.join(bad), text]), viol=viol,
                                  kind='generated:' + ','.join(sorted(g.flags & {'split', 'join', 'comment-inside'})), key=text,
                                  sample={'kind': 'generated', 'text': text} if idx % 41 == 0 else None))
    return {'records': records}


def run(chk):
    b = core.standard_build(chk)
    model = core.Model() if b.modelrun_ok else None
    full = chk.tier == 'thorough' or bool(b.drift) or not b.proof_ok or not b.modelrun_ok
    rng = chk.rng
    jobs = []
    lay = layouts(3, 4) if not full else layouts(3, 6)
    if not full:
        # keep every layout of depth <= 2 and a seeded half of the depth-3 layouts in the quick tier
        lay = [l for l in lay if len(l) <= 2] + [l for l in lay if len(l) == 3 and rng.random() < 0.35]
    for oprows in lay:
        n0 = len(oprows[0]) if oprows else 1
        hdrs = ['**kern', '**text'][:n0] if rng.random() < 0.5 else ['**kern'] * n0
        if oprows and len(oprows[0]) == 1:
            hdrs = [rng.choice(['**kern', '**text'])]
        jobs.append(('text', ('layout', layout_text(hdrs, oprows, rng))))
    chk.notes['layouts'] = len(lay)
    rlay = random_layouts(rng, core.budget(chk, full, 150, 1500), 6, 8)
    for oprows in rlay:
        n0 = len(oprows[0])
        jobs.append(('text', ('mixed-layout', layout_text(['**kern'] * n0 if rng.random() < 0.7 else ['**kern', '**text'][:n0], oprows, rng))))
    chk.notes['mixed_layouts'] = len(rlay)
    nwide = 0
    for n in ([4, 5] if not full else [4, 5, 6]):
        chain = [['*^'] + ['*'] * k for k in range(n - 1)]
        for row in wide_rows(n):
            jobs.append(('text', ('wide-row', layout_text(['**kern'], chain + [row], rng))))
            nwide += 1
    chk.notes['wide_rows'] = nwide
    # literal cells
    for lit in LITERALS:
        jobs.append(('text', ('literal', f'**kern\t**text\n4c\t{lit}\n4d\ty\n*-\t*-\n')))
        jobs.append(('text', ('literal', f'**text\t**kern\n{lit}\t4c\n{lit}\t{lit}\n*-\t*-\n')))
    # surplus cells and rows after the last terminator
    surplus = ['**kern\n4c\t4d\n*-\n', '**kern\t**text\n4c\tla\tx\n*-\t*-\n', '**kern\n*^\n4c\t4d\t4e\n*v\t*v\n*-\n',
               '**kern\t**kern\n4c\t4d\n*-\t*\n4e\t4f\n*-\n', '**kern\n4c\n*-\n4d\n', '**kern\t**kern\n4c\t4d\n*-\t*-\n4e\t4f\n',
               '**kern\n4c\n*-\n*\n', '**kern\n*^\n4c\t4d\n*v\t*v\n4e\t4f\n*-\n', '**kern\t**kern\n*v\t*v\n4c\t4d\n*-\n',
               '**kern\n4c\n*-\n!x\n', '**kern\n4c\n*-\n*-\n', '**kern\n4c\t\n*-\n']
    for t in surplus:
        jobs.append(('text', ('surplus', t)))
    for t in ['**kern\n\n4c\n4d\n*-\n', '\n**kern\t**text\n4c\tla\n\n\n4d\tli\n*-\t*-\n', '**kern\t**kern\n4c\t4d\n=1\t=1\n\n4e\t4f\n*-\t*-\n\n',
              '!! c\n\n**kern\n*^\n\n4c\t4d\n*v\t*v\n\n*-\n']:
        jobs.append(('text', ('literal', t)))
    ngen = core.budget(chk, full, 90, 600)
    for i in range(ngen):
        jobs.append(('gen', (chk.seed, i)))
    chk.rule = ('every spine-operator layout (split / join runs / terminate per live path) up to depth 3 and width 4 (6 in the '
                'thorough tier; quick keeps all of depth <= 2 and a seeded third of depth 3), random MIXED operator rows (several join '
                'groups, splits and terminators on one line; depth <= 6, width <= 8), EVERY operator row with a join group over 4 and 5 '
                '(6 in the thorough tier) sub-spines of one spine, literal cells (quotes, commas, '
                'spaces, non-ASCII, separators), blank lines (leading, interior, trailing), lines made only of tabs, rows with surplus cells / after the last terminator, and generated '
                'documents with literal cells injected; non-trivial = distinct text')
    results = engine.pmap(worker, jobs)
    import glob as _glob
    for _d in _glob.glob(os.path.join(tempfile.gettempdir(), 'kvc02s_*')):
        shutil.rmtree(_d, ignore_errors=True)       # the scratch paths of the worker processes
    engine.settle(chk, results, model)
    chk.disagreements_checked = len(chk.broken)


def replay(path):
    rec = json.load(open(path))
    import kernpy as kp
    w = rec.get('witness', {})
    print(json.dumps(rec, indent=1)[:2500])
    if isinstance(w, dict) and 'text' in w:
        viol, doc, dump = check_tree(kp, w['text'], 'replay')
        print('now ->', [(c, s) for c, s, _ in viol] or 'no violation')
    return 0
