"""C06 - Spine selection is column projection.

proof         : coq/props/C06.v - on the exporter model: the row of a stage under a spine selection is the row of the
                sub-list of nodes whose header is selected (projection commutes with the per-node export), for every tree
correspondence: dumps(doc, spine_ids, spine_types) and spine_types(doc, headers) of kernpy vs the extracted model
monitor       : kernpy's export against the column projection of the generator's grid (origin column of every cell,
                through splits and joins); the spine-type query against the projected header line
"""
import itertools
import json
import random

from harness import core, docs, engine, optprops, spec
from harness.docs import C1


def subsets(xs):
    for r in range(len(xs) + 1):
        for c in itertools.combinations(xs, r):
            yield list(c)


def worker(kp, job):
    seed, idx = job
    rng = random.Random(seed * 67867967 + idx)
    g = docs.gen_doc(rng, max_spines=4, free_headers=(idx % 4 == 0), early_end=(0.25 if idx % 4 == 1 else 0.0))
    text = g.text
    bad = docs.bad_cells(kp, text)
    try:
        doc, errs = kp.loads(text)
    except Exception as e:
        return {'records': [engine.rec('loads', impl='raise:' + type(e).__name__, req=('import', [C1.join(bad), text]), key=text)]}
    n = len(g.headers)
    types_present = sorted(set(g.headers))
    records = []
    optsets = [{'spine_ids': s} for s in subsets(list(range(n)))]
    optsets += [{'spine_types': s} for s in subsets(types_present)]
    optsets += [{'spine_ids': [n, n + 3]}, {'spine_types': ['**nosuch']}, {'spine_ids': list(range(n))[::-1]}]
    both = [(a, b) for a in subsets(list(range(n))) for b in subsets(types_present)]
    rng.shuffle(both)
    optsets += [{'spine_ids': a, 'spine_types': b} for a, b in both[:6]]
    for o in optsets:
        records.append(optprops.evaluate(kp, g, doc, bad, text, o, 'ids' if 'spine_ids' in o and 'spine_types' not in o else
                                         ('types' if 'spine_ids' not in o else 'ids+types'), clause='projection'))
    # the spine-type query
    for hs in [None, []] + [s for s in subsets(types_present) if s][:6] + [['**kern'], ['**nosuch']]:
        try:
            got = kp.spine_types(doc, hs)
            impl = 'ok:' + '\t'.join(got)
        except Exception as e:
            got, impl = None, 'err:' + type(e).__name__
        viol = []
        want = [h for h in g.headers if h in (spec.SUPPORTED if hs is None else hs)]
        if got != want:
            viol.append(('spine-types', f'spine_types(doc, {hs}) = {got}, the projected header line is {want}', {'text': text, 'headers': hs}))
        records.append(engine.rec('spine_types', impl=impl, req=('spine_types', [C1.join(bad), text, '-' if hs is None else ','.join(hs)]),
                                  viol=viol, kind='spine_types', key=(text, 'st', tuple(hs) if hs is not None else None)))
    if idx % 29 == 0:
        records[1]['sample'] = {'text': text, 'options': optsets[1], 'export': records[1]['impl'][3:]}
    return {'records': records}


def session_worker(kp, job):
    """ONE ExportOptions object (and one Exporter) serving several documents of different widths in a row - a batch loop:
    each export must be what fresh options give for that document, and the options object keeps its fields"""
    seed, idx = job
    rng = random.Random(seed * 49979687 + idx)
    widths = [rng.randint(1, 2), rng.randint(3, 4), rng.randint(2, 4)]
    if idx % 3 == 2:
        rng.shuffle(widths)
    gs = []
    for w in widths:
        for _ in range(6):
            g = docs.gen_doc(rng, max_spines=w, measures=rng.randint(1, 2))
            if len(g.headers) == w:
                break
        gs.append(g)
    records = []
    for o in ({'spine_types': ['**kern']}, {}, {'spine_types': ['**kern', '**text']}, {'spine_ids': [0]}):
        kw = dict(o)
        options = kp.ExportOptions(**kw)
        before = (None if options.spine_ids is None else list(options.spine_ids), None if options.spine_types is None else list(options.spine_types))
        exporter = kp.Exporter()
        viol = []
        for k, g in enumerate(gs):
            text = g.text
            try:
                doc, errs = kp.loads(text)
            except Exception:
                break
            bad = docs.bad_cells(kp, text)
            r = optprops.evaluate(kp, g, doc, bad, text, o, 'session', clause='projection')
            records.append(r)
            try:
                got = 'ok:' + exporter.export_string(doc, options)
            except Exception as e:
                got = 'err:' + type(e).__name__
            if got != r['impl'] and not viol:
                viol.append(('projection', f'one ExportOptions({optprops.fmt(o)}) reused: document {k + 1} of a batch (widths {[len(x.headers) for x in gs]}) '
                                           f'exports something else than with fresh options', {'text': text, 'options': o, 'earlier': [x.text for x in gs[:k]]}))
        after = (None if options.spine_ids is None else list(options.spine_ids), None if options.spine_types is None else list(options.spine_types))
        if after != before and not viol:
            viol.append(('projection', f'exporting changed the caller\'s ExportOptions: spine_ids / spine_types {before} -> {after}',
                         {'text': gs[0].text, 'options': o}))
        records.append(engine.rec('session', viol=viol, kind='session', key=('session', idx, str(o))))
    return {'records': records}


def run(chk):
    b = core.standard_build(chk)
    model = core.Model() if b.modelrun_ok else None
    full = chk.tier == 'thorough' or bool(b.drift) or not b.proof_ok or not b.modelrun_ok
    n = core.budget(chk, full, 60, 400)
    chk.rule = ('generated documents (1-4 spines, nested splits and joins, unknown spine types every 4th) x EVERY subset of the '
                'spine ids and EVERY subset of the spine types present, out-of-range ids, unknown types, 6 combined selections, '
                'and the spine_types query on 10 header lists; batches of three documents of different widths served by ONE ExportOptions object; non-trivial = distinct (text, options)')
    results = engine.pmap(worker, [(chk.seed, i) for i in range(n)])
    results += engine.pmap(session_worker, [(chk.seed, i) for i in range(core.budget(chk, full, 16, 100))])
    engine.settle(chk, results, model)
    chk.disagreements_checked = len(chk.broken)


def replay(path):
    rec = json.load(open(path))
    import kernpy as kp
    print(json.dumps(rec, indent=1)[:2500])
    w = rec.get('witness', {})
    if isinstance(w, dict) and 'text' in w and 'options' in w:
        doc, errs = kp.loads(w['text'])
        print(docs.impl_dumps(kp, doc, **w['options']))
    return 0
