"""What MANIFEST.json claims, per property (tools/gen_manifest.py turns this into MANIFEST.json)."""

_COMMON_NOTE = ('Trusted: Coq 8.16.1 kernel (vm_compute for finite sweeps, no native_compute), no axioms declared; '
                'tools/translate.py; extraction (ExtrOcamlBasic only) + ocaml/driver.ml; the python harness. '
                'All python code is modelled, not verified: the hand model is tied to /repo by the correspondence run. ')

CHECKS = {
    'C01': {
        'text': 'Theorems in coq/props/C01.v: canonicity of the normal form on the listener/export model - for ALL lists of '
                'signifier characters, two layouts with the same SET of signifiers give the same sorted signifier list and the '
                'same exported note under every category filter (sorted duplicate-free lists over a total antisymmetric order '
                'are unique; the stable sort is a permutation). The fixed-point clauses (default export and extended round trip '
                're-import without errors and re-export identically) are decided at document level by the correspondence of the '
                'importer/exporter/scanner model with kernpy and by running the property on kernpy; no scan-of-print theorem is '
                'claimed yet.',
        'note': _COMMON_NOTE + 'The ANTLR grammar is modelled only on the CKL sub-language (DESIGN.md section 3); its signifier tables are validated by an exhaustive character / pair sweep on every run.',
        'technique': 'Coq proof of canonicity (sorted-NoDup uniqueness, sort permutation) + model/impl correspondence of scanner, importer and exporter + property monitors',
    },
    'C02': {
        'text': 'Theorems in coq/props/C02.v, by induction over the rows of the importer model with an invariant on the '
                'stage table: for EVERY text that imports, the tree has one stage per non-empty line and one node per '
                'tab-separated cell (one node for a global-comment line); a cell beyond the live spine paths makes the step '
                'raise. Parent / header / spine-id / literal-text clauses are decided by comparing the whole tree of kernpy with '
                'the model and with an independent reference spine-path model on every spine-operator layout up to depth 3 '
                '(exhaustive), literal cells and surplus rows.',
        'note': _COMMON_NOTE + 'csv.reader / str.splitlines are modelled from their documented behaviour (QUOTE_NONE, tab delimiter).',
        'technique': 'Coq proof by induction over rows (stage-table invariant) + exhaustive-layout model/impl correspondence of the whole tree + reference spine-path monitor',
    },
    'C03': {
        'text': 'Theorems in coq/props/C03.v (token level, all tokens / filters / encodings): non-note tokens are exported as '
                'their text, the default category set deletes no sub-part, exported sub-parts are a permutation of the note\'s '
                'sub-parts, separator-free text is identical in all encodings. The grid clauses (same lines minus global '
                'comments and null lines, every cell against the generator\'s own description) are decided by correspondence of '
                'the importer/exporter model and by the oracle monitor on kernpy. Known findings K2 (hidden barlines) and K3 '
                '(separator characters inside non-note cells).',
        'note': _COMMON_NOTE,
        'technique': 'Coq proof (token-level conservation lemmas) + model/impl correspondence + oracle monitor from the generator AST',
    },
    'C17': {
        'text': 'Theorems in coq/props/C17.v for EVERY document of the model: a category-filtered listing is exactly the filter '
                'of the full listing by the closure of the filter; the unique listing has no repeated encoding and the same '
                'encodings (first occurrences); frequency counts sum to the listing and have its keys; the keyed comment query '
                'returns only lines with that prefix. Traversal order (pre-header comments, spines depth-first, later comments) '
                'and is_monophonic are decided by correspondence and by an independent reading of the source text.',
        'note': _COMMON_NOTE,
        'technique': 'Coq proof (list lemmas over the query model) + model/impl correspondence + reference-order monitor',
    },
    'C09': {
        'text': 'Theorems in coq/props/C09.v hold for every octave in Z (finite residue sweep by vm_compute lifted with '
                'Z.div/mod lemmas; inverse, unison, octave, P4+P5 and failure-only-on-residue-22 proved algebraically for '
                'ALL integer deltas). The Chromas / Intervals tables are regenerated from the source on every run, so the '
                'theorems are re-checked against the current code; kernpy.transpose is compared with the extracted model '
                'and with the Gallina letter/semitone spec on the whole 25,200-case grid plus far octaves.',
        'note': _COMMON_NOTE + 'The string path (Humdrum spelling) goes through the C16 codec model.',
        'technique': 'Coq proof (vm_compute sweep + arithmetic lifting) over translator-regenerated tables; exhaustive model/impl correspondence',
    },
    'C11': {
        'text': 'Theorems in coq/props/C11.v: the hierarchy literal regenerated from tokens.py equals the tree parsed from '
                'README.md, is a forest containing each of the 37 categories once; is_child/children/nodes/leaves agree with '
                'the inductive descendant relation of that tree (37x37 facts by vm_compute, lifted to all categories); valid '
                'and match are characterised for include/exclude lists of ANY length (induction-free list lemmas over the '
                'closure). Correspondence: every query vs the extracted model on all categories, all pairs, all 704x704 '
                'small include/exclude pairs (thorough; a fifth of the include sets in quick) and random larger sets in '
                'every argument shape.',
        'note': _COMMON_NOTE + 'Python sets are modelled as lists and compared as sets (membership bit-vectors over the enum order).',
        'technique': 'Coq proof (finite vm_compute facts lifted by forallb_forall + list lemmas) over translator-regenerated hierarchy and README tree; exhaustive model/impl correspondence',
    },
    'C10': {
        'text': 'Theorems in coq/props/C10.v (pitch level): for every clef class of the regenerated table, every letter, '
                'alteration -3..3 and EVERY octave in Z the agnostic spelling equals the Humdrum spelling of the pitch on the '
                'same staff position under G2 (closed formula), hence identity under G2, k diatonic steps -> k steps, bottom '
                'line -> e, accidental copied; create_clef ignores any run of octave marks. Correspondence: the whole clef x '
                'marks x letter x alteration x octave grid, malformed clefs and position strings, against the extracted model '
                'and the Coq oracle. Document level (akern vs kern export, clef in force) is decided by correspondence and '
                'monitors on generated documents, not by a theorem.',
        'note': _COMMON_NOTE + 'int(str(n)) == n for the staff-position number is python builtin behaviour, checked in-kernel on the window -300..300 only (the theorems use the structured path).',
        'technique': 'Coq proof (Z.div/mod arithmetic by lia + finite table facts by vm_compute) over translator-regenerated clef tables; exhaustive model/impl correspondence',
    },
    'C18': {
        'text': 'Theorems in coq/props/C18.v hold for EVERY header outside {**kern, **root, **mens} (including unknown ones), '
                'every non-empty cell text and ANY recogniser function: import never fails; a kern token whose category lies '
                'under STRUCTURAL/SIGNATURES/EMPTY/BARLINES/IMAGE_ANNOTATIONS/COMMENTS is returned as it is (so barlines are '
                'detected identically under every header); everything else becomes SimpleToken(text, own category). The '
                'accepted sets, fallback categories, polarity of the any(...) test and the createImporter dispatch are '
                'regenerated from the six importer files on every run. Correspondence: 12+ headers x every grammar alternative, '
                'free text and random strings.',
        'note': _COMMON_NOTE + 'The ANTLR recogniser is a universally quantified function in the theorems (Section variable), so nothing is assumed about it beyond determinism.',
        'technique': 'Coq proof parametric in the recogniser over translator-regenerated importer shapes; model/impl correspondence on a grammar-covering corpus',
    },
    'C16': {
        'text': 'Theorems in coq/props/C16.v: import (spell l a o) yields (l,a,o), export returns the spelling and leaves '
                'the pitch unchanged, for 7 letters x alterations -3..3 x EVERY octave (nat repetition count, induction via '
                'repeat lemmas). Correspondence: full grid, each pitch exported twice and read back, plus malformed ASCII spellings.',
        'note': _COMMON_NOTE + 'Strings are UTF-8 bytes in the model; pitch spellings are ASCII.',
        'technique': 'Coq proof over string model; exhaustive model/impl correspondence with double export',
    },
}

NOT_YET = {}
