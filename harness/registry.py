"""What MANIFEST.json claims, per property (tools/gen_manifest.py turns this into MANIFEST.json)."""

_COMMON_NOTE = ('Trusted: Coq 8.16.1 kernel (vm_compute for finite sweeps, no native_compute), no axioms declared; '
                'tools/translate.py; extraction (ExtrOcamlBasic only) + ocaml/driver.ml; the python harness. '
                'All python code is modelled, not verified: the hand model is tied to /repo by the correspondence run. ')

CHECKS = {
    'C09': {
        'text': 'Theorems in coq/props/C09.v hold for every octave in Z (finite residue sweep by vm_compute lifted with '
                'Z.div/mod lemmas; inverse, unison, octave, P4+P5 and failure-only-on-residue-22 proved algebraically for '
                'ALL integer deltas). The Chromas / Intervals tables are regenerated from the source on every run, so the '
                'theorems are re-checked against the current code; kernpy.transpose is compared with the extracted model '
                'and with the Gallina letter/semitone spec on the whole 25,200-case grid plus far octaves.',
        'note': _COMMON_NOTE + 'The string path (Humdrum spelling) goes through the C16 codec model.',
        'technique': 'Coq proof (vm_compute sweep + arithmetic lifting) over translator-regenerated tables; exhaustive model/impl correspondence',
    },
    'C16': {
        'text': 'Theorems in coq/props/C16.v: import (spell l a o) yields (l,a,o), export returns the spelling and leaves '
                'the pitch unchanged, for 7 letters x alterations -3..3 x EVERY octave (nat repetition count, induction via '
                'repeat lemmas). Correspondence: full grid, each pitch exported twice and read back, plus malformed ASCII spellings.',
        'note': _COMMON_NOTE + 'Strings are UTF-8 bytes in the model; pitch spellings are ASCII.',
        'technique': 'Coq proof over string model; exhaustive model/impl correspondence with double export',
    },
}

NOT_YET = {}
