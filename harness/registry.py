"""What MANIFEST.json claims, per property (tools/gen_manifest.py turns this into MANIFEST.json)."""

_COMMON_NOTE = ('Trusted: Coq 8.16.1 kernel (vm_compute for finite sweeps, no native_compute), no axioms declared; '
                'tools/translate.py; extraction (ExtrOcamlBasic only) + ocaml/driver.ml; the python harness. '
                'All python code is modelled, not verified: the hand model is tied to /repo by the correspondence run. ')

CHECKS = {
    'C09': {
        'text': 'Theorems in coq/props/C09.v hold for every octave in Z (finite residue sweep by vm_compute lifted with '
                'Z.div/mod lemmas; inverse, unison, octave, P4+P5 and failure-only-on-residue-22 proved algebraically for '
                'ALL integer deltas). The Chromas / Intervals tables are regenerated from the source on every run, so the '
                'theorems are re-checked against the current code; kernpy.transpose is compared with the extracted model '
                'and with the Gallina letter/semitone spec on the whole 25,200-case grid plus far octaves.',
        'note': _COMMON_NOTE + 'The string path (Humdrum spelling) goes through the C16 codec model.',
        'technique': 'Coq proof (vm_compute sweep + arithmetic lifting) over translator-regenerated tables; exhaustive model/impl correspondence',
    },
    'C11': {
        'text': 'Theorems in coq/props/C11.v: the hierarchy literal regenerated from tokens.py equals the tree parsed from '
                'README.md, is a forest containing each of the 37 categories once; is_child/children/nodes/leaves agree with '
                'the inductive descendant relation of that tree (37x37 facts by vm_compute, lifted to all categories); valid '
                'and match are characterised for include/exclude lists of ANY length (induction-free list lemmas over the '
                'closure). Correspondence: every query vs the extracted model on all categories, all pairs, all 704x704 '
                'small include/exclude pairs (thorough; a fifth of the include sets in quick) and random larger sets in '
                'every argument shape.',
        'note': _COMMON_NOTE + 'Python sets are modelled as lists and compared as sets (membership bit-vectors over the enum order).',
        'technique': 'Coq proof (finite vm_compute facts lifted by forallb_forall + list lemmas) over translator-regenerated hierarchy and README tree; exhaustive model/impl correspondence',
    },
    'C10': {
        'text': 'Theorems in coq/props/C10.v (pitch level): for every clef class of the regenerated table, every letter, '
                'alteration -3..3 and EVERY octave in Z the agnostic spelling equals the Humdrum spelling of the pitch on the '
                'same staff position under G2 (closed formula), hence identity under G2, k diatonic steps -> k steps, bottom '
                'line -> e, accidental copied; create_clef ignores any run of octave marks. Correspondence: the whole clef x '
                'marks x letter x alteration x octave grid, malformed clefs and position strings, against the extracted model '
                'and the Coq oracle. Document level (akern vs kern export, clef in force) is decided by correspondence and '
                'monitors on generated documents, not by a theorem.',
        'note': _COMMON_NOTE + 'int(str(n)) == n for the staff-position number is python builtin behaviour, checked in-kernel on the window -300..300 only (the theorems use the structured path).',
        'technique': 'Coq proof (Z.div/mod arithmetic by lia + finite table facts by vm_compute) over translator-regenerated clef tables; exhaustive model/impl correspondence',
    },
    'C18': {
        'text': 'Theorems in coq/props/C18.v hold for EVERY header outside {**kern, **root, **mens} (including unknown ones), '
                'every non-empty cell text and ANY recogniser function: import never fails; a kern token whose category lies '
                'under STRUCTURAL/SIGNATURES/EMPTY/BARLINES/IMAGE_ANNOTATIONS/COMMENTS is returned as it is (so barlines are '
                'detected identically under every header); everything else becomes SimpleToken(text, own category). The '
                'accepted sets, fallback categories, polarity of the any(...) test and the createImporter dispatch are '
                'regenerated from the six importer files on every run. Correspondence: 12+ headers x every grammar alternative, '
                'free text and random strings.',
        'note': _COMMON_NOTE + 'The ANTLR recogniser is a universally quantified function in the theorems (Section variable), so nothing is assumed about it beyond determinism.',
        'technique': 'Coq proof parametric in the recogniser over translator-regenerated importer shapes; model/impl correspondence on a grammar-covering corpus',
    },
    'C16': {
        'text': 'Theorems in coq/props/C16.v: import (spell l a o) yields (l,a,o), export returns the spelling and leaves '
                'the pitch unchanged, for 7 letters x alterations -3..3 x EVERY octave (nat repetition count, induction via '
                'repeat lemmas). Correspondence: full grid, each pitch exported twice and read back, plus malformed ASCII spellings.',
        'note': _COMMON_NOTE + 'Strings are UTF-8 bytes in the model; pitch spellings are ASCII.',
        'technique': 'Coq proof over string model; exhaustive model/impl correspondence with double export',
    },
}

NOT_YET = {}
