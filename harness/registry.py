"""What MANIFEST.json claims, per property (tools/gen_manifest.py turns this into MANIFEST.json)."""

_COMMON_NOTE = ('Trusted: Coq 8.16.1 kernel (vm_compute for finite sweeps, no native_compute), no axioms declared; '
                'tools/translate.py; extraction (ExtrOcamlBasic only) + ocaml/driver.ml; the python harness. '
                'All python code is modelled, not verified: the hand model is tied to /repo by the correspondence run, by the '
                'tables the translator regenerates, and by the state-inventory obligation Cxx_state_as_modelled (no attribute, '
                'class-level table, module binding or decorator beyond those the model knows - gen/StateGen.v vs model/StateBase.v). ')

CHECKS = {
    'C01': {
        'text': 'Theorems in coq/props/C01.v: canonicity of the normal form on the listener/export model - for ALL lists of '
                'signifier characters, two layouts with the same SET of signifiers give the same sorted signifier list and the '
                'same exported note under every category filter (sorted duplicate-free lists over a total antisymmetric order '
                'are unique; the stable sort is a permutation). The fixed-point clauses (default export and extended round trip '
                're-import without errors and re-export identically) are PROVED for single notes: for every well-formed note (any '
                'digits, %n, dots, grace mark, pitch letter and octave, accidental with or without display suffix, duplicate-free '
                'stand-alone signifiers) the scanner + listener on the canonical text consume it entirely and return exactly the '
                'note (C01_reimport_of_canonical_note), the kern export of that token is that text (string lemmas on replace / '
                'join, sort identity on sorted lists) and export-import-export = export (C01_note_fixed_point); the same for every '
                'well-formed REST (C01_reimport_of_canonical_rest, C01_rest_fixed_point); for CHORDS of any number of notes the canonical '
                'text is read back as exactly its notes, in order (C01_reimport_of_canonical_chord) and exported as the same text again (C01_chord_fixed_point); at DOCUMENT level for single-spine **kern documents of any number of lines whose cells are in normal form (the export of their own token - canonical notes are): export o import is the identity on the text (C01_single_spine_document_fixed_point, induction over the lines of the importer model composed with the exporter model and the line reader), and for ANY spine structure - several spines, splits, joins, comments - a document whose cells are in normal form under the headers that govern them exports its own grid minus the !! lines and the all-null lines (C01_normal_documents_are_fixed_points). For '
                'other tokens and whole documents the fixed point is decided by the correspondence of the scanner / importer / '
                'exporter model with kernpy and by running the property on kernpy (signifiers of several characters - &( Ww TT xx yy '
                '[y ?? - lie outside the scanner model and are round-tripped on kernpy alone). Known findings K11 (a rest inside a chord) '
                'K12 (combining signifiers merge in the extended round trip) and K13 (the same in the default encoding).',
        'note': _COMMON_NOTE + 'The ANTLR grammar is modelled only on the CKL sub-language (DESIGN.md section 3); its signifier tables are validated by an exhaustive character / pair sweep on every run.',
        'technique': 'Coq proof of canonicity (sorted-NoDup uniqueness, sort permutation) + model/impl correspondence of scanner, importer and exporter + property monitors',
    },
    'C02': {
        'text': 'Theorems in coq/props/C02.v include, for EVERY text that imports through either reader (any spines, splits, joins, comments, malformed cells): stage k+1 is the k-th non-blank line, its nodes are that line\'s cells in order, and every node holds exactly the token of its source cell under the header of its own spine (C02_tree_holds_the_source_grid). Also: Theorems in coq/props/C02.v, by induction over the rows of the importer model with an invariant on the '
                'stage table: for EVERY text that imports, the tree has one stage per non-empty line and one node per '
                'tab-separated cell (one node for a global-comment line); every imported document is a tree (ids = creation '
                'order, a parent precedes its children, each node is listed in the children of exactly its parent); every node '
                'that has a header points to a HeaderToken node and either is it or inherits it from its parent, so a whole spine '
                'path through splits and joins carries the header of its column; a cell beyond the live spine paths makes the '
                'step raise; cell text is literal - for EVERY grid of cells free of tab / LF / CR (quotes, commas, spaces, any other byte) '
                'both line readers return that grid cell for cell (file_grid_literal / text_grid_literal), and the reader '
                'configuration the model stands for (tab delimiter, QUOTE_NONE, splitlines / newline=\'\') is an obligation on '
                'the arguments the translator reads out of import_string / import_file on every run. Conversely every cell '
                'either reader produces is free of tab / LF / CR for every byte string, so read.write.read = read '
                '(C02_cells_are_free_of_separators, C02_read_write_read). WHICH parent a cell gets '
                '(the cell above on the same spine path) is decided by comparing the whole tree of kernpy with '
                'the model and with an independent reference spine-path model on every spine-operator layout up to depth 3 '
                '(exhaustive), literal cells and surplus rows, through kp.loads AND through kp.load of a real file.',
        'note': _COMMON_NOTE + 'csv.reader / str.splitlines are modelled from their documented behaviour (QUOTE_NONE, tab delimiter); the arguments actually passed are checked against that on every run (gen/ReaderGen.v).',
        'technique': 'Coq proof by induction over rows (stage-table invariant) + exhaustive-layout model/impl correspondence of the whole tree + reference spine-path monitor',
    },
    'C03': {
        'text': 'Theorems in coq/props/C03.v (token level, all tokens / filters / encodings): a note written in canonical order is '
                'imported with exactly its duration marks, pitch letters, accidental and signifiers and exported as the same text '
                '(scan-of-print and export-of-canonical theorems shared with C01); non-note tokens are exported as '
                'their text, the default category set deletes no sub-part, exported sub-parts are a permutation of the note\'s '
                'sub-parts, separator-free text is identical in all encodings; with every spine selected the export body is the grid of '
                'the stages (one cell per node, in order) minus exactly the empty and the all-null rows (C03_export_is_the_stage_grid), and the exported text is read back as that grid cell for cell (C03_export_text_is_the_exported_grid); for single-spine **kern documents end to end the default export is the header, the export of each line\'s token in order, and the terminator (C03_single_spine_export_is_cell_by_cell). The remaining grid clauses (same lines minus global '
                'comments and null lines, every cell against the generator\'s own description) are decided by correspondence of '
                'the importer/exporter model and by the oracle monitor on kernpy. Known findings K2 (hidden barlines) and K3 '
                '(separator characters inside non-note cells).',
        'note': _COMMON_NOTE,
        'technique': 'Coq proof (token-level conservation lemmas) + model/impl correspondence + oracle monitor from the generator AST',
    },
    'C17': {
        'text': 'Theorems in coq/props/C17.v for EVERY document of the model: a category-filtered listing is exactly the filter '
                'of the full listing by the closure of the filter; the unique listing has no repeated encoding and the same '
                'encodings (first occurrences); frequency counts sum to the listing and have its keys; the keyed comment query '
                'returns only lines with that prefix. Traversal order (pre-header comments, spines depth-first, later comments) '
                'and is_monophonic are decided by correspondence and by an independent reading of the source text; that the listing '
                'is the pre-order of the tree and visits every node exactly once is a theorem for every imported document '
                '(C17_listing_is_preorder_each_node_once: explicit-stack DFS = structural pre-order = duplicate-free permutation of all ids).',
        'note': _COMMON_NOTE,
        'technique': 'Coq proof (list lemmas over the query model) + model/impl correspondence + reference-order monitor',
    },
    'C04': {
        'text': 'Theorems in coq/props/C04.v for every token, category selection and clef: each plain tokenizer IS its extended '
                'counterpart followed by separator removal (kern/ekern, bkern/bekern, akern/aekern), the basic encoding is the '
                'per-note reduction of the extended text and - for every chord of any number of notes, every single note / rest and '
                'every category selection - that reduction yields the same notes in the same order joined by single spaces, '
                'each reduced to exactly its duration-and-pitch part (chord_bekern_note_by_note: no note lost, merged or moved; '
                'string-level split/join lemmas), the factory dispatches each encoding to its tokenizer and the header '
                'is ** + prefix + type (tables regenerated from tokenizers.py), non-note tokens with separator-free text are '
                'identical in the six encodings (HeaderTokenGenerator.new must consist of exactly the three modelled statements). Document level: kernpy vs model and vs the generator oracle on documents x six '
                'encodings x category selections, plus the relations between kernpy\'s six exports, and batch sessions (many '
                'documents loaded, exported and dropped in one process) for the header clause.',
        'note': _COMMON_NOTE + 'The note-by-note theorem assumes sub-token texts free of space / separator bytes and non-empty duration / pitch texts (note_subs_ok), which holds for everything the scanner model builds; outside it the reduction is decided by the oracle monitor.',
        'technique': 'Coq proof (definitional equalities + regenerated dispatch tables) + model/impl correspondence + oracle monitor over six encodings',
    },
    'C05': {
        'text': 'Theorems in coq/props/C05.v for every note and every include/exclude list: exporting with a filter equals '
                'exporting the note with the unselected sub-parts deleted; filtering commutes with both sorts of the export '
                '(proved for insertion sort over total transitive orders, instantiated for the category and (category, text) '
                'keys incl. the byte-wise string order), so selected parts are never altered or reordered; include=all / '
                'exclude=nothing is the identity; the selected set is C11\'s closure formula. Document level: every single '
                'category as include and exclude, every (include, exclude) pair of singles, random larger sets - kernpy vs '
                'model and vs the oracle with deleted sub-parts.',
        'note': _COMMON_NOTE,
        'technique': 'Coq proof (filter/sort commutation, closure algebra) + model/impl correspondence + oracle monitor',
    },
    'C06': {
        'text': 'Theorems in coq/props/C06.v for every tree and option set of the exporter model: a node\'s cell is a spine gate '
                'followed by a cell that depends on categories and encoding only; the row of a stage under a selection is the '
                'row of the selected sub-list of nodes (order kept); unselected nodes never influence the row. Document level: '
                'EVERY subset of spine ids and of spine types per document and the spine_types query, kernpy vs model and vs '
                'the column projection of the generator\'s grid (origin column through splits and joins). Whole spine paths: in every '
                'imported document a HeaderToken node is its own header and every other node has the header type of its parent, so '
                'both are selected or deleted together under every option set (C06_spine_path_shares_header, by induction over the rows).',
        'note': _COMMON_NOTE,
        'technique': 'Coq proof (filter-map fusion on the exporter model) + exhaustive-subset model/impl correspondence + oracle monitor',
    },
    'C07': {
        'text': 'Theorems in coq/props/C07.v on the exporter model: consecutive stage ranges compose (rows of [a,a+n+m) = rows of '
                '[a,a+n) ++ rows of [a+n,a+n+m), each once, unmodified), a negative start / end beyond M / end before start '
                'yields ValueError, and the measure index of every imported document is strictly increasing and addresses existing stages. Which stages a measure spans, the partition of the full export by the single-measure '
                'exports and iteration are decided on EVERY pair a <= b of generated documents: kernpy vs model and vs the '
                'generator\'s own measure segmentation. Partition at model level: the stage ranges between any increasing cut points '
                'concatenate to the rows of the whole range (C07_segments_partition). Known finding K10 (ragged signature rows raise).',
        'note': _COMMON_NOTE,
        'technique': 'Coq proof (range composition, validator) + all-pairs model/impl correspondence + oracle monitor',
    },
    'C08': {
        'text': 'PARTIAL. Theorems in coq/props/C08.v on the exporter model: every excerpt ends with spine terminators (existing '
                'row or a synthetic row sized by the spine operators before it), its body is C07\'s stage range, bad ranges are '
                'rejected; **signatures in force**: in every imported document a node\'s signature dictionary reads, per class, '
                'exactly the nearest signature cell of that class above it on its spine path (C08_signatures_in_force_partial, '
                'an import invariant), and the signature block of an excerpt is made column by column of these dictionaries '
                'minus the entries replaced before the first note (C08_excerpt_signature_block_partial); the text of an excerpt '
                'is read back as exactly its rows (C08_excerpt_read_back_partial). The composition import-export-import (header first, rectangular, re-imports without errors, same '
                'clef/key/meter in force for every note) is NOT proved; for the claimed core class it is decided by running '
                'kernpy on every range of generated documents with an independent path walk over excerpt and full score, and '
                'by model/impl correspondence. The other classes are explored and reported as finding K5.',
        'note': _COMMON_NOTE + 'Partial: no theorem covers the re-import of the excerpt.',
        'technique': 'Coq proof (partial: terminator row, range arithmetic) + all-ranges model/impl correspondence + independent well-formedness / signature monitor',
    },
    'C13': {
        'text': 'Theorems in coq/props/C13.v: spine selection is a gate independent of the cell; cells depend on (categories, '
                'encoding) only; each encoding is a cell-wise map applied to the category-filtered extended text; explicit '
                'default categories select the same set as omission; for single-spine **kern documents of any length the whole export under any '
                'option set without a range is, line by line, a function of the token and of (categories, encoding) only '
                '(C13_single_spine_document_under_options). Document level otherwise: combinations of two or three non-default '
                'options (subsets of ids/types, include/exclude, six encodings) against the composed transformations of the '
                'generator\'s description, and six explicit-default variants, kernpy vs model vs oracle.',
        'note': _COMMON_NOTE,
        'technique': 'Coq proof (per-node factorisation, encoding-after-filter) + model/impl correspondence on option products + oracle monitor',
    },
    'C15': {
        'text': 'Theorems in coq/props/C15.v on the model of to_transposed, for every document: stages, measure index, header '
                'stage, node count, parents/headers/signatures of every node are kept; tokens that are not single notes/rests are '
                'untouched; a note keeps durations, accidental sub-tokens and signifiers and each PITCH sub-token becomes '
                'transpose(pitch) (C09); the clause "source unchanged" is refuted with a witness (clone shares nodes). '
                'Correspondence on documents x intervals x directions (result and source exports). Core class (single notes '
                'without explicit accidental) checked against C09 on kernpy; findings K4a (explicit accidentals), K4b (chord '
                'notes), K4c (source modified).',
        'note': _COMMON_NOTE + 'Sharing between the clone and the source is made explicit in the model: to_transposed returns (result, source afterwards).',
        'technique': 'Coq proof (fold invariants over the node store, refutation witness by vm_compute) + model/impl correspondence + C09-based monitor',
    },
    'C19': {
        'text': 'Theorems in coq/props/C19.v for every list of fragments: concat returns one pair per fragment, consecutive from 0, '
                'the last to = measure count of the result; the result is the import of the joined text; importing r1 ++ r2 is '
                'importing r2 from the state after r1 and the measure index of a prefix is a prefix of the index of the whole '
                '(induction over rows). Correspondence and monitors on scores cut at sets of barline positions into 1..6 '
                'fragments with both separators, incl. exporting every pair; every fifth score leaves its splits open across the cuts. '
                'Known finding K14 (the pair of a fragment starting inside an open split cannot be exported).',
        'note': _COMMON_NOTE,
        'technique': 'Coq proof (induction over fragments and rows) + model/impl correspondence + fragment-export monitor',
    },
    'C12': {
        'text': 'Theorems in coq/props/C12.v for ANY recogniser: the kern importer modelled as a state machine over its error '
                'listener is history independent when the listener is replaced per call - every history, every start state, '
                'every order - and the flag "replaced per call" is regenerated from kern_spine_importer.py; a sticky listener is '
                'refuted with a witness; well-formed cells are returned, malformed ones raise; the grid of the imported tree '
                'does not depend on which cells are malformed. Correspondence: histories on one importer instance vs the state '
                'machine; damaged documents (tree + error list) vs the importer model. Monitors: one error per malformed kern '
                'cell with its line number, other tokens untouched, verbatim re-export. Known finding K7 (valid prefix + garbage '
                'accepted and shortened). Document level, for every text that imports: the error list is exactly the list of the ErrorToken nodes '
                '(each malformed cell once, nothing else), each carries its line number, the recogniser model never builds an '
                'ErrorToken itself, ErrorTokens are exported verbatim (C12_errors_reported_once_with_line). The file line reader cuts the same cells: its '
                'arguments are regenerated and compared (C12_readers_as_modelled), load = loads on texts without the splitlines-only '
                'separators (C12_file_import_is_string_import); every other damaged document is also loaded from a file.',
        'note': _COMMON_NOTE + 'The recogniser is universally quantified in the theorems; cells outside CKL are outside the document-level model (their share is printed in the evidence).',
        'technique': 'Coq proof (state machine, parametric recogniser, regenerated listener flag) + history and damaged-document correspondence + monitors',
    },
    'C20': {
        'text': 'PARTIAL. Theorems in coq/props/C20.v (pure part): the file reader and the text reader of the importer model split '
                'EVERY byte string free of the extra str.splitlines separators into the same rows, hence load = loads on the '
                'model (induction over the bytes); the csv / open arguments of both readers are an obligation regenerated from the '
                'source; the text dumps returns is read back by the file reader as exactly the rendered rows, so load(dump(d)) '
                'imports from the exported grid (C20_dump_then_load_reads_exported_rows). open(), encodings, makedirs, argparse, Path.glob and process exit codes cannot '
                'be expressed in an executable Gallina model: they are decided by real temporary files and python -m kernpy '
                'subprocesses (load vs loads on LF/CRLF/CR files, dump vs dumps into missing directories, kern2ekern / '
                'ekern2kern single file and directory mode with and without -r, ekern-kern-ekern round trip). Known finding K9.',
        'note': _COMMON_NOTE + 'Partial: runtime / OS behaviour is tested, not proved.',
        'technique': 'Coq proof (line-reader equivalence) + file-mode model/impl correspondence + file and subprocess monitors',
    },
    'C14': {
        'text': 'PARTIAL. Theorems in coq/props/C14.v: (1) the obligation regenerated from the current source on every run - '
                'every store site (attribute / subscript assignment, augmented assignment, del, mutating method call, setattr) '
                'in the code the read-only API can execute writes to an object created inside the call - checked in Coq over the '
                'generated table (about 60 sites in more than 100 functions); a new write to a node, token, option object or '
                'module constant turns an entry false and breaks the theorem; (2) frame theorems on the functional model (state '
                'after any history = state before; outputs = outputs on a fresh import; two imports indistinguishable). '
                'Correspondence and monitors: random histories of 3..12 read-only operations (incl. up to 4 interleaved live measure iterators) on kernpy with deep snapshots of the '
                'document graph and module constants before/after, every result against a freshly imported copy and against the '
                'model.',
        'note': _COMMON_NOTE + 'Partial: the freshness classification is a syntactic may-alias analysis in tools/translate_effects.py (trusted); object identity / aliasing in CPython cannot be exhibited by the Gallina model.',
        'technique': 'Coq-checked generated effect obligation (translator) + frame theorems on the functional model + history correspondence with deep snapshots',
    },
    'C09': {
        'text': 'Theorems in coq/props/C09.v hold for every octave in Z (finite residue sweep by vm_compute lifted with '
                'Z.div/mod lemmas; inverse, unison, octave, P4+P5 and failure-only-on-residue-22 proved algebraically for '
                'ALL integer deltas). The Chromas / Intervals tables are regenerated from the source on every run, so the '
                'theorems are re-checked against the current code; kernpy.transpose is compared with the extracted model '
                'and with the Gallina letter/semitone spec on the whole 25,200-case grid plus far octaves.',
        'note': _COMMON_NOTE + 'The string path (Humdrum spelling) goes through the C16 codec model.',
        'technique': 'Coq proof (vm_compute sweep + arithmetic lifting) over translator-regenerated tables; exhaustive model/impl correspondence',
    },
    'C11': {
        'text': 'Theorems in coq/props/C11.v: the hierarchy literal regenerated from tokens.py equals the tree parsed from '
                'README.md, is a forest containing each of the 37 categories once; is_child/children/nodes/leaves agree with '
                'the inductive descendant relation of that tree (37x37 facts by vm_compute, lifted to all categories); valid '
                'and match are characterised for include/exclude lists of ANY length (induction-free list lemmas over the '
                'closure). Correspondence: every query vs the extracted model on all categories, all pairs, all 704x704 '
                'small include/exclude pairs (thorough; a fifth of the include sets in quick), random larger sets in '
                'every argument shape, and histories in which the caller edits one include / exclude collection in place '
                'between calls. C11_algebra_is_stateless: the store-site obligation regenerated from the source (no memo on the '
                'classes, no write to an argument).',
        'note': _COMMON_NOTE + 'Python sets are modelled as lists and compared as sets (membership bit-vectors over the enum order).',
        'technique': 'Coq proof (finite vm_compute facts lifted by forallb_forall + list lemmas) over translator-regenerated hierarchy and README tree; exhaustive model/impl correspondence',
    },
    'C10': {
        'text': 'Theorems in coq/props/C10.v (pitch level): for every clef class of the regenerated table, every letter, '
                'alteration -3..3 and EVERY octave in Z the agnostic spelling equals the Humdrum spelling of the pitch on the '
                'same staff position under G2 (closed formula), hence identity under G2, k diatonic steps -> k steps, bottom '
                'line -> e, accidental copied; create_clef ignores any run of octave marks. Correspondence: the whole clef x '
                'marks x letter x alteration x octave grid, malformed clefs and position strings, against the extracted model '
                'and the Coq oracle. Document level: the clef handed to the conversion of a node is, in every imported document, '
                'the nearest clef cell above it on its spine path through splits and joins (C10_clef_in_force_is_nearest_above, '
                'an import invariant); the composition with the export (akern vs kern export) is decided by correspondence and '
                'monitors on generated documents (clef in force through splits and clef changes); known finding K6 (naturals / display suffixes).',
        'note': _COMMON_NOTE + 'int(str(n)) == n for the staff-position number is python builtin behaviour, checked in-kernel on the window -300..300 only (the theorems use the structured path).',
        'technique': 'Coq proof (Z.div/mod arithmetic by lia + finite table facts by vm_compute) over translator-regenerated clef tables; exhaustive model/impl correspondence',
    },
    'C18': {
        'text': 'Theorems in coq/props/C18.v hold for EVERY header outside {**kern, **root, **mens} (including unknown ones), '
                'every non-empty cell text and ANY recogniser function: import never fails; a kern token whose category lies '
                'under STRUCTURAL/SIGNATURES/EMPTY/BARLINES/IMAGE_ANNOTATIONS/COMMENTS is returned as it is (so barlines are '
                'detected identically under every header); everything else becomes SimpleToken(text, own category). The '
                'accepted sets, fallback categories, polarity of the any(...) test and the createImporter dispatch are '
                'regenerated from the six importer files on every run. Correspondence: 12+ headers x every grammar alternative, '
                'free text and random strings.',
        'note': _COMMON_NOTE + 'The ANTLR recogniser is a universally quantified function in the theorems (Section variable), so nothing is assumed about it beyond determinism.',
        'technique': 'Coq proof parametric in the recogniser over translator-regenerated importer shapes; model/impl correspondence on a grammar-covering corpus',
    },
    'C16': {
        'text': 'Theorems in coq/props/C16.v: import (spell l a o) yields (l,a,o), export returns the spelling and leaves '
                'the pitch unchanged, for 7 letters x alterations -3..3 x EVERY octave (nat repetition count, induction via '
                'repeat lemmas). Correspondence: full grid, each pitch exported twice and read back, plus malformed ASCII spellings.',
        'note': _COMMON_NOTE + 'Strings are UTF-8 bytes in the model; pitch spellings are ASCII.',
        'technique': 'Coq proof over string model; exhaustive model/impl correspondence with double export',
    },
}

NOT_YET = {}
