"""What MANIFEST.json claims, per property (tools/gen_manifest.py turns this into MANIFEST.json)."""

_COMMON_NOTE = ('Trusted: Coq 8.16.1 kernel (vm_compute for finite sweeps, no native_compute), no axioms declared; '
                'tools/translate.py; extraction (ExtrOcamlBasic only) + ocaml/driver.ml; the python harness. '
                'All python code is modelled, not verified: the hand model is tied to /repo by the correspondence run. ')

CHECKS = {
    'C09': {
        'text': 'Theorems in coq/props/C09.v hold for every octave in Z (finite residue sweep by vm_compute lifted with '
                'Z.div/mod lemmas; inverse, unison, octave, P4+P5 and failure-only-on-residue-22 proved algebraically for '
                'ALL integer deltas). The Chromas / Intervals tables are regenerated from the source on every run, so the '
                'theorems are re-checked against the current code; kernpy.transpose is compared with the extracted model '
                'and with the Gallina letter/semitone spec on the whole 25,200-case grid plus far octaves.',
        'note': _COMMON_NOTE + 'The string path (Humdrum spelling) goes through the C16 codec model.',
        'technique': 'Coq proof (vm_compute sweep + arithmetic lifting) over translator-regenerated tables; exhaustive model/impl correspondence',
    },
    'C11': {
        'text': 'Theorems in coq/props/C11.v: the hierarchy literal regenerated from tokens.py equals the tree parsed from '
                'README.md, is a forest containing each of the 37 categories once; is_child/children/nodes/leaves agree with '
                'the inductive descendant relation of that tree (37x37 facts by vm_compute, lifted to all categories); valid '
                'and match are characterised for include/exclude lists of ANY length (induction-free list lemmas over the '
                'closure). Correspondence: every query vs the extracted model on all categories, all pairs, all 704x704 '
                'small include/exclude pairs (thorough; a fifth of the include sets in quick) and random larger sets in '
                'every argument shape.',
        'note': _COMMON_NOTE + 'Python sets are modelled as lists and compared as sets (membership bit-vectors over the enum order).',
        'technique': 'Coq proof (finite vm_compute facts lifted by forallb_forall + list lemmas) over translator-regenerated hierarchy and README tree; exhaustive model/impl correspondence',
    },
    'C16': {
        'text': 'Theorems in coq/props/C16.v: import (spell l a o) yields (l,a,o), export returns the spelling and leaves '
                'the pitch unchanged, for 7 letters x alterations -3..3 x EVERY octave (nat repetition count, induction via '
                'repeat lemmas). Correspondence: full grid, each pitch exported twice and read back, plus malformed ASCII spellings.',
        'note': _COMMON_NOTE + 'Strings are UTF-8 bytes in the model; pitch spellings are ASCII.',
        'technique': 'Coq proof over string model; exhaustive model/impl correspondence with double export',
    },
}

NOT_YET = {}
