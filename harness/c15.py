"""C15 - Transposing a document moves pitches and nothing else.

proof         : coq/props/C15.v - on the model of to_transposed: shape of the tree kept, non-note tokens untouched, a note
                keeps durations / accidental sub-tokens / signifiers, PITCH becomes transpose(pitch) (C09); the
                'source unchanged' clause is refuted with a witness (nodes are shared with the clone)
correspondence: doc.to_transposed(interval, direction): extended export of the result and of the source afterwards,
                kernpy vs the extracted model, documents x intervals x directions
monitor       : kernpy against the property on the claimed core (single notes without explicit accidental): same grid,
                pitch = C09's transposition, everything else verbatim, transposing back restores; the other classes
                (accidentals, chords, source document) are explored and tracked as findings K4a / K4b / K4c
"""
import json
import random

from harness import core, docs, engine, pitchspec, spec
from harness.docs import C1


def expected_transposed_cell(kp, cell, iv, d):
    """extended export of a note / chord cell whose sounding pitches are moved by the interval (C09 on the full
    spelling letter + accidental); None when some note carries a natural or a display suffix (not a pitch spelling)"""
    asts = [cell.ast] if cell.kind == 'note' else cell.ast['notes']
    union = sorted({x for n in asts for x in n['decos']}) if cell.kind == 'chord' else None
    out, dur = [], ''
    for n in asts:
        pd, deco, dur = spec.note_parts(n, dur, union)
        if n['kind'] == 'note':
            acc = n['acc']
            if acc not in ('', '#', '##', '-', '--'):
                return None
            # the oracle is the music-theory definition (harness/pitchspec.py), not kernpy's own arithmetic
            e = pitchspec.transpose(n['pitch'], acc, iv, d)
            if e is None:
                return None
            letters, nacc = e
            pd = [(x, c) for x, c in pd if c == 'DURATION'] + [(letters, 'PITCH')] + ([(nacc, 'ALTERATION')] if nacc else [])
        out.append('@'.join(x for x, _ in pd) + ('·' + '·'.join(x for x, _ in deco) if deco else ''))
    return ' '.join(out)


def worker(kp, job):
    seed, idx, full = job
    rng = random.Random(seed * 160481183 + idx)
    core_doc = idx % 2 == 0
    if core_doc:
        from harness import tokens
        tokens_acc = True
    # every sixth document is longer and ends spines early with high probability: a split that is never joined (its sub-spines
    # end with their own terminators) next to a spine that goes on for several measures
    g = docs.gen_doc(rng, chords=not core_doc, max_spines=3, measures=(rng.randint(3, 6) if idx % 6 == 0 else rng.randint(1, 3)),
                     early_end=(0.8 if idx % 6 == 0 else 0.3 if idx % 3 == 0 else 0.0))
    if core_doc:
        # the claimed core: single notes without explicit accidental
        for row in g.rows():
            for c in row:
                if c.kind == 'note' and c.ast['acc']:
                    a = c.ast
                    c.text = c.text.replace(a['pitch'] + (c.text.split(a['pitch'], 1)[1]), a['pitch'] + c.text.split(a['pitch'], 1)[1].replace(a['acc'], '', 1), 1)
                    a['acc'] = ''
    text = g.text
    bad = docs.bad_cells(kp, text)
    records = []
    ivs = [(rng.choice(kp.AVAILABLE_INTERVALS), rng.choice(['up', 'down'])) for _ in range(3)] + [('P1', rng.choice(['up', 'down'])), ('octave', rng.choice(['up', 'down']))]
    if full and idx % 5 == 0:
        # the whole interval table in both directions (doubly augmented / diminished intervals reach the rare spellings)
        ivs = [(iv, d) for iv in kp.AVAILABLE_INTERVALS for d in ('up', 'down')]
    for iv, d in ivs:
        viol = []
        try:
            doc, errs = kp.loads(text)
        except Exception as e:
            return {'records': [engine.rec('loads', impl='raise:' + type(e).__name__, req=('import', [C1.join(bad), text]), key=text)]}
        before = docs.impl_dumps(kp, doc, encoding='ekern')
        try:
            res = doc.to_transposed(iv, d)
            out = docs.impl_dumps(kp, res, encoding='ekern')
            after = docs.impl_dumps(kp, doc, encoding='ekern')
            impl = 'ok:' + out + C1 + after
        except Exception as e:
            res, impl = None, 'err:' + type(e).__name__
        if res is not None and out.startswith('ok:') and before.startswith('ok:'):
            w = {'text': text, 'interval': iv, 'direction': d}
            allc = spec.all_categories(kp)
            want = spec.expected_export(g, allc, 'ekern', with_cells=True)
            got_rows = engine.grid(out[3:])
            if len(want) != len(got_rows) or any(c is not None and len(c) != len(gr) for (c, _, _), gr in zip(want, got_rows)):
                viol.append(('grid', f'{iv} {d}: the transposed document has another grid than the source', w))
            else:
                done = False
                for (cells, feats, src), gr in zip(want, got_rows):
                    if cells is None or done:
                        continue
                    for exp_src, cell, got in zip(cells, src, gr):
                        if cell.kind not in ('note', 'chord') or cell.htype not in ('**kern', '**root'):
                            if got != exp_src:
                                viol.append(('moved-only-pitch', f'{iv} {d}: the cell {exp_src!r} (not a note) became {got!r}', w))
                                done = True
                                break
                            continue
                        exp = expected_transposed_cell(kp, cell, iv, d)
                        if exp is not None and got.replace('@', '').replace('·', '') != exp.replace('@', '').replace('·', ''):
                            if cell.kind == 'chord':
                                cls = 'chord-note: '
                            elif cell.ast['acc']:
                                cls = 'explicit-accidental: '
                            else:
                                cls = ''
                            viol.append(('moved-only-pitch', f'{cls}{iv} {d}: {cell.text!r} became {got!r}, expected {exp!r}', w))
                            done = True
                            break
            # the copy has the structure of the source: same stages, measure index, header stage, spine count
            def shape(x):
                try:
                    hs = x.get_header_stage()
                    hs = len(hs) if isinstance(hs, list) else hs
                except Exception as e:
                    hs = 'err:' + type(e).__name__
                try:
                    sc = x.get_spine_count()
                except Exception as e:
                    sc = 'err:' + type(e).__name__
                return ([len(st) for st in x.tree.stages], list(x.measure_start_tree_stages), hs, sc,
                        [[n.stage for n in st] for st in x.tree.stages] == [[k] * len(st) for k, st in enumerate(x.tree.stages)])
            if shape(res) != shape(doc):
                viol.append(('grid', f'{iv} {d}: the transposed document has another structure than the source (stage widths / measure index / '
                             f'header stage / spine count / stage numbers): {str(shape(res))[:120]} vs {str(shape(doc))[:120]}', w))
            if after != before:
                viol.append(('source-unchanged', f'source-modified: {iv} {d}: the exports of the source document changed after the call', w))
            if core_doc and not [v for v in viol if v[0] != 'source-unchanged']:
                try:
                    doc2, _ = kp.loads(text)
                    fresh = docs.impl_dumps(kp, doc2, encoding='ekern')
                    back = doc2.to_transposed(iv, d).to_transposed(iv, 'down' if d == 'up' else 'up')
                    if docs.impl_dumps(kp, back, encoding='ekern') != fresh:
                        viol.append(('round-trip', f'{iv} {d} then back does not restore the source export', w))
                except Exception as e:
                    viol.append(('round-trip', f'{iv} {d} then back raised {type(e).__name__}', w))
        elif res is None and core_doc:
            # the call may fail only when some resulting pitch is not spellable with at most two accidentals
            spellable = True
            for row in g.rows():
                for c in row:
                    if c.kind == 'note' and c.htype in ('**kern', '**root'):
                        try:
                            kp.transpose(c.ast['pitch'], kp.IntervalsByName[iv], direction=d)
                        except Exception:
                            spellable = False
            if spellable:
                viol.append(('fails', f'{iv} {d}: to_transposed raised {impl} although every result is spellable', {'text': text, 'interval': iv, 'direction': d}))
        records.append(engine.rec('transposed', impl=impl, req=('transposed', [C1.join(bad), text, iv, d]), viol=viol,
                                  kind='core' if core_doc else 'general', key=(text, iv, d),
                                  sample={'text': text, 'interval': iv, 'direction': d, 'result': impl[:300]} if idx % 29 == 0 and (iv, d) == ivs[0] else None))
    return {'records': records}


def long_worker(kp, job):
    """a LONG score (1200-1500 lines, single notes without accidental): transposed up and back - every note moved by the
    interval, every other cell untouched, the round trip restores the export"""
    seed, idx = job
    rng = random.Random(seed * 654188383 + idx)
    n = rng.randint(1200, 1500)
    letters = ['c', 'd', 'e', 'f', 'g', 'a', 'b', 'cc', 'dd', 'C', 'D', 'GG']
    lines = ['**kern\t**text', '*clefG2\t*', '*M4/4\t*']
    notes = []
    for k in range(n):
        if k % 4 == 0:
            lines.append(f'={k // 4 + 1}\t={k // 4 + 1}')
        p = rng.choice(letters)
        notes.append((len(lines), p))
        lines.append(rng.choice(['4', '8', '2']) + p + '\t' + rng.choice(['la', 'li', '.']))
    lines += ['==\t==', '*-\t*-']
    text = '\n'.join(lines) + '\n'
    iv, d = rng.choice([('M2', 'up'), ('m3', 'down'), ('P5', 'up'), ('P4', 'down')])
    back = 'down' if d == 'up' else 'up'
    viol = []
    w = {'text_lines': len(lines), 'interval': iv, 'direction': d, 'first_lines': lines[:6]}
    try:
        doc, errs = kp.loads(text)
        before = kp.dumps(doc).split('\n')
        t = doc.to_transposed(iv, d)
        after = kp.dumps(t).split('\n')
        if len(after) != len(before):
            viol.append(('moved-only-pitch', f'long score ({len(lines)} lines) by {iv} {d}: the transposed export has {len(after)} lines, the source {len(before)}', w))
        else:
            notelines = dict(notes)
            bad_ = 0
            for i, (x, y) in enumerate(zip(before, after)):
                if i in notelines:
                    e = pitchspec.transpose(notelines[i], '', iv, d)
                    if e is None:
                        continue
                    dur = lines[i].split('\t')[0][:-len(notelines[i])]
                    want = dur + e[0] + e[1] + '\t' + lines[i].split('\t')[1]
                    if y != want and bad_ < 1:
                        bad_ += 1
                        viol.append(('moved-only-pitch', f'long score by {iv} {d}: line {i + 1} {x!r} became {y!r}, expected {want!r}', w))
                elif x != y and bad_ < 1:
                    bad_ += 1
                    viol.append(('moved-only-pitch', f'long score by {iv} {d}: line {i + 1} {x!r} (no note) became {y!r}', w))
        rt = kp.dumps(t.to_transposed(iv, back)).split('\n')
        if rt != before and not viol:
            viol.append(('round-trip', f'long score ({len(lines)} lines): {iv} {d} then {back} does not restore the export', w))
    except BaseException as e:
        if e.__class__.__name__ == 'JobTimeout':
            raise
        viol.append(('fails-only-unspellable', f'long score ({len(lines)} lines) by {iv} {d}: {type(e).__name__} although every resulting pitch is spellable', w))
    return {'records': [engine.rec('long', viol=viol[:2], kind='long-score', key=('long', idx, len(lines)))]}


def fragment_worker(kp, job):
    """a score cut after one of its data lines (a fragment, a truncated file: no terminator row, its last row holds
    notes): the export of its transposition is the beginning of the export of the transposed whole score - every note
    of the fragment moves, the last row included"""
    seed, idx = job
    rng = random.Random(seed * 982451653 + idx)
    records = []
    for it in range(6):
        g = docs.gen_doc(rng, kern_only=(it % 2 == 0), chords=False, max_spines=3, measures=rng.randint(1, 3), comments=False, splits=False,
                         mid_signatures=False, bboxes=0, blanks=0, twins=0, plain_acc=True)
        lines = [l for l in g.text.replace('\r\n', '\n').split('\n') if l != '']
        data = [i for i, l in enumerate(lines) if l[:1] not in '*!=' and any(ch in 'abcdefgABCDEFG' for ch in l)]
        if not data:
            continue
        cut = rng.choice(data[-3:])
        frag = '\n'.join(lines[:cut + 1]) + '\n'
        whole = '\n'.join(lines) + '\n'
        iv, d = rng.choice(kp.AVAILABLE_INTERVALS), rng.choice(['up', 'down'])
        viol = []
        w = {'text': frag, 'interval': iv, 'direction': d}
        try:
            dw, ew = kp.loads(whole)
            tw = kp.dumps(dw.to_transposed(iv, d)).split('\n')
        except Exception:
            continue                      # an unspellable result: nothing to compare
        try:
            df, ef = kp.loads(frag)
            tf = kp.dumps(df.to_transposed(iv, d)).split('\n')
            sf = kp.dumps(kp.loads(frag)[0]).split('\n')
            sw = kp.dumps(kp.loads(whole)[0]).split('\n')
            n_ = len([x for x in tf if x != ''])
            if sf[:n_] == sw[:n_] and tf[:n_] != tw[:n_]:
                k = next(i for i in range(n_) if tf[i] != tw[i])
                viol.append(('moved-only-pitch', f'{iv} {d}: a score cut after a data line (no terminator row): line {k + 1} of its transposition is {tf[k]!r}, '
                                                 f'in the transposed whole score it is {tw[k]!r}', w))
        except Exception as e:
            viol.append(('moved-only-pitch', f'{iv} {d}: transposing a score cut after a data line raised {type(e).__name__} (the whole score transposes)', w))
        records.append(engine.rec('fragment', viol=viol, kind='unterminated-fragment', key=('fragment', frag, iv, d)))
    return {'records': records}


def run(chk):
    b = core.standard_build(chk)
    model = core.Model() if b.modelrun_ok else None
    full = chk.tier == 'thorough' or bool(b.drift) or not b.proof_ok or not b.modelrun_ok
    n = core.budget(chk, full, 60, 400)
    chk.rule = ('generated documents (every second one in the claimed core: single notes without explicit accidental, no chords) x '
                '5 intervals (3 random of the 40, unison, octave) x a random direction - in the thorough tier and after any drift every fifth document with all 40 intervals in both directions; result and source exported before / after; '
                'non-trivial = distinct (text, interval, direction)')
    results = engine.pmap(worker, [(chk.seed, i, full) for i in range(n)])
    results += engine.pmap(long_worker, [(chk.seed, i) for i in range(2 if not full else 6)], nproc=6)
    results += engine.pmap(fragment_worker, [(chk.seed, i) for i in range(core.budget(chk, full, 6, 60))])
    engine.settle(chk, results, model)
    chk.disagreements_checked = len(chk.broken)


def replay(path):
    rec = json.load(open(path))
    import kernpy as kp
    print(json.dumps(rec, indent=1)[:2500])
    w = rec.get('witness', {})
    if isinstance(w, dict) and 'text' in w and 'interval' in w:
        doc, errs = kp.loads(w['text'])
        print('before', kp.dumps(doc))
        res = doc.to_transposed(w['interval'], w['direction'])
        print('result', kp.dumps(res)); print('source after', kp.dumps(doc))
    return 0
