"""C07 - Measure ranges partition the score.

proof         : coq/props/C07.v - consecutive stage ranges of the exporter model compose (each row once, unmodified);
                out-of-range measure numbers give ValueError
correspondence: dumps(doc, from_measure, to_measure) for every pair a <= b and out-of-range pairs, list(doc) and
                measures_count of kernpy vs the extracted model
monitor       : kernpy's range exports against the generator's own measure segmentation of the source rows
"""
import json
import random

from harness import core, docs, engine, spec
from harness.docs import C1


def body_rows(export_text, nrows_expected):
    g = engine.grid(export_text)
    return g


def worker(kp, job):
    seed, idx = job
    rng = random.Random(seed * 86028121 + idx)
    kern_only = idx % 3 != 0
    ragged = idx % 10 == 9          # signatures in some spines only: finding K10 (export raises)
    g = docs.gen_doc(rng, kern_only=kern_only, core=not ragged, max_spines=3, measures=rng.randint(1, 5), comments=(idx % 2 == 0),
                     chords=True, opening_barline=None, final_barline=None, rest_in_chord=0, bboxes=(0.35 if idx % 4 == 3 else 0.0), empty_measures=(0.3 if idx % 5 == 2 else 0.0),
                     blanks=(0.7 if idx % 4 == 1 else 0.08))
    text = g.text
    bad = docs.bad_cells(kp, text)
    # every fourth document is read from a FILE holding the text (the other line reader), with blank lines in most of them:
    # the measure index counts stages, and a blank line is no stage
    via_file = idx % 4 == 1
    try:
        doc, errs = docs.load_text_via_file(kp, text) if via_file else kp.loads(text)
    except Exception as e:
        return {'records': [engine.rec('loads', impl='raise:' + type(e).__name__, req=('import', [C1.join(bad), text]), key=text)]}
    st = {} if kern_only else {'spine_types': ['**kern']}
    allc = spec.all_categories(kp)
    starts = spec.measure_starts(g)
    M = len(starts)
    nrows = len(g.rows())
    records = []
    viol0 = []
    try:
        mc = doc.measures_count()
        it = list(doc)
    except Exception as e:
        mc, it = None, None
    if M > 0 and (mc != M or it != list(range(1, M + 1))):
        viol0.append(('iteration', f'measures_count() = {mc}, list(doc) = {it}, the text has {M} measures', {'text': text}))
    if M > 0:
        # overlapping iterations (nested loops enumerate all ranges a <= b; zip; two handles): each yields 1..M on its own
        try:
            outer = []
            for a_ in doc:
                outer.append(a_)
                inner = [b_ for b_ in doc]
                if inner != list(range(1, M + 1)):
                    viol0.append(('iteration', f'an iteration started inside another one yields {inner}, the text has {M} measures', {'text': text}))
                    break
                if len(outer) > M + 2:
                    break
            zipped = list(zip(doc, doc))
            i1, i2 = iter(doc), iter(doc)
            first = [next(i1, None), next(i2, None), next(i1, None)]
            if outer != list(range(1, M + 1)) and not viol0:
                viol0.append(('iteration', f'the outer loop of two nested iterations over the document yields {outer}, the text has {M} measures', {'text': text}))
            elif zipped != [(k, k) for k in range(1, M + 1)] and not viol0:
                viol0.append(('iteration', f'zip(doc, doc) = {zipped[:4]}..., expected (1,1)..({M},{M})', {'text': text}))
            elif first != [1, 1, 2 if M >= 2 else None] and not viol0:
                viol0.append(('iteration', f'two iterators over one document interleaved give {first}', {'text': text}))
        except Exception as e:
            viol0.append(('iteration', f'overlapping iterations raised {type(e).__name__}', {'text': text}))
    full = docs.impl_dumps(kp, doc, **st)
    records.append(engine.rec('full', impl=full, req=docs.model_dumps_req(bad, text, **st), viol=viol0, kind='full', key=(text, 'full')))
    term_rows = 1
    singles = {}
    for a in range(1, M + 1):
        for b in range(a, M + 1):
            o = dict(st, from_measure=a, to_measure=b)
            out = docs.impl_dumps(kp, doc, **o)
            viol = []
            if out.startswith('ok:'):
                got = engine.grid(out[3:])
                lo = starts[a - 1]
                hi = starts[b] if b < M else nrows - 1
                want = spec.expected_export(g, allc, 'kern', spine_types=['**kern'] if not kern_only else None, row_range=(lo, hi))
                want_cells = [c for c, _ in want]
                if None not in want_cells:
                    if want_cells and want_cells[-1] and all(x == '*-' for x in want_cells[-1]):
                        tail = want_cells
                    else:
                        tail = want_cells + [None]      # one synthetic terminator row
                    k = len(got) - len(tail)
                    ok = k >= 0
                    if ok:
                        for x, y in zip(got[k:], tail):
                            if y is None:
                                ok = ok and len(x) > 0 and all(c == '*-' for c in x)
                            else:
                                ok = ok and x == y
                    if ok:
                        # nothing but headers, spine operators and signatures before the opening barline
                        for x in got[:k]:
                            if any(c.startswith('=') or (c[:1].isdigit()) for c in x):
                                ok = False
                    if not ok:
                        viol.append(('range', f'from_measure={a} to_measure={b} of {M}: the export does not end with the lines of measures {a}..{b} '
                                              f'(source rows {lo}..{hi}) bounded by their barlines', {'text': text, 'from': a, 'to': b}))
                if a == b:
                    singles[a] = got
            else:
                viol.append(('range-raises', f'ragged-signatures={ragged}: from_measure={a} to_measure={b} of {M} raised {out}', {'text': text, 'from': a, 'to': b}))
            records.append(engine.rec('range', impl=out, req=docs.model_dumps_req(bad, text, **o), viol=viol,
                                      kind='range' + ('-ragged' if ragged else ''), key=(text, a, b)))
    # every data line of the full export appears in exactly one single-measure export
    if full.startswith('ok:') and len(singles) == M and M > 0:
        def data(rows_):
            return [r for r in rows_ if not all(c.startswith('=') for c in r) and not all(c == '*-' for c in r)]
        fullg = engine.grid(full[3:])
        lo = starts[0]
        want_body = [c for c, _ in spec.expected_export(g, allc, 'kern', spine_types=['**kern'] if not kern_only else None, row_range=(lo, nrows - 1))]
        if None not in want_body:
            body = data(want_body)
            pieces = []
            for a in range(1, M + 1):
                lo_a = starts[a - 1]
                hi_a = starts[a] if a < M else nrows - 1
                wa = [c for c, _ in spec.expected_export(g, allc, 'kern', spine_types=['**kern'] if not kern_only else None, row_range=(lo_a, hi_a))]
                got = singles[a]
                # the rows of this single-measure export that belong to its measure: its tail of len(wa) (+ terminator)
                n = len(wa) + (0 if (wa and all(x == '*-' for x in wa[-1])) else 1)
                pieces += data(got[max(0, len(got) - n):])
            if pieces != body:
                viol = [('partition', f'the single-measure exports 1..{M} do not contain every data line of the full export exactly once '
                                      f'({len(pieces)} lines vs {len(body)})', {'text': text})]
                records.append(engine.rec('partition', viol=viol, key=(text, 'partition'), kind='partition'))
    # out-of-range pairs
    for o2, why in (({'from_measure': -1}, 'negative start'), ({'to_measure': M + 1}, 'end beyond M'),
                    ({'from_measure': 2, 'to_measure': 1}, 'end before start'), ({'from_measure': -3, 'to_measure': M}, 'negative start'),
                    ({'from_measure': 1, 'to_measure': M + 7}, 'end beyond M'),
                    ({'from_measure': 1, 'to_measure': 0}, 'end before start'), ({'from_measure': max(M, 1), 'to_measure': 0}, 'end before start'),
                    ({'from_measure': max(M, 2), 'to_measure': max(M, 2) - 1}, 'end before start'),
                    ({'from_measure': max(M, 2), 'to_measure': 1}, 'end before start')):
        o = dict(st, **o2)
        try:
            kp.dumps(doc, **{k: v for k, v in o.items()})
            out, viol = 'ok:', [('rejected', f'{why} ({o2}) with M={M} was accepted instead of ValueError', {'text': text, 'options': o2})]
        except ValueError:
            out, viol = 'err:ValueError', []
        except Exception as e:
            out, viol = 'err:' + type(e).__name__, [('rejected', f'{why} ({o2}) raised {type(e).__name__}, not ValueError', {'text': text, 'options': o2})]
        records.append(engine.rec('out-of-range', impl=out if out != 'ok:' else docs.impl_dumps(kp, doc, **o),
                                  req=docs.model_dumps_req(bad, text, **o), viol=viol, kind='out-of-range', key=(text, str(o2))))
    if idx % 23 == 0 and len(records) > 1:
        records[1]['sample'] = {'text': text, 'range': '1..1', 'export': records[1]['impl'][3:]}
    if via_file:
        for r in records:
            r['viol'] = [(c, m + ' [document read from a file]', dict(w, via='file') if isinstance(w, dict) else w) for c, m, w in r.get('viol') or []]
    return {'records': records}


def long_worker(kp, job):
    """a LONG score (some 300 measures): ranges that end at the last measure, single measures near the end, and the
    rejections, against the lines of the full export"""
    seed, idx = job
    rng = random.Random(seed * 982451653 + idx)
    nm = rng.randint(262, 330)
    lines = ['**kern\t**kern', '*clefG2\t*clefF4', '*M4/4\t*M4/4']
    notes = ['4c', '4d', '8e', '2f', '4g', '4a', '4b', '4cc']
    for m in range(1, nm + 1):
        lines.append(f'={m}\t={m}')
        for _ in range(rng.randint(1, 3)):
            lines.append(rng.choice(notes) + '\t' + rng.choice(notes))
    lines += ['==\t==', '*-\t*-']
    text = '\n'.join(lines) + '\n'
    viol = []
    w = {'text_lines': len(lines), 'measures_written': nm, 'first_lines': lines[:6]}
    try:
        doc, errs = kp.loads(text)
        M = doc.measures_count()
        full = kp.dumps(doc).split('\n')
        if list(doc) != list(range(1, M + 1)):
            viol.append(('iteration', f'long score: list(doc) is not 1..{M}', w))
        pairs = [(1, M), (M, M), (M - 1, M), (rng.randint(2, M - 2), M), (256, 257), (257, 257), (rng.randint(2, 200), rng.randint(201, M - 1)), (M - 1, M - 1)]
        for a, b_ in pairs:
            try:
                out = kp.dumps(doc, from_measure=a, to_measure=b_).split('\n')
            except Exception as e:
                viol.append(('range-raises', f'ragged-signatures=False: long score of {M} measures: from_measure={a} to_measure={b_} raised {type(e).__name__}', dict(w, pair=[a, b_])))
                continue
            bars = [i for i, l in enumerate(full) if l.startswith('=')]
            if len(bars) != M:
                viol.append(('iteration', f'long score: measures_count() = {M}, the full export has {len(bars)} barline lines', w))
                break
            obars = [i for i, l in enumerate(out) if l.startswith('=')]
            if not obars:
                viol.append(('range', f'long score of {M} measures: the export of {a}..{b_} holds no barline', dict(w, pair=[a, b_])))
                continue
            i0 = bars[a - 1]
            want = full[i0:] if b_ >= M else full[i0:bars[b_] + 1]
            got = out[obars[0]:]
            got = [l for l in got if l != '']
            want = [l for l in want if l != '']
            if b_ < M:
                got = got[:-1] if got and set(got[-1].split('\t')) == {'*-'} else got
            if got != want:
                viol.append(('range', f'long score of {M} measures: the export of {a}..{b_} does not end with the lines of these measures '
                                      f'({len(got)} lines, expected {len(want)})', dict(w, pair=[a, b_])))
        for o2 in ({'to_measure': M + 1}, {'from_measure': M, 'to_measure': M - 1}, {'from_measure': 300, 'to_measure': 256}):
            try:
                kp.dumps(doc, **o2)
                viol.append(('rejected', f'long score of {M} measures: {o2} was accepted instead of ValueError', dict(w, options=o2)))
            except ValueError:
                pass
            except Exception as e:
                viol.append(('rejected', f'long score of {M} measures: {o2} raised {type(e).__name__}, not ValueError', dict(w, options=o2)))
    except BaseException as e:
        if e.__class__.__name__ == 'JobTimeout':
            raise
        viol.append(('range-raises', f'ragged-signatures=False: long score ({len(lines)} lines): {type(e).__name__}', w))
    return {'records': [engine.rec('long', viol=viol[:3], kind='long-score', key=('long', idx, len(lines)))]}


def run(chk):
    b = core.standard_build(chk)
    model = core.Model() if b.modelrun_ok else None
    full = chk.tier == 'thorough' or bool(b.drift) or not b.proof_ok or not b.modelrun_ok
    n = core.budget(chk, full, 80, 500)
    chk.rule = ('generated **kern documents (two thirds kern-only, one third mixed and exported with spine_types=[**kern]; with / '
                'without opening barline, pickup, final barline; splits, comments; every 10th with signatures in some spines only) x '
                'EVERY pair 1 <= a <= b <= M, the partition of the full export by the single-measure exports, iteration (also nested, zipped and interleaved), and five '
                'out-of-range pairs; plus scores of 260-330 measures (ranges ending at the last measure, around measure 256, rejections) against the full export; non-trivial = distinct (text, a, b)')
    results = engine.pmap(worker, [(chk.seed, i) for i in range(n)])
    results += engine.pmap(long_worker, [(chk.seed, i) for i in range(2 if not full else 6)], nproc=6)
    engine.settle(chk, results, model)
    chk.disagreements_checked = len(chk.broken)


def replay(path):
    rec = json.load(open(path))
    import kernpy as kp
    print(json.dumps(rec, indent=1)[:2500])
    w = rec.get('witness', {})
    if isinstance(w, dict) and 'text' in w and 'from' in w:
        doc, errs = docs.load_text_via_file(kp, w['text']) if w.get('via') == 'file' else kp.loads(w['text'])
        print(docs.impl_dumps(kp, doc, from_measure=w['from'], to_measure=w['to'], spine_types=['**kern']))
    return 0
