"""C11 - Category algebra follows the documented tree.

proof         : coq/props/C11.v (forest, hierarchy = README tree, is_child/children/nodes/leaves = desc,
                valid/match for ALL include/exclude lists)
correspondence: every query of TokenCategory / TokenCategoryHierarchyMapper vs the extracted model: all 37
                categories, all 37x37 pairs, all include/exclude pairs of size <= 2 (704 x 704), random larger
                sets, list / tuple / set / single-value / None argument shapes
monitor       : the property on kernpy against a python reading of the README tree (search for a failing input)
"""
import itertools
import json
import re
from harness import core


def readme_forest():
    """parent map of the tree documented in README.md (independent of kernpy)"""
    parent, order, stack, started = {}, [], [], False
    for line in open(core.REPO + '/README.md', encoding='utf-8').read().splitlines():
        m = re.match(r'^((?:│   |    )*)(├── |└── )(?:TokenCategory\.)?([A-Z_]+)\s*$', line)
        if not m:
            if started:
                break
            continue
        started = True
        depth = len(m.group(1)) // 4
        while len(stack) > depth:
            stack.pop()
        parent[m.group(3)] = stack[-1] if stack else None
        order.append(m.group(3))
        stack.append(m.group(3))
    return parent, order


def bits(names, s):
    return ''.join('1' if n in s else '0' for n in names)


def names_of(x):
    return {c.name for c in x}


def run(chk):
    b = core.standard_build(chk)
    import kernpy as kp
    TC, HM = kp.TokenCategory, kp.TokenCategoryHierarchyMapper
    model = core.Model() if b.modelrun_ok else None
    parent, doc_order = readme_forest()
    cats = [c for c in TC]
    names = [c.name for c in cats]
    by_name = {c.name: c for c in cats}
    chk.exhaustive = True
    chk.rule = ('all 37 categories (children/nodes/leaves/all/tree), all 37x37 is_child pairs, every include x exclude '
                'pair of subsets of size <= 2 (704 x 704) for valid, match on every category for a stride of those, random '
                'larger sets, list/tuple/set/single/None argument shapes, and histories in which the caller edits ONE include / exclude '
                'collection in place between calls; non-trivial = distinct argument tuple')

    # ---- independent reading of the documented tree
    def anc(c):
        out = []
        while c is not None:
            out.append(c)
            c = parent.get(c)
        return out
    desc = {a: {c for c in names if a in anc(c)} for a in names} if set(parent) == set(names) else None
    if desc is None:
        chk.violation('forest', 'README tree and enum members differ: ' +
                      ','.join(sorted(set(parent) ^ set(names))), {'readme': sorted(parent), 'enum': names})
        desc = {a: {c for c in names if c in parent and a in anc(c)} for a in names}
    kids = {a: {c for c in names if parent.get(c) == a} for a in names}

    # ---- all(), tree()
    chk.case('all')
    if model:
        m_all = model.one('cat_all')
        if m_all != 'ok:' + bits(names, names_of(TC.all())) + '|' + ','.join(names):
            chk.mismatch('all / enum order', 'TokenCategory.all()', f'model={m_all}')
    if names_of(HM.all()) != set(names) or names_of(TC.all()) != set(names):
        chk.violation('forest', 'all() is not the 37 categories', {'all': sorted(names_of(HM.all()))})
    tree_txt = TC.tree()
    tp, stack = {}, []
    seen_twice = []
    for line in tree_txt.splitlines():
        m = re.match(r'^((?:│   |    )*)(├── |└── )(?:TokenCategory\.)?([A-Z_]+)\s*$', line)
        if m:
            depth = len(m.group(1)) // 4
            while len(stack) > depth:
                stack.pop()
            if m.group(3) in tp:
                seen_twice.append(m.group(3))
            tp[m.group(3)] = stack[-1] if stack else None
            stack.append(m.group(3))
    chk.case('tree()')
    if tp != parent or seen_twice:
        diff = sorted(k for k in set(tp) | set(parent) if tp.get(k, '?') != parent.get(k, '?'))
        chk.violation('forest', f'tree() differs from the documented tree at {diff[:4]} (twice: {seen_twice[:3]})',
                      {'categories': diff})

    # ---- per category and per pair
    m_rows = model.batch([('cat_row', [n]) for n in names]) if model else None
    for i, c in enumerate(cats):
        ch, nd, lv = names_of(TC.children(c)), names_of(TC.nodes(c)), names_of(TC.leaves(c))
        ic = {d.name for d in cats if TC.is_child(child=d, parent=c)}
        ic2 = {d.name for d in cats if HM.is_child(parent=c, child=d)}
        row = 'ok:' + '|'.join(bits(names, s) for s in (ch, nd, lv, ic))
        chk.case(('row', c.name))
        if m_rows and row != m_rows[i]:
            chk.mismatch('children|nodes|leaves|is_child', c.name, f'impl={row} model={m_rows[i]}')
        if ic != ic2 or names_of(HM.children(c)) != ch or names_of(HM.nodes(c)) != nd or names_of(HM.leaves(c)) != lv:
            chk.violation('wrapper', f'TokenCategory.* and TokenCategoryHierarchyMapper.* differ for {c.name}', {'cat': c.name})
        if ch != kids[c.name]:
            chk.violation('children', f'children({c.name}) = {sorted(ch)}, documented {sorted(kids[c.name])}', {'cat': c.name})
        if nd != desc[c.name] - {c.name}:
            chk.violation('nodes', f'nodes({c.name}) = {sorted(nd)}, documented {sorted(desc[c.name] - {c.name})}', {'cat': c.name})
        want_lv = {d for d in desc[c.name] - {c.name} if not kids[d]}
        if lv != want_lv:
            chk.violation('leaves', f'leaves({c.name}) = {sorted(lv)}, documented {sorted(want_lv)}', {'cat': c.name})
        for d in cats:
            chk.case(('pair', c.name, d.name))
            if (d.name in ic) != (d.name in desc[c.name]):
                chk.violation('is_child', f'is_child(parent={c.name}, child={d.name}) = {d.name in ic}', {'parent': c.name, 'child': d.name})
        if i % 9 == 0:
            chk.sample({'category': c.name, 'children': sorted(ch), 'leaves': sorted(lv)})

    # ---- valid on all pairs of small sets
    small = [()] + [(a,) for a in names] + list(itertools.combinations(names, 2))
    if model:
        ms = model.one('cat_small_sets')[3:].split(';')
        if ms != [','.join(s) for s in small]:
            chk.mismatch('enumeration of small sets', 'cat_small_sets', 'model and harness enumerate differently')
    closure = {s: set().union(*[desc[a] for a in s]) if s else set() for s in small}
    full = chk.tier == 'thorough' or bool(b.drift) or not b.proof_ok or not b.modelrun_ok
    inc_sets = small if full else small[:60] + [small[i] for i in range(60, len(small), 5)]
    m_valid = model.batch([('cat_valid_row', [','.join(s)]) for s in inc_sets]) if model else None
    nviol = 0
    for k, inc in enumerate(inc_sets):
        inc_arg = {by_name[a] for a in inc}
        row = []
        for exc in small:
            v = names_of(TC.valid(include=inc_arg, exclude={by_name[a] for a in exc}))
            row.append(bits(names, v))
            chk.evaluations += 1
            if v != closure[inc] - closure[exc] and nviol < 20:
                nviol += 1
                chk.violation('valid', f'valid(include={list(inc)}, exclude={list(exc)}) = {sorted(v)}',
                              {'include': list(inc), 'exclude': list(exc)})
        chk.distinct.add(('valid-row', inc))
        if m_valid and 'ok:' + ','.join(row) != m_valid[k]:
            mrow = m_valid[k][3:].split(',')
            j = next((j for j in range(len(small)) if j >= len(mrow) or mrow[j] != row[j]), 0)
            chk.mismatch('valid', {'include': list(inc), 'exclude': list(small[j])},
                         f'impl={row[j]} model={mrow[j] if j < len(mrow) else "?"}')
    chk.notes['valid_pairs'] = len(inc_sets) * len(small)

    # ---- match + valid on a stride of pairs and on random larger sets, all argument shapes
    reqs, cases = [], []
    stride = 37 if not full else 5
    for k in range(0, len(small) * len(small), stride * 101 + 1):
        cases.append((small[k // len(small)], small[k % len(small)], 'set'))
    shapes = ['list', 'tuple', 'set', 'single', 'none', 'dup-list']
    for _ in range(400 if not full else 4000):
        inc = tuple(chk.rng.sample(names, chk.rng.randint(0, 6)))
        exc = tuple(chk.rng.sample(names, chk.rng.randint(0, 6)))
        cases.append((inc, exc, chk.rng.choice(shapes)))
    # EVERY size of the include set from 0 to all categories (and of the exclude set, now and then), in every shape
    for size in range(len(names) + 1):
        for rep in range(2 if not full else 8):
            inc = tuple(chk.rng.sample(names, size))
            exc = tuple(chk.rng.sample(names, chk.rng.choice([0, 0, 1, 3, size])))
            cases.append((inc, exc, ['set', 'list', 'tuple', 'dup-list'][(size + rep) % 4]))

    def shape(s, how):
        vals = [by_name[a] for a in s]
        if how == 'none':
            return None, '-'
        if how == 'single' and len(vals) >= 1:
            return vals[0], s[0]
        if how == 'list':
            return list(vals), ','.join(s)
        if how == 'tuple':
            return tuple(vals), ','.join(s)
        if how == 'dup-list':
            return list(vals) + list(reversed(vals)), ','.join(s + tuple(reversed(s)))
        return set(vals), ','.join(s)
    for inc, exc, how in cases:
        ia, im = shape(inc, how)
        ea, em = shape(exc, 'set' if how == 'none' and chk.rng.random() < 0.5 else how)
        try:
            v = names_of(TC.valid(include=ia, exclude=ea))
            mt = {c.name for c in cats if TC.match(c, include=ia, exclude=ea)}
            got = 'ok:' + bits(names, v) + '|' + bits(names, mt)
        except Exception as e:
            got = 'err:' + type(e).__name__
            v, mt = None, None
        chk.case(('match', im, em, how), kind=how)
        reqs.append(('cat_valid', [im, em]))
        # spec
        iset = set(names) if im == '-' else set(im.split(',')) - {''}
        eset = set() if em == '-' else set(em.split(',')) - {''}
        want_v = (set().union(*[desc[a] for a in iset]) if iset else set()) - (set().union(*[desc[a] for a in eset]) if eset else set())
        want_m = {c for c in names if desc[c] & want_v}
        if v is None or v != want_v:
            chk.violation('valid', f'valid(include={im}, exclude={em}) [{how}] = {sorted(v) if v is not None else got}',
                          {'include': im, 'exclude': em, 'shape': how})
        elif mt != want_m:
            bad = sorted(mt ^ want_m)
            chk.violation('match', f'match({bad[0]}, include={im}, exclude={em}) = {bad[0] in mt}',
                          {'include': im, 'exclude': em, 'category': bad[0], 'shape': how})
        cases[len(reqs) - 1] = (im, em, how, got)
    if model:
        for (im, em, how, got), m in zip(cases, model.batch(reqs)):
            if got != m:
                chk.mismatch('valid|match', {'include': im, 'exclude': em, 'shape': how}, f'impl={got} model={m}')

    # ---- histories: the caller keeps ONE include and ONE exclude collection (set or list), edits them in place
    # between calls and calls valid / match / nodes / ... again: every answer must be the answer for the current content
    def closure_of(iset, eset):
        inc_all = set(names) if iset is None else (set().union(*[desc[a] for a in iset]) if iset else set())
        return inc_all - (set().union(*[desc[a] for a in eset]) if eset else set())
    nhist = 60 if not full else 600
    hviol = 0
    for h in range(nhist):
        r = chk.rng
        kind = r.choice(['set', 'set', 'list'])
        inc_obj = (set if kind == 'set' else list)(by_name[a] for a in r.sample(names, r.randint(0, 3)))
        exc_obj = (set if kind == 'set' else list)(by_name[a] for a in r.sample(names, r.randint(0, 2)))
        trail = []
        for step in range(r.randint(3, 8)):
            obj = r.choice([inc_obj, exc_obj])
            op = r.choice(['add', 'add', 'discard', 'clear', 'none', 'none'])
            c = by_name[r.choice(names)]
            if op == 'add':
                obj.add(c) if kind == 'set' else obj.append(c)
            elif op == 'discard' and len(obj):
                victim = r.choice(sorted(obj, key=lambda x: x.name))
                obj.discard(victim) if kind == 'set' else obj.remove(victim)
            elif op == 'clear':
                obj.clear()
            q = by_name[r.choice(names)]
            inc_now, exc_now = sorted({x.name for x in inc_obj}), sorted({x.name for x in exc_obj})
            before = (list(inc_obj) if kind == 'list' else set(inc_obj), list(exc_obj) if kind == 'list' else set(exc_obj))
            try:
                mt = TC.match(q, include=inc_obj, exclude=exc_obj)
                res_ = TC.valid(include=inc_obj, exclude=exc_obj)
                v = names_of(res_)
                mt2 = HM.match(q, include=inc_obj, exclude=exc_obj)
                # the result is the caller's own from now on: adding to it must not reach the arguments (checked below)
                if isinstance(res_, set):
                    res_.add(by_name[r.choice(names)])
                    res_.add(by_name[r.choice(names)])
            except Exception as e:
                mt = mt2 = v = 'err:' + type(e).__name__
            trail.append((op, c.name, q.name, inc_now, exc_now))
            chk.case(('history', h, step, tuple(inc_now), tuple(exc_now), q.name), kind='history-' + kind)
            want_v = closure_of(set(inc_now), set(exc_now))
            want_m = bool(desc[q.name] & want_v)
            if (mt != want_m or mt2 != want_m or v != want_v) and hviol < 10:
                hviol += 1
                chk.violation('history', f'after editing the caller\'s {kind}s in place, step {step}: match({q.name}, include={inc_now}, exclude={exc_now}) = {mt} / {mt2}, '
                              f'valid = {sorted(v) if isinstance(v, set) else v}; expected match {want_m}', {'shape': kind, 'history': trail})
            after = (list(inc_obj) if kind == 'list' else set(inc_obj), list(exc_obj) if kind == 'list' else set(exc_obj))
            if after != before and hviol < 10:
                hviol += 1
                chk.violation('history', f'a query changed the caller\'s {kind}: {before} -> {after}', {'shape': kind, 'history': trail})
    # consecutive calls whose (include, exclude) pairs are different SPLITS of one collection of categories: the same
    # categories, moved between the two arguments from one call to the next
    sviol = 0
    for h in range(60 if not full else 600):
        r = chk.rng
        pool = [by_name[a] for a in r.sample(names, r.randint(2, 4))]
        trail = []
        for step in range(r.randint(3, 7)):
            cut = [r.random() < 0.5 for _ in pool]
            inc_s = [c for c, b_ in zip(pool, cut) if b_]
            exc_s = [c for c, b_ in zip(pool, cut) if not b_]
            q = r.choice(pool + [by_name[r.choice(names)]])
            mk = r.choice([set, list, tuple])
            inc_now, exc_now = sorted(x.name for x in inc_s), sorted(x.name for x in exc_s)
            try:
                mt = TC.match(q, include=mk(inc_s), exclude=mk(exc_s))
                mt2 = HM.match(q, include=mk(inc_s), exclude=mk(exc_s))
            except Exception as e:
                mt = mt2 = 'err:' + type(e).__name__
            trail.append((q.name, inc_now, exc_now))
            chk.case(('resplit', h, step, tuple(inc_now), tuple(exc_now), q.name), kind='history-resplit')
            want_m = bool(desc[q.name] & closure_of(set(inc_now), set(exc_now)))
            if (mt != want_m or mt2 != want_m) and sviol < 10:
                sviol += 1
                chk.violation('history', f'consecutive calls over re-split collections, step {step}: match({q.name}, include={inc_now}, exclude={exc_now}) = {mt} / {mt2}, '
                              f'expected {want_m}', {'shape': 'resplit', 'history': trail})
    chk.notes['histories'] = nhist
    # results are the caller's own: editing a returned set must not change any later answer
    rviol = 0
    for h in range(40 if not full else 400):
        r = chk.rng
        trail = []
        for step in range(r.randint(3, 8)):
            q = by_name[r.choice(names)]
            fn = r.choice(['nodes', 'children', 'leaves', 'valid'])
            try:
                res = getattr(TC, fn)(q) if fn != 'valid' else TC.valid(include={q})
                if isinstance(res, set):
                    r.choice([lambda: res.add(by_name[r.choice(names)]), res.clear, lambda: res.update(cats[:3])])()
            except Exception:
                pass
            trail.append((fn, q.name))
            q2 = by_name[r.choice(names)]
            chk.case(('own-result', h, step, q2.name), kind='own-result')
            got = (names_of(TC.nodes(q2)), names_of(TC.children(q2)), names_of(TC.leaves(q2)), names_of(TC.valid(include={q2})))
            want = (desc[q2.name] - {q2.name}, kids[q2.name], {d for d in desc[q2.name] - {q2.name} if not kids[d]}, desc[q2.name])
            if got != want and rviol < 10:
                rviol += 1
                chk.violation('history', f'after the caller edited the sets returned by {trail}, nodes / children / leaves / valid of {q2.name} are '
                              f'{[sorted(x) for x in got]}, documented {[sorted(x) for x in want]}', {'history': trail, 'category': q2.name})
    chk.sample({'include': cases[-1][0], 'exclude': cases[-1][1], 'shape': cases[-1][2], 'valid|match bits': cases[-1][3]})
    chk.traces_validated = chk.evaluations
    chk.disagreements_checked = len(chk.broken)


def replay(path):
    rec = json.load(open(path))
    import kernpy as kp
    TC = kp.TokenCategory
    w = rec.get('witness', {})
    print(json.dumps(rec, indent=1)[:1500])
    if isinstance(w, dict) and 'parent' in w:
        print('is_child ->', TC.is_child(parent=TC[w['parent']], child=TC[w['child']]))
    if isinstance(w, dict) and 'include' in w and isinstance(w['include'], list):
        print('valid ->', sorted(c.name for c in TC.valid(include={TC[a] for a in w['include']}, exclude={TC[a] for a in w['exclude']})))
    return 0
