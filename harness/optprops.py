"""Shared worker for the option-driven export properties (C04, C05, C06, C13): one generated document, a
list of option sets; for each: kernpy's export, the model request, and the comparison with the generator's
own description of the document (harness/spec.py)."""
import itertools
import random

from harness import core, docs, engine, spec
from harness.docs import C1

ENCODINGS = ['kern', 'ekern', 'bkern', 'bekern', 'akern', 'aekern']


def strip_sep(s):
    return s.replace('@', '').replace('·', '')


def evaluate(kp, g, doc, bad, text, o, label, clause='export'):
    """-> engine record for one option set"""
    n0 = len(docs.SESSION_MISMATCHES)
    out = docs.impl_dumps(kp, doc, **o)
    viol = []
    while len(docs.SESSION_MISMATCHES) > n0:
        sig, wit = docs.SESSION_MISMATCHES.pop()
        viol.append((clause, sig, dict(wit, text=text)))
    enc = o.get('encoding') or 'kern'
    if out.startswith('ok:'):
        selected = spec.closure(kp, o.get('include'), o.get('exclude'))
        want = spec.expected_export(g, selected, enc, spine_ids=o.get('spine_ids'), spine_types=o.get('spine_types'))
        c = spec.compare_export(out[3:], want)
        if c:
            msg, feats = c
            viol.append((clause, (','.join(sorted(feats)) + ': ' if feats else '') + f'options {fmt(o)}: ' + msg,
                         {'text': text, 'options': o}))
        else:
            # also on the lines the oracle does not pin down: a token that exports to nothing is replaced by the null
            # placeholder, so no exported cell is the empty string (a line would lose a column for every reader)
            for k, line in enumerate(out[3:].split('\n')):
                if line != '' and '' in line.split('\t'):
                    viol.append((clause, f'options {fmt(o)}: exported line {k + 1} {line.split(chr(9))} holds an empty cell instead of a placeholder',
                                 {'text': text, 'options': o}))
                    break
    return engine.rec(label, impl=out, req=docs.model_dumps_req(bad, text, **o), viol=viol, kind=label,
                      key=(text, fmt(o)))


def fmt(o):
    return ' '.join(f'{k}={o[k]}' for k in sorted(o))


def needs_clef_ok(g):
    """every kern-like path has a clef before its first note (then the agnostic encodings are defined)"""
    rows = g.rows()
    clefs = spec.clefs_in_force(rows)
    for r, row in enumerate(rows):
        for i, c in enumerate(row):
            if c.kind in ('note', 'chord') and spec.clef_bottom(clefs[r][i] or '') is None:
                return False
    return True


def plain_accidentals(g):
    """no natural / display suffix on any note (finding K6 concerns the agnostic encodings only)"""
    for row in g.rows():
        for c in row:
            asts = [c.ast] if c.kind == 'note' else (c.ast['notes'] if c.kind == 'chord' else [])
            for a in asts:
                if a['kind'] == 'note' and a['acc'] not in ('', '#', '##', '###', '-', '--', '---'):
                    return False
    return True
