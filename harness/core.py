"""Shared machinery of the kernpy verification checks (see /verif/DESIGN.md section 2).

build  : translate.py -> coq/gen, make props/Cnn.vo (proof obligations), extraction -> bin/modelrun
model  : line protocol to bin/modelrun (the extracted Gallina model)
check  : collects violations, matches them against KNOWN_FINDINGS.json, writes replays + evidence
"""
import fcntl
import hashlib
import json
import os
import random
import re
import subprocess
import sys
import time

# /verif and /repo; overridable so that a background run can use a snapshot of both (vp run --with-repo)
VERIF = os.path.dirname(os.path.dirname(os.path.abspath(__file__)))
REPO = os.environ.get('KERNPY_VERIF_REPO', '/repo')
COQ = os.path.join(VERIF, 'coq')
BIN = os.path.join(VERIF, 'bin')
MODELRUN = os.path.join(BIN, 'modelrun')
LEVELS = ('exploration', 'fault_enumeration', 'model_checking', 'proof', 'translation_validation', 'other')

TRUSTED_BASE = [
    'Coq 8.16.1 kernel (coqc; vm_compute used for finite sweeps, native_compute not used)',
    'no axioms declared by the development; Print Assumptions of every property theorem is copied below',
    'tools/translate.py (python ast -> coq/gen/*.v, fail-closed)',
    'Coq extraction with ExtrOcamlBasic only (no Extract Constant / Extract Inductive of ours), OCaml 4.13.1, ocaml/driver.ml',
    'python harness: generators, differ, canonicalisation (harness/*.py)',
    'hand-written Gallina model of the python code (coq/model/*.v), tied to /repo by the correspondence run of this check',
]


def ensure_env():
    """Deterministic hashing and the working tree of /repo first on sys.path."""
    if os.environ.get('PYTHONHASHSEED') != '0':
        os.environ['PYTHONHASHSEED'] = '0'
        os.execv(sys.executable, [sys.executable] + sys.argv)
    for p in list(sys.path):
        if p.rstrip('/') == REPO:
            sys.path.remove(p)
    sys.path.insert(0, REPO)
    os.environ['PYTHONPATH'] = REPO
    sys.dont_write_bytecode = True


# --------------------------------------------------------------------------- build

class BuildResult:
    def __init__(self):
        self.translator_failed = []     # generator names
        self.translator_changed = []
        self.coq_ok = False
        self.coq_log = ''
        self.failed_file = None
        self.assumptions = []           # text blocks printed by Print Assumptions
        self.closed = 0
        self.theorems = []
        self.obligations = 0
        self.discharged = 0
        self.cone = []
        self.modelrun_ok = False
        self.modelrun_log = ''
        self.drift = []                 # fingerprint keys that differ from the committed baseline
        self.wall_s = 0.0

    @property
    def proof_ok(self):
        return self.coq_ok and not self.translator_failed

    def broken_description(self):
        parts = []
        if self.translator_failed:
            parts.append('translator could not understand the source for: ' + ', '.join(self.translator_failed))
        if not self.coq_ok:
            parts.append(f'proof obligation no longer checks: {self.failed_file or "?"}')
        if not self.modelrun_ok:
            parts.append('executable model could not be rebuilt (correspondence unavailable)')
        return '; '.join(parts)


def _run(cmd, cwd=None, timeout=900, env=None):
    try:
        p = subprocess.run(cmd, cwd=cwd, stdout=subprocess.PIPE, stderr=subprocess.STDOUT, timeout=timeout,
                           text=True, env=env)
        return p.returncode, p.stdout
    except subprocess.TimeoutExpired as e:
        return 124, (e.stdout or '') + '\nTIMEOUT'


def _cone(prop_file):
    """transitive closure of `From KV Require Import` starting at a props file"""
    index = {}
    for root, _, files in os.walk(COQ):
        for f in files:
            if f.endswith('.v'):
                index[f[:-2]] = os.path.join(root, f)
    seen, todo = [], [prop_file]
    while todo:
        f = todo.pop()
        if f in seen or not os.path.exists(f):
            continue
        seen.append(f)
        txt = open(f, encoding='utf-8').read()
        for m in re.finditer(r'From KV Require (?:Import|Export) ([^.]*)\.', txt):
            for name in m.group(1).split():
                if name in index:
                    todo.append(index[name])
    return seen


def count_qed(files):
    n = 0
    for f in files:
        try:
            n += len(re.findall(r'\bQed\.', open(f, encoding='utf-8').read()))
        except OSError:
            pass
    return n


FORBIDDEN = re.compile(r'\b(Admitted|admit|Axiom|Axioms|Parameter|Parameters|Conjecture|Unset Guard Checking|'
                       r'bypass_check|Admit Obligations|Unset Positivity Checking|Unset Universe Checking)\b')


def forbidden_scan():
    hits = []
    for root, _, files in os.walk(COQ):
        for f in files:
            if f.endswith('.v'):
                path = os.path.join(root, f)
                txt = re.sub(r'\(\*.*?\*\)', '', open(path, encoding='utf-8').read(), flags=re.S)
                for m in FORBIDDEN.finditer(txt):
                    hits.append(f'{path}: {m.group(0)}')
    return hits


def build(prop_id, need_model=True, timeout=1200):
    """Regenerate coq/gen from /repo, re-check the property's theorems, rebuild bin/modelrun."""
    t0 = time.time()
    r = BuildResult()
    os.makedirs(os.path.join(VERIF, 'build'), exist_ok=True)
    lock = open(os.path.join(VERIF, 'build', '.lock'), 'w')
    fcntl.flock(lock, fcntl.LOCK_EX)
    try:
        rc, out = _run([sys.executable, os.path.join(VERIF, 'tools', 'translate.py')], timeout=120)
        for line in out.splitlines():
            if line.startswith('FAILED:'):
                r.translator_failed.append(line[7:])
            if line.startswith('CHANGED:'):
                r.translator_changed.append(line[8:])
        if rc not in (0, 2):
            r.translator_failed.append('translate.py crashed: ' + out[-300:])
        r.coq_log += out
        if not os.path.exists(os.path.join(COQ, 'Makefile.coq')):
            _run(['coq_makefile', '-f', '_CoqProject', '-o', 'Makefile.coq'], cwd=COQ)
        prop_v = os.path.join(COQ, 'props', f'{prop_id}.v')
        r.cone = _cone(prop_v)
        r.obligations = count_qed(r.cone)
        target = f'props/{prop_id}.vo'
        try:
            os.remove(os.path.join(COQ, target))   # force a fresh Print Assumptions
        except OSError:
            pass
        rc, out = _run(['make', '-f', 'Makefile.coq', '-j8', target], cwd=COQ, timeout=timeout)
        r.coq_log += out
        r.coq_ok = (rc == 0)
        hits = forbidden_scan()
        if hits:
            r.coq_ok = False
            r.failed_file = 'forbidden construct: ' + '; '.join(hits[:5])
        if rc != 0:
            m = re.search(r'File "\./([^"]+)", line (\d+)', out)
            r.failed_file = f'{m.group(1)}:{m.group(2)}' if m else (r.failed_file or target)
            ok_files = [f for f in r.cone if os.path.exists(f + 'o') and os.path.getmtime(f + 'o') >= os.path.getmtime(f)]
            r.discharged = count_qed(ok_files)
        else:
            r.discharged = r.obligations if not hits else 0
        # Print Assumptions output
        blocks = re.findall(r'(Closed under the global context|Axioms:\n(?:.+\n?)+?)(?=\n[A-Z]|\Z)', out)
        r.closed = out.count('Closed under the global context')
        r.assumptions = [b.strip() for b in blocks]
        try:
            r.theorems = re.findall(r'^Theorem (\w+)', open(prop_v, encoding='utf-8').read(), flags=re.M)
        except OSError:
            r.theorems = []
        if 'Axioms:' in out:
            # only stdlib axioms are tolerated and they must be named in the evidence
            pass
        if need_model:
            rc, out = _run(['make', '-s', 'modelrun'], cwd=VERIF, timeout=timeout)
            r.modelrun_ok = (rc == 0 and os.path.exists(MODELRUN))
            r.modelrun_log = out
        # drift
        try:
            cur = json.load(open(os.path.join(COQ, 'gen', 'FINGERPRINTS.json')))
            base = json.load(open(os.path.join(VERIF, 'harness', 'FINGERPRINTS.base.json')))
            r.drift = sorted(k for k in set(cur) | set(base) if cur.get(k) != base.get(k))
        except (OSError, ValueError):
            r.drift = []
    finally:
        fcntl.flock(lock, fcntl.LOCK_UN)
        lock.close()
    r.wall_s = time.time() - t0
    return r


# --------------------------------------------------------------------------- model process

def _hex(s):
    return s.encode('utf-8', 'surrogateescape').hex()


class Model:
    """bin/modelrun: batch interface (write all requests, read all answers)."""

    def __init__(self):
        self.calls = 0

    def batch(self, requests, chunk=20000):
        """requests: list of (cmd, [args]) -> list of answer strings"""
        out = []
        for i in range(0, len(requests), chunk):
            part = requests[i:i + chunk]
            data = ''.join(cmd + ''.join('\t' + _hex(a) for a in args) + '\n' for cmd, args in part)
            p = subprocess.run(['bash', '-c', 'ulimit -s unlimited 2>/dev/null; exec ' + MODELRUN],
                               input=data.encode(), stdout=subprocess.PIPE, stderr=subprocess.PIPE, timeout=3600)
            lines = p.stdout.decode().split('\n')
            if lines and lines[-1] == '':
                lines.pop()
            if len(lines) != len(part):
                raise RuntimeError(f'modelrun answered {len(lines)} of {len(part)} requests: {p.stderr.decode()[-300:]}')
            out.extend(bytes.fromhex(h).decode('utf-8', 'surrogateescape') for h in lines)
            self.calls += len(part)
        return out

    def one(self, cmd, *args):
        return self.batch([(cmd, list(args))])[0]


# --------------------------------------------------------------------------- check bookkeeping

def load_known():
    try:
        return json.load(open(os.path.join(VERIF, 'KNOWN_FINDINGS.json')))
    except OSError:
        return {'findings': [], 'fixed': []}


class Check:
    def __init__(self, prop_id, tier, seed, level='proof'):
        self.prop_id = prop_id
        self.tier = tier
        self.seed = seed
        self.level = level
        self.rng = random.Random(seed)
        self.t0 = time.time()
        self.violations = []           # dicts: clause, signature, witness, detail
        self.broken = []               # broken obligations / correspondences without a failing input (strings)
        self.evaluations = 0
        self.distinct = set()
        self.samples = []
        self.notes = {}
        self.histogram = {}
        self.rule = ''
        self.exhaustive = False
        self.traces_validated = 0
        self.disagreements_checked = 0
        self.build = None

    # ---- counting
    def case(self, key, nontrivial=True, kind=None):
        self.evaluations += 1
        if nontrivial:
            self.distinct.add(hashlib.sha1(repr(key).encode('utf-8', 'surrogateescape')).digest()[:8])
        if kind:
            self.histogram[kind] = self.histogram.get(kind, 0) + 1

    def sample(self, s, limit=6):
        if len(self.samples) < limit:
            self.samples.append(s)

    # ---- failures
    def violation(self, clause, signature, witness, detail=''):
        """A concrete input on which the PROPERTY fails on the implementation."""
        # listed findings must not crowd out new violations: at most 3 examples of each are kept, the cap of 200 applies
        # to the others
        if not hasattr(self, '_mine'):
            self._mine = [k for k in load_known().get('findings', []) if k['property'] == self.prop_id]
            self._known_kept = {}
        for k in self._mine:
            if k.get('clause') in (None, clause) and re.search(k['signature_regex'], signature):
                n = self._known_kept.get(k['id'], 0)
                self._known_kept[k['id']] = n + 1
                if n < 3:
                    self.violations.append({'clause': clause, 'signature': signature, 'witness': witness, 'detail': detail})
                return
        if sum(1 for v in self.violations if not v.get('_known')) < 200 + 3 * len(self._mine):
            self.violations.append({'clause': clause, 'signature': signature, 'witness': witness, 'detail': detail})

    def mismatch(self, what, witness, detail=''):
        """model and implementation disagree: the correspondence is broken at this input."""
        self.broken.append({'kind': 'correspondence', 'what': what, 'witness': witness, 'detail': detail})

    def obligation_broken(self, what):
        self.broken.append({'kind': 'obligation', 'what': what})

    # ---- verdict
    def finish(self):
        known = load_known()
        mine = [k for k in known.get('findings', []) if k['property'] == self.prop_id]
        os.makedirs(os.path.join(VERIF, 'replays'), exist_ok=True)
        os.makedirs(os.path.join(VERIF, 'evidence'), exist_ok=True)
        lines = []
        unknown = []
        known_hit = {}
        for v in self.violations:
            hit = None
            for k in mine:
                if k.get('clause') in (None, v['clause']) and re.search(k['signature_regex'], v['signature']):
                    hit = k
                    break
            if hit:
                known_hit.setdefault(hit['id'], (hit, v))
            else:
                unknown.append(v)
        for kid, (k, v) in sorted(known_hit.items()):
            lines.append(f"KNOWN-FINDING: property={self.prop_id} {kid} {k['what']} (e.g. {v['signature']})")
        exit_code = 0
        seen_sig = set()
        for v in unknown:
            sig = (v['clause'], v['signature'])
            if sig in seen_sig:
                continue
            seen_sig.add(sig)
            h = hashlib.sha1(json.dumps(v, sort_keys=True, default=str).encode()).hexdigest()[:10]
            path = os.path.join(VERIF, 'replays', f'{self.prop_id}-{h}.json')
            with open(path, 'w') as f:
                json.dump({'property': self.prop_id, 'kind': 'failing-input', **v,
                           'seed': self.seed, 'tier': self.tier}, f, indent=1, default=str)
            lines.append(f'VIOLATION property={self.prop_id} replay={path}')
            exit_code = 1
            if len(seen_sig) >= 5:
                break
        if self.broken and not unknown:
            # a proof obligation / the correspondence no longer checks and the search found no failing input
            h = hashlib.sha1(json.dumps(self.broken, sort_keys=True, default=str).encode()).hexdigest()[:10]
            path = os.path.join(VERIF, 'replays', f'{self.prop_id}-broken-{h}.json')
            with open(path, 'w') as f:
                json.dump({'property': self.prop_id, 'kind': 'no-longer-checks', 'broken': self.broken[:20],
                           'known_findings_reproduced': sorted(known_hit),
                           'seed': self.seed, 'tier': self.tier,
                           'note': 'the theorem / correspondence named here no longer checks against the current '
                                   'source; the search over model and implementation found no input on which the '
                                   'property itself fails'}, f, indent=1, default=str)
            lines.append(f'VIOLATION property={self.prop_id} replay={path} no-failing-input-found')
            exit_code = 1
        elif self.broken and unknown:
            # the failing input is the replay; record what broke alongside
            pass
        self.write_evidence(len(unknown) + (1 if self.broken and not unknown else 0), known_hit)
        for l in lines:
            print(l)
        b = self.build
        print(f'[{self.prop_id}] tier={self.tier} seed={self.seed} evaluations={self.evaluations} '
              f'distinct={len(self.distinct)} obligations={b.discharged if b else 0}/{b.obligations if b else 0} '
              f'violations={len(unknown)} broken={len(self.broken)} known={len(known_hit)} '
              f'wall={time.time() - self.t0:.1f}s')
        return exit_code

    def write_evidence(self, nviol, known_hit):
        b = self.build
        cov = {
            'evaluations': self.evaluations,
            'distinct_nontrivial': len(self.distinct),
            'rule': self.rule,
            'samples': self.samples or ['(none)'],
            'exhaustive': self.exhaustive,
            'histogram': self.histogram,
            'traces_validated_against_impl': self.traces_validated,
            'disagreements_checked': self.disagreements_checked,
            'programs': max(1, self.evaluations),
        }
        if b is not None:
            cov.update({
                'obligations': max(1, b.obligations),
                'discharged': b.discharged,
                'checker_cmd': f'/venv/bin/python tools/translate.py && make -C coq -f Makefile.coq props/{self.prop_id}.vo '
                               f'(coqc 8.16.1, full .vo build)',
                'trusted_base': TRUSTED_BASE,
                'theorems': b.theorems,
                'print_assumptions': b.assumptions[:40],
                'closed_under_global_context': b.closed,
                'translator_regenerated': b.translator_changed,
                'translator_failed': b.translator_failed,
                'source_drift': b.drift,
                'build_wall_s': round(b.wall_s, 1),
            })
        cov.update(self.notes)
        ev = {
            'property_id': self.prop_id,
            'tier': self.tier,
            'seed': self.seed,
            'level': self.level,
            'coverage': cov,
            'assumptions': [
                'the Gallina model mirrors the python code; agreement is checked by this run on the cases counted above',
                'CPython 3.12 semantics of str/list/dict/sorted/csv as documented',
            ],
            'wall_s': round(time.time() - self.t0, 2),
            'violations': nviol,
            'known_findings_reproduced': sorted(known_hit),
            'broken': self.broken[:10],
        }
        path = os.path.join(VERIF, 'evidence', f'{self.prop_id}.json')
        tmp = path + '.tmp'
        with open(tmp, 'w') as f:
            json.dump(ev, f, indent=1, default=str)
        os.replace(tmp, path)


THOROUGH_SCALE = int(os.environ.get('VERIF_THOROUGH_SCALE', '6'))


def budget(chk, full, quick_n, full_n):
    """number of generated cases: quick tier on an unchanged tree -> quick_n; quick tier when the anchored source drifted or
    an obligation broke -> full_n; thorough tier -> full_n * THOROUGH_SCALE"""
    if chk.tier == 'thorough':
        return full_n * THOROUGH_SCALE
    return full_n if full else quick_n


def standard_build(chk, need_model=True):
    """Run the build for a check and register broken obligations."""
    b = build(chk.prop_id, need_model=need_model)
    chk.build = b
    if b.translator_failed:
        chk.obligation_broken('translator: ' + ', '.join(b.translator_failed))
    if not b.coq_ok:
        tail = '\n'.join(b.coq_log.strip().splitlines()[-12:])
        chk.obligation_broken(f'coq: props/{chk.prop_id}.vo does not compile ({b.failed_file}): {tail}')
    elif b.closed < len(b.theorems):
        # some theorem depends on an axiom: must be a named stdlib axiom (see DESIGN section 6)
        chk.notes['axioms_reported'] = b.assumptions
    if need_model and not b.modelrun_ok:
        chk.obligation_broken('modelrun: the executable model does not build: ' + b.modelrun_log[-400:])
    if chk.tier == 'thorough' and b.coq_ok and os.environ.get('VERIF_SKIP_COQCHK') != '1':
        # independent re-check of the compiled theorems and everything they depend on; lists the axioms they rely on
        t0 = time.time()
        rc, out = _run(['coqchk', '-silent', '-o', '-R', '.', 'KV', f'KV.props.{chk.prop_id}'], cwd=COQ, timeout=3000)
        m = re.search(r'\* Axioms:(.*?)\n\s*\n\* Constants', out, flags=re.S)
        axioms = ' '.join(m.group(1).split()) if m else '?'
        chk.notes['coqchk'] = {'exit': rc, 'axioms': axioms, 'wall_s': round(time.time() - t0, 1),
                               'summary': [l.strip() for l in out.splitlines() if l.startswith('*')][:8]}
        if rc != 0:
            chk.obligation_broken('coqchk rejects props/%s.vo: %s' % (chk.prop_id, out[-300:]))
        elif axioms not in ('<none>',):
            chk.notes['axioms_reported_by_coqchk'] = axioms
    return b
