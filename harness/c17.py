"""C17 - Token queries agree with the tree and with each other.

proof         : coq/props/C17.v - on the model of the queries, for every document: filtered listing = filter of the
                full listing by the closure of the filter; unique listing = first occurrences (no encoding twice,
                same set); frequency counts sum to the listing; the listing visits every node reachable from the
                root in pre-order
correspondence: get_all_tokens / get_unique_tokens / frequencies / get_metacomments / get_spine_ids / is_monophonic /
                measures_count of kernpy vs the extracted model, per document x category filters x comment keys
monitor       : kernpy against an independent reading of the source text (spine-path order), and the listings
                against each other
"""
import json
import random

from harness import core, docs, engine
from harness.docs import C1, C2, C3


def expected_order(text):
    """token texts in the order the property states: global comments before the header, each spine depth
    first (left to right, through splits and joins), then all later global comments"""
    lines = [l for l in text.splitlines() if l != '']
    pre, post, rows = [], [], []
    seen_header = False
    for l in lines:
        if l.split('\t')[0].startswith('!!'):
            (post if seen_header else pre).append(l.split('\t')[0].strip())
        else:
            seen_header = True
            rows.append(l.split('\t'))
    paths = engine.reference_paths(rows)
    # children lists
    kids = {}
    for r, row in enumerate(rows):
        for i, _ in enumerate(row):
            par = paths[r][i][0]
            if par is not None:
                kids.setdefault((r - 1, par), []).append((r, i))
    out = []

    def dfs(start):
        stack = [start]
        while stack:
            r, i = stack.pop()
            out.append((r, i))
            stack.extend(reversed(kids.get((r, i), [])))
    for i in range(len(rows[0]) if rows else 0):
        dfs((0, i))
    return pre, [(r, i, rows[r][i]) for r, i in out], post


def worker(kp, job):
    seed, idx = job
    rng = random.Random(seed * 7919 + idx)
    TC = kp.TokenCategory
    CATS = [c.name for c in TC]
    g = docs.gen_doc(rng, max_spines=4, early_end=(0.25 if idx % 4 == 1 else 0.0))
    text = g.text
    bad = docs.bad_cells(kp, text)
    records = []
    try:
        doc, errs = kp.loads(text)
    except Exception as e:
        return {'records': [engine.rec('loads', impl='raise:' + type(e).__name__, req=('import', [C1.join(bad), text]), key=text)]}
    viol = []
    # ---- against the source text
    pre, body, post = expected_order(text)
    allt0 = doc.get_all_tokens()
    allt = list(allt0)
    if idx % 2 == 1:
        # the caller owns the returned list: emptying or reordering it must not show in any later query
        rng.choice([allt0.clear, allt0.reverse, lambda: allt0.pop() if allt0 else None])()
    nodes_by_pos = {}
    for si, stage in enumerate(doc.tree.stages):
        for pi, nd in enumerate(stage):
            nodes_by_pos[id(nd.token)] = (si, pi)
    want = [('meta', p) for p in pre] + [('cell', r, i) for r, i, _ in body] + [('meta', p) for p in post]
    if len(allt) != len(want):
        viol.append(('listing-size', f'get_all_tokens lists {len(allt)} tokens for {len(want)} cells and comment lines', {'text': text}))
    else:
        # map source rows to stages
        lines = [l for l in text.splitlines() if l != '']
        stage_of_row = [k + 1 for k, l in enumerate(lines) if not l.split('\t')[0].startswith('!!')]
        for k, (t, w) in enumerate(zip(allt, want)):
            if w[0] == 'meta':
                ok = type(t).__name__ == 'MetacommentToken' and t.encoding == w[1]
            else:
                ok = nodes_by_pos.get(id(t)) == (stage_of_row[w[1]], w[2])
            if not ok:
                viol.append(('listing-order', f'position {k} of get_all_tokens is {t.encoding!r}, expected {w}', {'text': text}))
                break
    if len({id(t) for t in allt}) != len(allt):
        viol.append(('listing-once', 'a token is listed twice', {'text': text}))
    metas = doc.get_metacomments()
    if metas != pre + post:
        viol.append(('metacomments', f'get_metacomments() = {metas}, the !! lines are {pre + post}', {'text': text}))
    # ---- listings against each other, per filter
    filters = [None, []] + [[c] for c in rng.sample(CATS, 5)] + [rng.sample(CATS, rng.randint(2, 5)) for _ in range(2)] + [['CORE'], ['NOTE_REST']]
    # large filters: everything but one category, everything but a few (an include list is the only way to say "all but")
    filters += [[c for c in CATS if c != x] for x in rng.sample(CATS, 1)]
    drop = set(rng.sample(CATS, rng.randint(2, 20)))
    filters += [[c for c in CATS if c not in drop]]
    for f in filters:
        fa = None if f is None else [TC[c] for c in f]
        key = rng.choice([None, 'COM', 'O', 'ONB', 'SEGMENT', '!SEGMENT', '!COM', 'S', '!'])
        if idx % 3 == 0 and f:
            # an export of the document with this very category set as its EXCLUSION (and some unrelated inclusion) comes
            # first: the queries filtered by the set answer as without it (selection tables are not the exporter's to edit)
            try:
                kp.dumps(doc, include={TC[c] for c in rng.sample(CATS, rng.randint(1, 3))}, exclude={TC[c] for c in f})
                kp.dumps(doc, include={TC[c] for c in f}, exclude={TC[c] for c in rng.sample(CATS, rng.randint(1, 3))})
            except Exception:
                pass
        try:
            lst = doc.get_all_tokens(filter_by_categories=fa)
            uni = doc.get_unique_tokens(filter_by_categories=fa)
            fr = doc.frequencies(fa)
            enc = doc.get_all_tokens_encodings(filter_by_categories=fa)
            mc = doc.get_metacomments(key)
            ids = doc.get_spine_ids()
            mono = kp.is_monophonic(doc)
            try:
                mcount = str(doc.measures_count())
            except Exception:
                mcount = 'err:Exception'
            impl = 'ok:' + C1.join([C2.join(t.encoding for t in lst), C2.join(t.encoding for t in uni),
                                    C2.join(f'{k}{C3}{v["occurrences"]}{C3}{v["category"]}' for k, v in fr.items()),
                                    C2.join(mc), ','.join(map(str, ids)), str(mono), mcount])
        except Exception as e:
            impl = 'err:' + type(e).__name__
            viol.append(('query-raises', f'a query raised {type(e).__name__} (filter {f})', {'text': text, 'filter': f}))
            records.append(engine.rec('queries', impl=impl, req=None, viol=viol, key=(text, tuple(f or ())))); viol = []
            continue
        from harness import spec
        closure = set(CATS) if f is None else spec.closure(kp, f, None)      # from the documented tree, not from valid()
        sub = [t for t in allt if t.category.name in closure]
        if [id(t) for t in lst] != [id(t) for t in sub]:
            viol.append(('filtered-subsequence', f'filter {f}: the listing is not the sub-sequence of the full listing', {'text': text, 'filter': f}))
        first = []
        seen = set()
        for t in lst:
            if t.encoding not in seen:
                seen.add(t.encoding)
                first.append(t)
        if [id(t) for t in uni] != [id(t) for t in first]:
            viol.append(('unique-first', f'filter {f}: unique listing is not the first occurrences', {'text': text, 'filter': f}))
        if sum(v['occurrences'] for v in fr.values()) != len(lst) or set(fr) != {t.encoding for t in lst}:
            viol.append(('frequencies', f'filter {f}: frequency counts do not sum to the listing', {'text': text, 'filter': f}))
        if enc != [t.encoding for t in lst]:
            viol.append(('encodings', f'filter {f}: get_all_tokens_encodings differs from the listing', {'text': text, 'filter': f}))
        if key is not None and mc != [m for m in pre + post if m.startswith('!!!' + key)]:
            viol.append(('metacomments-key', f'get_metacomments({key!r}) = {mc}', {'text': text, 'key': key}))
        if key is not None:
            # clear=True strips the "!!!KEY: " prefix from the RESULT only: asked twice, the answer is the same
            try:
                c1 = doc.get_metacomments(key, clear=True)
                c2 = doc.get_metacomments(key, clear=True)
                wantc = [m.replace(f'!!!{key}: ', '') for m in pre + post if m.startswith('!!!' + key)]
                if c1 != wantc or c2 != wantc or doc.get_metacomments() != pre + post:
                    viol.append(('metacomments-key', f'get_metacomments({key!r}, clear=True) = {c1}, then {c2}; expected {wantc}', {'text': text, 'key': key}))
            except Exception as e:
                viol.append(('query-raises', f'get_metacomments({key!r}, clear=True) raised {type(e).__name__}', {'text': text, 'key': key}))
        if idx % 2 == 1:
            # ... the same for every other listing: edit what was returned, ask again, the answers are the same
            saved = ([id(t) for t in lst], [id(t) for t in uni], list(enc), list(mc), {k: dict(v) for k, v in fr.items()})
            how = rng.randrange(3)
            for res in (lst, uni, enc, mc):
                if how == 0:
                    res.clear()
                elif how == 1:
                    res.reverse()
                elif res:
                    res.pop(rng.randrange(len(res)))
            fr.clear()
            try:
                again = ([id(t) for t in doc.get_all_tokens(filter_by_categories=fa)], [id(t) for t in doc.get_unique_tokens(filter_by_categories=fa)],
                         list(doc.get_all_tokens_encodings(filter_by_categories=fa)), list(doc.get_metacomments(key)),
                         {k: dict(v) for k, v in doc.frequencies(fa).items()})
                names = ['get_all_tokens', 'get_unique_tokens', 'get_all_tokens_encodings', 'get_metacomments', 'frequencies']
                for nm, a, b in zip(names, saved, again):
                    if a != b:
                        viol.append(('listing-order', f'edited-result: filter {f}: after the caller edited the returned results, {nm} answers differently on the same document', {'text': text, 'filter': f}))
                        break
                if kp.is_monophonic(doc) != mono:
                    viol.append(('monophonic', f'edited-result: is_monophonic changed after the caller edited returned listings', {'text': text}))
            except Exception as e:
                viol.append(('query-raises', f'edited-result: a query raised {type(e).__name__} after the caller edited returned listings (filter {f})', {'text': text, 'filter': f}))
        nkern = sum(1 for h in g.headers if h == '**kern')
        want_mono = (nkern == 1 and not any(type(t).__name__ == 'ChordToken' for t in allt)
                     and any(type(t).__name__ == 'NoteRestToken' for t in allt))
        if mono != want_mono:
            viol.append(('monophonic', f'is_monophonic = {mono} with {nkern} **kern spines', {'text': text}))
        records.append(engine.rec('queries', impl=impl,
                                  req=('queries', [C1.join(bad), text, '-' if f is None else ','.join(f), '-' if key is None else key]),
                                  viol=viol, kind='filter:' + ('none' if f is None else str(len(f))), key=(text, tuple(f or ()), key),
                                  sample={'text': text, 'filter': f, 'listed': len(lst)} if idx % 37 == 0 and f is None else None))
        viol = []
    return {'records': records}


def long_worker(kp, job):
    """a LONG score (well over a thousand lines: the tree has one level per line) - every query still answers, the comment
    query returns all the !! lines in order, the listing has one token per cell and comment line"""
    seed, idx = job
    rng = random.Random(seed * 715225739 + idx)
    nrows = rng.randint(1150, 1400)
    lines = ['!!!COM: long score', '**kern\t**text', '*clefG2\t*', '*M4/4\t*']
    notes = ['4c', '4d', '8e', '2f', '4g', '4a', '4b', '4cc']
    m = 1
    for k in range(nrows):
        if k % 4 == 0:
            lines.append(f'={m}\t={m}')
            m += 1
        if k % 97 == 5:
            lines.append(f'!!!section: part {k}')
        if k % 211 == 7:
            lines.append('!! ---')
        lines.append(rng.choice(notes) + '\t' + rng.choice(['la', 'li', '.', 'lo']))
    lines += ['==\t==', '*-\t*-', '!!!END: done']
    text = '\n'.join(lines) + '\n'
    viol = []
    w = {'text_lines': len(lines), 'first_lines': lines[:6]}
    try:
        doc, errs = kp.loads(text)
        metas = [l for l in lines if l.startswith('!!')]
        cells = sum(len(l.split('\t')) for l in lines if not l.startswith('!!'))
        got = doc.get_metacomments()
        if got != metas:
            viol.append(('metacomments', f'long score ({len(lines)} lines): get_metacomments returns {len(got)} lines, the text has {len(metas)}', w))
        if doc.get_metacomments('section') != [x for x in metas if x.startswith('!!!section')]:
            viol.append(('metacomments-key', f'long score ({len(lines)} lines): keyed comment query differs from the text', w))
        allt = doc.get_all_tokens()
        if len(allt) != cells + len(metas):
            viol.append(('listing-size', f'long score ({len(lines)} lines): get_all_tokens lists {len(allt)} tokens for {cells + len(metas)} cells and comment lines', w))
        fr = doc.frequencies()
        if sum(v['occurrences'] for v in fr.values()) != len(allt):
            viol.append(('frequencies', f'long score ({len(lines)} lines): frequency counts do not sum to the listing', w))
        uni = doc.get_unique_tokens()
        if len({t.encoding for t in uni}) != len(uni) or {t.encoding for t in uni} != {t.encoding for t in allt}:
            viol.append(('unique-first', f'long score ({len(lines)} lines): unique listing inconsistent with the listing', w))
        if kp.is_monophonic(doc) is not True:
            viol.append(('monophonic', 'long score: is_monophonic is not True for one **kern spine without chords', w))
    except BaseException as e:
        if e.__class__.__name__ == 'JobTimeout':
            raise
        viol.append(('query-raises', f'long score ({len(lines)} lines): {type(e).__name__} raised by a query', w))
    return {'records': [engine.rec('long', viol=viol[:2], kind='long-score', key=('long', idx, len(lines)))]}


def run(chk):
    b = core.standard_build(chk)
    model = core.Model() if b.modelrun_ok else None
    full = chk.tier == 'thorough' or bool(b.drift) or not b.proof_ok or not b.modelrun_ok
    n = core.budget(chk, full, 70, 500)
    chk.rule = ('generated documents (1-4 spines, splits and joins, global comments before / inside / after the spines) x '
                '13 category filters (none, the empty list, singles, random small sets, all-but-one, all-but-a-few), plus long scores of 1200-1500 lines (queries on kernpy alone) x comment keys; non-trivial = distinct (text, filter, key)')
    results = engine.pmap(worker, [(chk.seed, i) for i in range(n)] )
    results += engine.pmap(long_worker, [(chk.seed, i) for i in range(2 if not full else 6)], nproc=6)
    engine.settle(chk, results, model)
    chk.disagreements_checked = len(chk.broken)


def replay(path):
    rec = json.load(open(path))
    print(json.dumps(rec, indent=1)[:2500])
    return 0
