"""C08 - A measure excerpt is a self-contained, equivalent score.

proof         : coq/props/C08.v (partial, on the exporter model): an excerpt with to_measure ends with a row of spine
                terminators sized by the spine operators of the row before it; range validation; the excerpt body is the
                stage range of C07.  The composition import o export o import is NOT proved; it is decided for the claimed
                core class by correspondence and monitors.
correspondence: dumps(doc, from_measure=a, to_measure=b, spine_types=[**kern]) of kernpy vs the extracted model (same
                requests as C07, all classes)
monitor       : every excerpt: header line first, cell counts consistent with its spine operators, every spine terminated,
                re-import without errors, and for every note the clef / key signature / meter in force equal to those in
                the full score (independent path walk on both texts).  Core class (signatures before the first measure,
                splits re-joined before the next barline, kern-only): violations are reported; other classes: findings.
"""
import json
import random

from harness import core, docs, engine, spec
from harness.docs import C1


def sig_kind(t):
    if t.startswith('*clef'):
        return 'clef'
    if t.startswith('*k['):
        return 'key'
    if t.startswith('*met('):
        return 'met'
    if t.startswith('*MM'):
        return None
    if t.startswith('*M') and len(t) > 2 and t[2].isdigit():
        return 'meter'
    return None


def wellformed_and_signatures(text):
    """-> (problem or None, list of (note text, signatures in force)) by an independent walk over the text"""
    rows = [l.split('\t') for l in text.split('\n') if l and not l.startswith('!!')]
    if not rows:
        return 'empty', []
    if not all(c.startswith('**') for c in rows[0]):
        return 'the first line is not a header line', []
    try:
        paths = engine.reference_paths(rows)
    except ValueError as e:
        return f'cell count inconsistent with the spine operators: {e}', []
    # cell count must EQUAL the live paths
    live = len(rows[0])
    for r, row in enumerate(rows):
        if r > 0 and len(row) != live:
            return f'line {r + 1} has {len(row)} cells for {live} live spine paths', []
        live = len(row) + sum(1 for c in row if c in ('*^', '*+')) - sum(1 for c in row if c == '*-')
        k = 0
        while k < len(row):
            if row[k] == '*v':
                j = k
                # a join merges the adjacent sub-spines of ONE spine; two runs side by side (*v *v *v *v over two spines)
                # are two joins (C02: merged sub-spines from the first join cell of their own spine)
                while j + 1 < len(row) and row[j + 1] == '*v' and paths[r][j + 1][1] == paths[r][k][1]:
                    j += 1
                if j == k:
                    return f'line {r + 1} holds a single *v: a join needs at least two adjacent sub-spines', []
                live -= (j - k)
                k = j + 1
            else:
                k += 1
    if live != 0:
        return f'{live} spine paths are not terminated', []
    notes = []
    state = []
    for r, row in enumerate(rows):
        cur = []
        for i, cell in enumerate(row):
            par = paths[r][i][0]
            st = dict(state[r - 1][par]) if (par is not None and r > 0) else {}
            k = sig_kind(cell)
            if k:
                st[k] = cell
            cur.append(st)
            if cell[:1] not in '*=!.' and not cell.startswith('**'):
                notes.append((cell, dict(st)))
        state.append(cur)
    return None, notes


def worker(kp, job):
    seed, idx = job
    rng = random.Random(seed * 179424673 + idx)
    cls = ['core', 'core', 'core', 'other', 'other', 'mixed'][idx % 6]
    # every fourth core document lets a spine end before the others (its terminator alone on a row)
    early = 0.35 if (cls == 'core' and idx % 4 == 1) else 0.0
    g = docs.gen_doc(rng, kern_only=(cls != 'mixed'), core=(cls in ('core', 'mixed')), max_spines=3, measures=rng.randint(2, 4),
                     comments=(idx % 2 == 0), mid_signatures=(cls == 'other'), splits=True, rest_in_chord=0, early_end=early, tandem_after_barline=(0.4 if idx % 2 == 1 else 0.0))
    text = g.text
    bad = docs.bad_cells(kp, text)
    try:
        doc, errs = kp.loads(text)
    except Exception as e:
        # the generated score obeys the spine-path rules: it is its own widest excerpt, and it must (re-)import
        v_ = [('re-import', f'a well-formed generated score (the excerpt 1..last of itself) does not import: {type(e).__name__}', {'text': text})]
        return {'records': [engine.rec('loads', impl='raise:' + type(e).__name__, req=('import', [C1.join(bad), text]), key=text, viol=v_)]}
    M = len(doc.measure_start_tree_stages)
    full = docs.impl_dumps(kp, doc, spine_types=['**kern'])
    _, full_notes = wellformed_and_signatures(full[3:]) if full.startswith('ok:') else (None, [])
    records = []
    for a in range(1, M + 1):
        for b in range(a, M + 1):
            o = dict(from_measure=a, to_measure=b, spine_types=['**kern'])
            out = docs.impl_dumps(kp, doc, **o)
            viol = []
            w = {'text': text, 'from': a, 'to': b}
            tag = '' if cls == 'core' else f'class={cls}: '
            if not out.startswith('ok:'):
                viol.append(('excerpt-raises', f'{tag}from_measure={a} to_measure={b} raised {out}', w))
            else:
                ex = out[3:]
                prob, notes = wellformed_and_signatures(ex)
                if prob:
                    viol.append(('well-formed', f'{tag}excerpt {a}..{b}: {prob}', w))
                else:
                    try:
                        d2, e2 = kp.loads(ex)
                        if e2:
                            viol.append(('reimport', f'{tag}excerpt {a}..{b} re-imports with {len(e2)} errors ({e2[0].encoding!r})', w))
                    except Exception as e:
                        viol.append(('reimport', f'{tag}excerpt {a}..{b} does not re-import: {type(e).__name__}', w))
                    # the notes of the excerpt are a contiguous run of the notes of the full export: same signatures in force
                    texts = [n for n, _ in notes]
                    ftexts = [n for n, _ in full_notes]
                    pos = None
                    for k in range(len(ftexts) - len(texts) + 1):
                        if ftexts[k:k + len(texts)] == texts:
                            pos = k
                            break
                    if texts and pos is None:
                        viol.append(('same-notes', f'{tag}excerpt {a}..{b}: its notes are not a run of the notes of the full score', w))
                    elif texts:
                        # ambiguous alignment (repeated material) is resolved with the measure segmentation of the oracle
                        cands = [k for k in range(len(ftexts) - len(texts) + 1) if ftexts[k:k + len(texts)] == texts]
                        ok_any = False
                        first_bad = None
                        for k in cands:
                            good = True
                            for (n1, s1), (n2, s2) in zip(notes, full_notes[k:k + len(notes)]):
                                if s1 != s2:
                                    good = False
                                    first_bad = (n1, s1, s2)
                                    break
                            if good:
                                ok_any = True
                                break
                        if not ok_any:
                            n1, s1, s2 = first_bad
                            viol.append(('signatures-in-force', f'{tag}excerpt {a}..{b}: note {n1!r} is governed by {s1} in the excerpt and by {s2} in the full score', w))
            records.append(engine.rec('excerpt', impl=out, req=docs.model_dumps_req(bad, text, **o), viol=viol, kind=cls, key=(text, a, b),
                                      sample={'text': text, 'range': [a, b], 'excerpt': out[3:]} if (idx % 31 == 0 and a == 1 and b == 1) else None))
    return {'records': records}


def long_worker(kp, job):
    """a LONG score (some 300 measures, signatures before the first measure): excerpts far down and up to the last measure
    are well formed, re-import without errors and keep the signatures in force"""
    seed, idx = job
    rng = random.Random(seed * 553105253 + idx)
    nm = rng.randint(262, 320)
    lines = ['**kern\t**kern', '*clefG2\t*clefF4', '*k[f#]\t*k[f#]', '*M3/4\t*M3/4']
    notes = ['4c', '4d', '8e', '2f', '4g', '4a', '4b', '4cc']
    for m in range(1, nm + 1):
        lines.append(f'={m}\t={m}')
        for _ in range(rng.randint(1, 2)):
            lines.append(rng.choice(notes) + '\t' + rng.choice(notes))
    lines += ['==\t==', '*-\t*-']
    text = '\n'.join(lines) + '\n'
    viol = []
    w = {'text_lines': len(lines), 'measures_written': nm, 'first_lines': lines[:6]}
    try:
        doc, errs = kp.loads(text)
        M = doc.measures_count()
        want_sigs = {'clef', 'key', 'meter'}
        for a, b_ in [(M, M), (M - 1, M), (256, 257), (257, 258), (rng.randint(258, M - 2), M), (2, 3)]:
            tag = f'long score of {M} measures, excerpt {a}..{b_}'
            try:
                out = kp.dumps(doc, from_measure=a, to_measure=b_)
            except Exception as e:
                viol.append(('excerpt-raises', f'{tag} raised {type(e).__name__}', dict(w, pair=[a, b_])))
                continue
            prob, notes_ = wellformed_and_signatures(out)
            if prob:
                viol.append(('well-formed', f'{tag}: {prob}', dict(w, pair=[a, b_])))
                continue
            try:
                d2, e2 = kp.loads(out)
                if e2:
                    viol.append(('reimport', f'{tag} re-imports with {len(e2)} errors', dict(w, pair=[a, b_])))
            except Exception as e:
                viol.append(('reimport', f'{tag} does not re-import: {type(e).__name__}', dict(w, pair=[a, b_])))
            for n1, s1 in notes_:
                if set(s1) != want_sigs or s1.get('clef') not in ('*clefG2', '*clefF4') or s1.get('key') != '*k[f#]' or s1.get('meter') != '*M3/4':
                    viol.append(('signatures-in-force', f'{tag}: note {n1!r} is governed by {s1}, in the full score by a clef, *k[f#] and *M3/4', dict(w, pair=[a, b_])))
                    break
    except BaseException as e:
        if e.__class__.__name__ == 'JobTimeout':
            raise
        viol.append(('excerpt-raises', f'long score ({len(lines)} lines): {type(e).__name__}', w))
    return {'records': [engine.rec('long', viol=viol[:3], kind='long-score', key=('long', idx, len(lines)))]}


def run(chk):
    b = core.standard_build(chk)
    model = core.Model() if b.modelrun_ok else None
    full = chk.tier == 'thorough' or bool(b.drift) or not b.proof_ok or not b.modelrun_ok
    n = core.budget(chk, full, 90, 480)
    chk.rule = ('generated **kern documents, half in the claimed core class (signatures before the first measure, splits '
                're-joined before the next barline; some with a spine that ends before the others), the rest with mid-score signature changes, splits left open across barlines, '
                'or non-kern spines beside the kern ones, x EVERY measure range; plus scores of 260-320 measures with excerpts far down and up to the last measure; non-trivial = distinct (text, a, b)')
    results = engine.pmap(worker, [(chk.seed, i) for i in range(n)])
    results += engine.pmap(long_worker, [(chk.seed, i) for i in range(2 if not full else 6)], nproc=6)
    engine.settle(chk, results, model)
    chk.disagreements_checked = len(chk.broken)


def replay(path):
    rec = json.load(open(path))
    import kernpy as kp
    print(json.dumps(rec, indent=1)[:2500])
    w = rec.get('witness', {})
    if isinstance(w, dict) and 'text' in w and 'from' in w:
        doc, errs = kp.loads(w['text'])
        print(docs.impl_dumps(kp, doc, from_measure=w['from'], to_measure=w['to'], spine_types=['**kern']))
    return 0
