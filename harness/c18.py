"""C18 - Every spine type imports every token without loss.

proof         : coq/props/C18.v - for every claimed header (also unknown ones), every non-empty cell and ANY
                recogniser: never fails; shared structure is the kern token itself; everything else is
                SimpleToken(text, own category).  The accepted sets, fallback categories, the polarity of the
                `any(...)` test and the createImporter dispatch are regenerated from the source on every run.
correspondence: createImporter(h).import_token(text) vs the extracted wrapper model (the kern outcome of the cell
                is handed to the model) on headers x corpus (every grammar alternative, free text, random strings)
monitor       : the property on kernpy directly; whole documents under different headers (barline detection)
"""
import json
from harness import core, corpus

HEADERS = ['**text', '**dynam', '**dyn', '**harm', '**mxhm', '**fing', '**silbe', '**foo', '**', 'text', '**Kern', '**kern2']
OWN = {'**text': 'LYRICS', '**dynam': 'DYNAMICS', '**dyn': 'DYNAMICS', '**harm': 'HARMONY', '**mxhm': 'HARMONY', '**fing': 'FINGERING'}
SHARED = ['STRUCTURAL', 'SIGNATURES', 'EMPTY', 'BARLINES', 'IMAGE_ANNOTATIONS', 'COMMENTS']


def describe(tok):
    d = f'{type(tok).__name__}:{tok.category.name}:{tok.encoding}'
    if hasattr(tok, 'hidden'):
        d += f':hidden={tok.hidden}'
    try:
        d += ':' + tok.export()
    except Exception as e:
        d += ':export-raises-' + type(e).__name__
    return d


def run(chk):
    b = core.standard_build(chk)
    import kernpy as kp
    TC = kp.TokenCategory
    model = core.Model() if b.modelrun_ok else None
    full = chk.tier == 'thorough' or bool(b.drift) or not b.proof_ok or not b.modelrun_ok
    cells = corpus.all_grammar() + corpus.FREE_TEXT + corpus.random_strings(chk.rng, 1500 if full else 150)
    # LONG instances of the shared structure and long free text (lengths around 16, 32, 64, 128, 256 characters)
    long_cells = ['*xywh-page_0012.jpg:1034,2210,1650,1310', '*xywh-b1f0e6a2-7c1d-4e0a-9a57:12,40,2000,380', '*M2/4+3/8+2/4+3/8+2/4+3/8+2/4+3/8',
                  '*xywh-' + 'p' * 60 + ':1,2,3,4', '*xywh-' + 'q' * 130 + ':10,20,30,40', '*xywh-' + 'r' * 260 + ':10,20,30,40',
                  '=' + '9' * 40, '*M' + '+'.join(['3/8'] * 40), 'la-' * 12, 'so ' * 25 + 'long', 'x' * 33, 'y' * 65, 'z' * 257]
    cells += long_cells
    # accented letters the kern lexer knows (NON_ENGLISH: page names of bounding boxes, tails the recogniser ignores) and some it does not
    cells += ['*xywh-p\u00e1gina1:10,20,30,40', '*xywh-\u00f1:1,2,3,4', '*xywh-se\u00e7\u00e3o:5,6,7,8', '*xywh-\u00dcber:1,2,3,4', '=2\u00f1', '=\u00e9', '==\u00fa',
              '=\uff11\uff12', '=\u0663', '=\u00b2', '=1\u0662', '*M\uff13/4', '4\uff43', '*clefG\uff12', '.\u3002', '\uff0e', '=\u0967',     # digits / letters / dots that only LOOK like kern
              '*clefG2\u00e1', '4c\u00e9', '*\u00f1', '\u00e1', 'can-\u00e7\u00f3', '*M3/4\u00f2']
    # damaged tokens: every proper prefix and every single-character deletion of the grammar's alternatives (a truncated
    # bounding box, a clef without its line ...) - the recogniser recovers from such cells in ways of its own
    gram = corpus.all_grammar()
    damaged = []
    for i, t in enumerate(gram):
        if full or i % 3 == chk.seed % 3 or t.startswith('*xywh'):
            damaged += [t[:k] for k in range(1, len(t))] + [t[:k] + t[k + 1:] for k in range(len(t))]
    cells += damaged
    cells = list(dict.fromkeys(c for c in cells if c != '' and '\t' not in c and '\n' not in c))
    headers = HEADERS + ['**' + ''.join(chk.rng.choice('abcxyz') for _ in range(4)) for _ in range(3 if full else 1)]
    # names NEAR a supported one (one more / one fewer character, other case): unknown types all the same - light corpus
    known = ['**kern', '**mens', '**root', '**text', '**harm', '**mxhm', '**dyn', '**dynam', '**fing']
    near = []
    for k_ in known:
        near += [k_ + 's', k_ + '2', k_ + 'ics', k_[:-1], k_.upper(), k_ + ' ']
    near = [h for h in dict.fromkeys(near) if h not in known and h not in headers]
    light = list(dict.fromkeys(c for c in corpus.all_grammar() + corpus.FREE_TEXT + long_cells if c != '' and '\t' not in c and '\n' not in c))
    headers = headers + near
    cells_of = {h: (light if h in near else cells) for h in headers}
    chk.rule = ('headers (6 supported non-kern types + unknown ones, plus ~45 names one edit away from a supported type on the grammar corpus) x cells: every alternative of the token grammar, '
                'free text, damaged tokens (every proper prefix and single-character deletion of the grammar alternatives; a '
                'third of them in the quick tier), random character strings; non-trivial = distinct (header, cell)')
    # kern outcome of every cell
    kern = {}
    for s in cells:
        try:
            kern[s] = kp.KernSpineImporter().import_token(s)
        except Exception:
            kern[s] = None
    from harness import spec as _spec
    spec_desc = _spec.documented_descendants()
    shared_set = set()
    for p in SHARED:
        shared_set |= spec_desc[p]
    reqs, obs = [], []
    for h in headers:
        own = OWN.get(h, 'OTHER')
        if model:
            cls = model.one('create_importer', h)
            impl_cls = type(kp.createImporter(h)).__name__
            if cls != 'ok:' + impl_cls:
                chk.mismatch('createImporter', h, f'impl={impl_cls} model={cls}')
        for s in cells_of[h]:
            k = kern[s]
            chk.case((h, s), kind=(k.category.name if k is not None else 'kern-error'))
            try:
                t = kp.createImporter(h).import_token(s)
                got = describe(t)
            except Exception as e:
                t, got = None, f'raise:{type(e).__name__}'
            # model-shaped observation
            # (a kern SimpleToken of the own category and the fallback token are the same observable value)
            ob = set()
            if t is None:
                ob.add('err')
            else:
                if k is not None and describe(k) == got:
                    ob.add('kept:' + t.category.name)
                if type(t).__name__ == 'SimpleToken' and t.encoding == s:
                    ob.add(f'simple:{t.category.name}|{s}')
                if not ob:
                    ob.add('other:' + got)
            obs.append((h, s, ob))
            reqs.append(('spine_import', [h, s, k.category.name if k is not None else 'ERR']))
            # the property itself
            if t is None:
                chk.violation('never-fails', f'createImporter({h!r}).import_token({s!r}) raised {got}', {'header': h, 'cell': s})
            elif k is not None and k.category.name in shared_set:
                if describe(k) != got:
                    chk.violation('shared-structure', f'{h}: {s!r} is {describe(k)} in **kern but {got}', {'header': h, 'cell': s})
            elif k is not None and own == k.category.name and describe(k) == got:
                pass   # a kern token that already has the type's own category is kept as it is
            elif not (type(t).__name__ == 'SimpleToken' and t.encoding == s and t.category.name == own and t.export() == s):
                chk.violation('verbatim', f'{h}: {s!r} -> {got}, expected SimpleToken({s!r}, {own})', {'header': h, 'cell': s})
    # ---- one importer instance per header over the whole corpus (in corpus order and reversed): same answers as fresh ones
    fresh = {}
    for h, s_, ob_ in obs:
        fresh[(h, s_)] = ob_
    for h in headers:
        for order in (cells_of[h], list(reversed(cells_of[h]))):
            imp = kp.createImporter(h)
            for s_ in order:
                chk.evaluations += 1
                try:
                    t = imp.import_token(s_)
                    got = {'kept:' + t.category.name} if (kern[s_] is not None and describe(kern[s_]) == describe(t)) else set()
                    if type(t).__name__ == 'SimpleToken' and t.encoding == s_:
                        got.add(f'simple:{t.category.name}|{s_}')
                    if not got:
                        got.add('other:' + describe(t))
                except Exception:
                    got = {'err'}
                if not (got & fresh[(h, s_)]):
                    chk.violation('history', f'{h}: one importer instance gives {sorted(got)} for {s_!r} after earlier cells, a fresh importer {sorted(fresh[(h, s_)])}',
                                  {'header': h, 'cell': s_})
                    break
    if model:
        for (h, s, ob), m in zip(obs, model.batch(reqs)):
            if m.startswith('err:') and 'err' in ob:
                continue
            if m not in ob:
                chk.mismatch('import_token', {'header': h, 'cell': s}, f'impl={sorted(ob)} model={m}')
    for h, s, ob in obs[::max(1, len(obs) // 6)]:
        chk.sample({'header': h, 'cell': s, 'result': sorted(ob)})
    try:
        from harness import docprops
        docprops.c18_document_level(chk, b)
    except ImportError:
        chk.notes['document_level'] = 'not run (document harness absent)'
    chk.traces_validated = chk.evaluations
    chk.disagreements_checked = len(chk.broken)


def replay(path):
    rec = json.load(open(path))
    import kernpy as kp
    w = rec.get('witness', {})
    print(json.dumps(rec, indent=1)[:1500])
    if isinstance(w, dict) and 'header' in w:
        try:
            print('now ->', describe(kp.createImporter(w['header']).import_token(w['cell'])))
        except Exception as e:
            print('now -> raises', type(e).__name__, e)
    return 0
