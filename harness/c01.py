"""C01 - Normalised export is a fixed point of import-then-export.

proof         : coq/props/C01.v - canonicity on the scanner/listener/export model: the exported signifier part of a
                note depends only on the SET of its signifiers (any order, slot, repetition); the duration / pitch /
                accidental part does not depend on the layout
correspondence: kernpy vs the extracted model on (a) the exhaustive single-character and pair sweep that validates the
                scanner's signifier tables, (b) dumps / dumps(eKern) / get_kern_from_ekern on generated documents
monitor       : the property itself on kernpy: idempotence of the default export, of the extended round trip, and
                equality of the exports of two layouts of the same note
"""
import json
import random

from harness import core, docs, engine, tokens
from harness.docs import C1


def relayout(rng, g):
    """a second document: every note / rest of g written with another layout of the same signifiers"""
    lines = []
    for kind, payload in g.lines:
        if kind == 'global':
            lines.append(payload)
            continue
        cells = []
        for c in payload:
            if c.kind in ('note', 'rest') and c.ast is not None:
                cells.append(relayout_note(rng, c.ast))
            elif c.kind == 'chord':
                cells.append(' '.join(relayout_note(rng, n) for n in c.ast['notes']))
            else:
                cells.append(c.text)
        lines.append('\t'.join(cells))
    return g.nl.join(lines) + (g.nl if g.final_nl else '')


def relayout_note(rng, ast):
    decos = list(ast['decos'])
    if ast['kind'] == 'rest':
        s = tokens.layout(rng, decos, 2)
        return s[0] + ast['dur'] + 'r' + s[1]
    s = tokens.layout(rng, decos, 4)
    acc = ast['acc']
    if not acc:
        s[2] += s[3]
        s[3] = ''
    return s[0] + ast['dur'] + s[1] + ast['pitch'] + s[2] + acc + s[3]


def doc_worker(kp, job):
    seed, idx = job
    rng = random.Random(seed * 15485863 + idx)
    g = docs.gen_doc(rng, early_end=(0.25 if idx % 4 == 1 else 0.0))
    text = g.text
    bad = docs.bad_cells(kp, text)
    records = []
    viol = []
    try:
        doc, errs = kp.loads(text)
    except Exception as e:
        return {'records': [engine.rec('loads', impl='raise:' + type(e).__name__, req=('import', [C1.join(bad), text]), key=text)]}
    if errs:
        return {'records': [engine.rec('import-errors', key=text, kind='import-errors', nontrivial=False)]}
    t1 = docs.impl_dumps(kp, doc)
    e1 = docs.impl_dumps(kp, doc, encoding='ekern')
    records.append(engine.rec('dumps', impl=t1, req=docs.model_dumps_req(bad, text), key=('k', text), kind='kern'))
    records.append(engine.rec('dumps-ekern', impl=e1, req=docs.model_dumps_req(bad, text, encoding='ekern'), key=('e', text), kind='ekern'))
    if t1.startswith('ok:'):
        try:
            d2, errs2 = kp.loads(t1[3:])
            t2 = docs.impl_dumps(kp, d2)
            if errs2:
                viol.append(('reimport-errors', f'the default export re-imports with {len(errs2)} errors ({errs2[0].encoding!r})', {'text': text}))
            elif t2 != t1:
                a, b = t1[3:].split('\n'), t2[3:].split('\n')
                k = next((i for i in range(min(len(a), len(b))) if a[i] != b[i]), min(len(a), len(b)))
                viol.append(('idempotent', f'second export differs at line {k + 1}: {a[k] if k < len(a) else None!r} -> {b[k] if k < len(b) else None!r}',
                             {'text': text}))
        except Exception as e:
            viol.append(('reimport-raises', f'the default export does not re-import: {type(e).__name__}', {'text': text}))
    else:
        viol.append(('export-raises', f'default export raised {t1}', {'text': text}))
    if e1.startswith('ok:'):
        try:
            k1 = kp.get_kern_from_ekern(e1[3:])
            records.append(engine.rec('get_kern_from_ekern', impl='ok:' + k1, req=('kern_from_ekern', [e1[3:]]), key=('g', text), kind='ekern->kern'))
            d3, errs3 = kp.loads(k1)
            e2 = docs.impl_dumps(kp, d3, encoding='ekern')
            if errs3:
                viol.append(('extended-reimport-errors', f'the separator-free extended export re-imports with {len(errs3)} errors', {'text': text}))
            elif e2 != e1:
                a, b = e1[3:].split('\n'), e2[3:].split('\n')
                k = next((i for i in range(min(len(a), len(b))) if a[i] != b[i]), min(len(a), len(b)))
                viol.append(('extended-idempotent', f'extended round trip differs at line {k + 1}: {a[k] if k < len(a) else None!r} -> {b[k] if k < len(b) else None!r}',
                             {'text': text}))
        except Exception as e:
            viol.append(('extended-raises', f'extended round trip raised {type(e).__name__}', {'text': text}))
    # canonicity: another layout of the same signifiers exports to the same text
    text2 = relayout(rng, g)
    try:
        db, errb = kp.loads(text2)
        tb = docs.impl_dumps(kp, db)
        if not errb and tb != t1:
            a, b = t1[3:].split('\n'), tb[3:].split('\n')
            k = next((i for i in range(min(len(a), len(b))) if a[i] != b[i]), min(len(a), len(b)))
            viol.append(('canonical', f'two layouts of the same signifiers export differently at line {k + 1}: {a[k] if k < len(a) else None!r} vs {b[k] if k < len(b) else None!r}',
                         {'text': text, 'other_layout': text2}))
        elif errb:
            viol.append(('canonical', f'the other layout has import errors: {errb[0].encoding!r}', {'text': text, 'other_layout': text2}))
    except Exception as e:
        viol.append(('canonical', f'the other layout raised {type(e).__name__}', {'text': text, 'other_layout': text2}))
    # finding K11: a rest inside a chord takes the signifiers of its neighbours - only chords that HAVE signifiers
    if any(c.kind == 'chord' and any(n['kind'] == 'rest' for n in c.ast['notes']) and any(n['decos'] for n in c.ast['notes'])
           for row in g.rows() for c in row):
        viol = [(cl, 'rest-in-chord: ' + sig, w) for cl, sig, w in viol]
    records[0]['viol'] = viol
    if idx % 47 == 0:
        records[0]['sample'] = {'text': text, 'export': t1[3:], 'other_layout': text2}
    return {'records': records}


MULTI = ['&(', '&)', '&&(', 'Ww', 'TT', 'xx', 'yy', '[y', '??', '(', ')', 'w', 'W', 'T', 'x', 'y', '[', ']', '?', 'q', 'L', 'J', "'", '^',
         '<', '>', 'M', 'm', 't', 'S', '$', ':', 'O', '_', ';', 'i', '/', '\\', 'k', 'K', 'yyy']


def multi_worker(kp, job):
    """signifiers of more than one character (elided slurs &( &), Ww, TT, xx, yy, [y, ??) mixed with their one-character
    parts, on single notes and inside chords: outside the scanner model, so kernpy alone is checked - the export
    re-imports without errors and re-exports to itself (default and extended)"""
    seed, idx = job
    rng = random.Random(seed * 472882027 + idx)
    records = []
    # fixed probes of the listed findings K12 / K13 (signifiers that combine with a neighbour once sorted)
    fixed = ['2.dd&&(O<', '4cWw', '8ee[y(', '2.GGwWw', '&(4ddk&&(&(', '4c>< 16Em<?'] if idx == 0 else []
    for it in range(40 + len(fixed)):
        # Signifiers of several characters are drawn from the families that stay apart when the sorted list is printed
        # (one slur-start form, one slur-end form, the hidden tie [y) together with the stand-alone signifiers; the
        # characters that COMBINE with a neighbour once sorted (< > ? x y W w T t) are left to the fixed probe of K12.
        with_acc = rng.random() < 0.4
        start = rng.choice(['&(', '&&('])
        end = rng.choice(['&)', '&&)'])
        pool = [start, start, '(', end, end, ')', '[y', '['] + list("LJKk;'^~:/\\$OS_")
        pitches = ['c', 'dd', 'E', 'f#', 'b-'] if with_acc else ['c', 'dd', 'E', 'GG', 'a']

        def note():
            ds = [rng.choice(pool) for _ in range(rng.randint(1, 3))]
            pre = ''.join(d for d in ds if d in ('(', '&(', '&&(', '[', '[y') and rng.random() < 0.35)
            return pre + rng.choice(['4', '8', '16', '2.']) + rng.choice(pitches) + ''.join(ds)
        cell = note() if rng.random() < 0.6 else ' '.join(note() for _ in range(rng.randint(2, 3)))
        if it % 8 == 7:
            # a rest with an explicit staff position (4ree, 2r;GG): read by the grammar, outside the scanner model
            ds = ''.join(rng.sample(list(tokens.REST_DECO), rng.randint(0, 2)))
            pos = rng.choice('abcdefgABCDEFG') * rng.randint(1, 3)
            cell = rng.choice(['4', '8.', '2', '16']) + rng.choice(['r' + pos + ds, 'r' + ds + pos])
        if it % 8 == 3:
            # augmentation dots written as signifiers (after the pitch '4c.', '4c..', or before the duration '.4c') on one note
            # of the cell: the grammar reads them as decorations, the duration group keeps its own dots
            parts = cell.split(' ')
            k = rng.randrange(len(parts))
            parts[k] = (parts[k] + rng.choice(['.', '..'])) if rng.random() < 0.7 else ('.' + parts[k])
            cell = ' '.join(parts)
        if it < len(fixed):
            cell = fixed[it]
        text = f'**kern\n*clefG2\n{cell}\n*-\n'
        viol = []
        try:
            doc, errs = kp.loads(text)
        except Exception:
            continue
        if errs:
            continue
        try:
            t1 = kp.dumps(doc)
            d2, errs2 = kp.loads(t1)
            t2 = kp.dumps(d2)
            e1 = kp.dumps(doc, encoding=kp.Encoding.eKern)
            d3, errs3 = kp.loads(kp.get_kern_from_ekern(e1))
            e2 = kp.dumps(d3, encoding=kp.Encoding.eKern)
            if errs2 or errs3:
                viol.append(('reimport-errors', f'multi-character signifiers: the export of {cell!r} re-imports with errors', {'text': text}))
            elif t1 != t2:
                tag = 'combining-signifiers: ' if cell in fixed else ''
                viol.append(('idempotent', f'{tag}multi-character signifiers: {cell!r} exports {t1.split(chr(10))[2]!r}, then {t2.split(chr(10))[2]!r}', {'text': text}))
            elif e1 != e2:
                c1, c2 = e1.split(chr(10))[2], e2.split(chr(10))[2]
                # same characters, cut differently: neighbouring signifiers that the grammar reads as ONE (finding K12)
                tag = 'merged-signifiers: ' if c1.replace('·', '') == c2.replace('·', '') else ''
                viol.append(('extended-idempotent', f'{tag}multi-character signifiers: {cell!r} extended {c1!r}, then {c2!r}', {'text': text}))
        except Exception as e:
            viol.append(('reimport-raises', f'multi-character signifiers: round trip of {cell!r} raised {type(e).__name__}', {'text': text}))
        records.append(engine.rec('multi', viol=viol, kind='multi-char-signifiers', key=('multi', cell)))
    return {'records': records}


def nested_worker(kp, job):
    """three spines (**kern, a non-kern type, **kern); in the FIRST spine a voice splits, one of the two sub-voices
    splits again, and all are joined back (three in one row, or pairwise); below the joins the LAST **kern spine holds
    notes with signifiers.  Two layouts of the same signifiers must export alike, without import errors (a join that
    leaves a path too many shifts every column to its right under its neighbour's importer)"""
    seed, idx = job
    rng = random.Random(seed * 373587883 + idx)
    records = []
    for it in range(12):
        mid = rng.choice(['**dynam', '**text', '**harm', '**fing', '**mxhm'])

        def kc(sp):
            c = docs._data_cell(rng, '**kern', sp, p_null=0.1, chords=(rng.random() < 0.3), rest_in_chord=0)
            return c

        def mc():
            return docs.Cell(rng.choice(['.', '.', 'f', 'ff', 'p', '1', 'la']), 'free', 1, mid)

        def S(t, sp, ht):
            return docs.Cell(t, 'interp', sp, ht)
        rows = [[docs.Cell('**kern', 'header', 0, '**kern'), docs.Cell(mid, 'header', 1, mid), docs.Cell('**kern', 'header', 2, '**kern')]]
        if rng.random() < 0.7:
            rows.append([S('*clefF4', 0, '**kern'), S('*', 1, mid), S('*clefG2', 2, '**kern')])
        bar = 1

        def barline(n):
            nonlocal bar
            rows.append([docs.Cell(f'={bar}', 'barline', 0 if i < n - 2 else (1 if i == n - 2 else 2), '**kern' if i != n - 2 else mid) for i in range(n)])
            bar += 1
        barline(3)
        rows.append([kc(0), mc(), kc(2)])
        rows.append([S('*^', 0, '**kern'), S('*', 1, mid), S('*', 2, '**kern')])
        rows.append([kc(0), kc(0), mc(), kc(2)])
        inner = rng.randrange(2)
        rows.append([S('*^' if inner == 0 else '*', 0, '**kern'), S('*^' if inner == 1 else '*', 0, '**kern'), S('*', 1, mid), S('*', 2, '**kern')])
        for _ in range(rng.randint(1, 2)):
            rows.append([kc(0), kc(0), kc(0), mc(), kc(2)])
        if rng.random() < 0.5:
            rows.append([S('*v', 0, '**kern'), S('*v', 0, '**kern'), S('*v', 0, '**kern'), S('*', 1, mid), S('*', 2, '**kern')])
        else:
            first = ['*v', '*v', '*'] if inner == 0 else ['*', '*v', '*v']
            rows.append([S(t, 0, '**kern') for t in first] + [S('*', 1, mid), S('*', 2, '**kern')])
            if rng.random() < 0.6:
                rows.append([kc(0), kc(0), mc(), kc(2)])
            rows.append([S('*v', 0, '**kern'), S('*v', 0, '**kern'), S('*', 1, mid), S('*', 2, '**kern')])
        for _ in range(rng.randint(1, 3)):
            rows.append([kc(0), mc(), kc(2)])
        if rng.random() < 0.5:
            barline(3)
            rows.append([kc(0), mc(), kc(2)])
        rows.append([docs.Cell('*-', 'spineop', i, '**kern' if i != 1 else mid) for i in range(3)])
        text = '\n'.join('\t'.join(c.text for c in r) for r in rows) + '\n'

        def other(c):
            if c.kind in ('note', 'rest') and c.ast is not None:
                return relayout_note(rng, c.ast)
            if c.kind == 'chord':
                return ' '.join(relayout_note(rng, n) for n in c.ast['notes'])
            return c.text
        text2 = '\n'.join('\t'.join(other(c) for c in r) for r in rows) + '\n'
        viol = []
        w = {'text': text, 'other_layout': text2}
        try:
            d1, e1 = kp.loads(text)
            d2, e2 = kp.loads(text2)
            if e1 or e2:
                viol.append(('canonical', f'nested split and joins: a well-formed document imports with errors ({(e1 or e2)[0].encoding!r})', w))
            else:
                t1, t2 = kp.dumps(d1), kp.dumps(d2)
                if t1 != t2:
                    a, b = t1.split('\n'), t2.split('\n')
                    k = next((i for i in range(min(len(a), len(b))) if a[i] != b[i]), min(len(a), len(b)))
                    viol.append(('canonical', f'nested split and joins: two layouts of the same signifiers export differently at line {k + 1}: '
                                              f'{a[k] if k < len(a) else None!r} vs {b[k] if k < len(b) else None!r}', w))
                d3, e3 = kp.loads(t1)
                if e3 or kp.dumps(d3) != t1:
                    viol.append(('idempotent', 'nested split and joins: the default export is not a fixed point', w))
        except Exception as e:
            viol.append(('reimport-raises', f'nested split and joins: {type(e).__name__} on a well-formed document', w))
        records.append(engine.rec('nested', viol=viol, kind='nested-split-joins', key=('nested', text)))
    return {'records': records}


def sweep_worker(kp, job):
    cells = job
    records = []
    for c in cells:
        records.append(engine.rec('kparse', impl=tokens.impl_kparse(kp, c), req=('kparse', [c]), key=('cell', c), kind='sweep'))
    return {'records': records}


def run(chk):
    b = core.standard_build(chk)
    model = core.Model() if b.modelrun_ok else None
    full = chk.tier == 'thorough' or bool(b.drift) or not b.proof_ok or not b.modelrun_ok
    ndocs = core.budget(chk, full, 120, 1200)
    sweep = tokens.sweep_cells()
    gen = [tokens.gen_token(chk.rng) for _ in range(3000 if full else 500)]
    if not full:
        sweep = [c for i, c in enumerate(sweep) if i % 3 == chk.seed % 3]
    cells = list(dict.fromkeys(sweep + gen))
    chk.notes['sweep_cells'] = len(cells)
    jobs = [cells[i:i + 120] for i in range(0, len(cells), 120)]
    chk.rule = ('(a) every printable ASCII character at every slot of a note and of a rest (with/without accidental, doubled, in a '
                'chord, after a barline) and every ordered pair of the signifier tables (a seeded third in the quick tier) plus '
                'random CKL tokens: kernpy token vs model token; (b) generated documents: default and extended export, the '
                'separator-free extended text, re-import, and a second layout of every note; (c) notes and chords with signifiers of '
                'more than one character (&( &) Ww TT xx yy [y ??) mixed with their parts, and rests with an explicit staff position: fixed point on kernpy alone; non-trivial = distinct cell / text')
    results = engine.pmap(sweep_worker, jobs) + engine.pmap(doc_worker, [(chk.seed, i) for i in range(ndocs)])
    results += engine.pmap(multi_worker, [(chk.seed, i) for i in range(core.budget(chk, full, 16, 160))])
    results += engine.pmap(nested_worker, [(chk.seed, i) for i in range(core.budget(chk, full, 8, 80))])
    engine.settle(chk, results, model)
    # a cell on which model and kernpy disagree is the first place to look for a failing input: run the property on it
    import kernpy as kp
    tried = 0
    for br in list(chk.broken):
        wit = br.get('witness')
        if br.get('what') != 'kparse' or not isinstance(wit, (list, tuple)) or len(wit) != 2 or tried >= 60:
            continue
        cell = wit[1]
        tried += 1
        for text in (f'**kern\n*clefG2\n{cell}\n*-\n', f'**kern\t**kern\n*clefG2\t*clefF4\n{cell}\t4c\n{cell}\t{cell}\n*-\t*-\n'):
            try:
                d1, e1 = kp.loads(text)
                if e1:
                    break
                t1 = kp.dumps(d1)
                d2, e2 = kp.loads(t1)
                t2 = kp.dumps(d2)
                x1 = kp.dumps(d1, encoding=kp.Encoding.eKern)
                d3, e3 = kp.loads(kp.get_kern_from_ekern(x1))
                x2 = kp.dumps(d3, encoding=kp.Encoding.eKern)
            except Exception:
                break
            if e2 or e3:
                chk.violation('reimport-errors', f'the export of the cell {cell!r} (model and kernpy disagree on it) re-imports with errors', {'text': text})
                break
            if t1 != t2:
                chk.violation('idempotent', f'the cell {cell!r} (model and kernpy disagree on it) exports {t1.split(chr(10))[2]!r}, then {t2.split(chr(10))[2]!r}', {'text': text})
                break
            if x1 != x2:
                chk.violation('extended-idempotent', f'the cell {cell!r} (model and kernpy disagree on it): extended {x1.split(chr(10))[2]!r}, then {x2.split(chr(10))[2]!r}', {'text': text})
                break
    chk.disagreements_checked = len(chk.broken)


def replay(path):
    rec = json.load(open(path))
    import kernpy as kp
    print(json.dumps(rec, indent=1)[:2500])
    w = rec.get('witness', {})
    if isinstance(w, dict) and 'text' in w:
        doc, errs = kp.loads(w['text'])
        t1 = kp.dumps(doc)
        d2, e2 = kp.loads(t1)
        print('first export:\n' + t1 + 'second export:\n' + kp.dumps(d2), 'errors', errs, e2)
    return 0
