"""Document generator (reference spine-path model), implementation observers that mirror model/RunDoc.v,
and the oracle for cells that the kern recogniser rejects."""
import multiprocessing
import os
import random
from harness import core, tokens

C1, C2, C3, C4, C5, C6, C7, C8 = '\x01', '\x02', '\x03', '\x04', '\x05', '\x06', '\x07', '\x08'

SPINE_TYPES = ['**kern', '**kern', '**kern', '**text', '**dynam', '**dyn', '**harm', '**mxhm', '**fing', '**root']
LYRICS = ['la', 'Ky-', '-ri-', '-e', 'lo-', 'A-men', 'do', 're', 'mi', "l'a", 'ça', 'niño', 'Über', 'x y', 'a,b', '"q"', "it's",
          'rem', 'sol', 'Glo-', '-ri-', '-a', 'ae', 'li', 'too', 'Ky-  ri-', ' lead', 'trail ', 'a  b   c', 'non\u00a0brk']
DYNAMS = ['p', 'f', 'ff', 'pp', 'mf', 'mp', 'sfz', 'cresc.', 'dim.', '<', '>', '(', ')', '[', ']', 'fp']
HARMS = ['C7', 'Dm', 'G7/B', 'I', 'V7', 'ii6', 'IV', 'vi', 'Am7', 'Bdim']
FINGS = ['1', '2', '3', '4', '5', '1 2', '2 3', '5 1']
COMMON_FREE = ['I', 'V7', 'IV', '1', '2', '5', 'p', 'f', 'la', 'do']
FREE = {'**text': LYRICS, '**dynam': DYNAMS, '**dyn': DYNAMS, '**harm': HARMS, '**mxhm': HARMS, '**fing': FINGS}

CLEFS = ['*clefG2', '*clefF4', '*clefC3', '*clefC4', '*clefGv2', '*clefC1', '*clefF3', '*clefC2']
KEYSIGS = ['*k[]', '*k[f#]', '*k[b-]', '*k[f#c#]', '*k[b-e-a-]']
METERS = ['*M4/4', '*M3/4', '*M6/8', '*M2/2']
METSYMS = ['*met(c)', '*met(c|)']
TANDEM = ['*MM120', '*C:', '*a:', '*staff1', '*Ipiano', '*8va', '*X8va', '*above', '*below', '*tb4', '*ped', '*Xped', '*cue',
          '*Xcue', '*solo', '*d:dor', '*part1']


class Cell:
    __slots__ = ('text', 'kind', 'ast', 'spine', 'htype')

    def __init__(self, text, kind, spine, htype, ast=None):
        self.text, self.kind, self.spine, self.htype, self.ast = text, kind, spine, htype, ast


class GenDoc:
    def __init__(self):
        self.lines = []          # (kind, [Cell] | str)   kind: global / row
        self.headers = []
        self.flags = set()
        self.nl = '\n'
        self.final_nl = True
        self.blank_before = set()   # indices into lines: a blank line stands before that line (no stage, no row)

    @property
    def text(self):
        out = []
        for k, (kind, payload) in enumerate(self.lines):
            if k in self.blank_before:
                out.append('')
            out.append(payload if kind == 'global' else '\t'.join(c.text for c in payload))
        t = self.nl.join(out)
        return t + (self.nl if self.final_nl else '')

    def rows(self):
        return [p for k, p in self.lines if k == 'row']


def _data_cell(rng, htype, spine, p_null=0.15, chords=True, rest_in_chord=0.03):
    if rng.random() < p_null:
        return Cell('.', 'null', spine, htype)
    if htype in ('**kern', '**root'):
        r = rng.random()
        if r < 0.62:
            t, a = tokens.gen_note(rng)
        elif r < 0.75:
            t, a = tokens.gen_rest(rng)
        elif chords:
            t, a = tokens.gen_chord(rng, rest_in_chord)
        else:
            t, a = tokens.gen_note(rng)
        return Cell(t, a['kind'], spine, htype, a)
    # a third of the free cells come from a vocabulary shared by all non-kern types (a lyric "I" and a chord "I", a
    # verse "1" and a finger "1"): the same text must become a token of the type of the spine it stands in
    vocab = COMMON_FREE if rng.random() < 0.33 else FREE.get(htype, LYRICS)
    return Cell(rng.choice(vocab), 'free', spine, htype)


def gen_doc(rng, *, kern_only=False, max_spines=4, splits=True, core=False, comments=True, measures=None,
            mid_signatures=True, opening_barline=None, final_barline=None, chords=True, free_headers=False,
            hidden_barlines=False, force_clef=False, plain_acc=False, rest_in_chord=0.03, clef_in_split=0.0, nested=0.5, early_end=0.0, types=None, twins=0.15, bboxes=0.1, blanks=0.08, second_clef_row=0.0, empty_measures=0.0, tandem_after_barline=0.0):
    """core=True: signatures only before the first measure, splits re-joined before the next barline (C08's core)"""
    g = GenDoc()
    tokens.PLAIN_ACC = plain_acc
    types_forced = types
    n = rng.randint(1, max_spines)
    types = ['**kern'] + [rng.choice(SPINE_TYPES) for _ in range(n - 1)]
    if kern_only:
        types = ['**kern'] * n
    rng.shuffle(types)
    if free_headers and rng.random() < 0.3:
        types[rng.randrange(n)] = rng.choice(['**silbe', '**foo', '**recip'])
    if types_forced is not None:
        types = list(types_forced)
        n = len(types)
    g.headers = types
    g.nl = rng.choice(['\n', '\n', '\n', '\r\n'])
    g.final_nl = rng.random() < 0.85
    # paths: list of (origin column, htype)
    paths = [(i, t) for i, t in enumerate(types)]

    def free_of(t):
        return t if t in FREE or t in ('**kern', '**root') else None

    def row(fn):
        g.lines.append(('row', [fn(i, sp, ht) for i, (sp, ht) in enumerate(paths)]))

    def is_kernlike(ht):
        return ht in ('**kern', '**root')

    if comments and rng.random() < 0.4:
        for _ in range(rng.randint(1, 2)):
            g.lines.append(('global', rng.choice(['!!!COM: Bach', '!!!OTL: Title', '!! a comment', '!!!AGN: x', '!!!COM: Anon', '!!!!SEGMENT: part-1.krn', '!!!!COM: universal'])))
            g.flags.add('comment-before')
    g.lines.append(('row', [Cell(t, 'header', i, t) for i, t in enumerate(types)]))

    def interp_row(choices, p_kern=0.9, p_other=0.3):
        tok = rng.choice(choices)
        per_cell = rng.random() < 0.4      # different tokens in different (sub-)spines, e.g. a clef change in one sub-spine only
        if per_cell:
            p_kern = 0.6
            if not core and choices in (CLEFS, KEYSIGS, METERS, METSYMS) and rng.random() < 0.4:
                # a MIXED signature line: a clef in one spine, a key signature or a meter in another
                choices = CLEFS + KEYSIGS + METERS + METSYMS
                g.flags.add('mixed-signature-row')
        row(lambda i, sp, ht: Cell((rng.choice(choices) if per_cell else tok) if rng.random() < (p_kern if is_kernlike(ht) else p_other) else '*',
                                   'interp', sp, ht))

    def signature_rows(uniform):
        # in the core class every live path gets every signature class (rectangular preamble)
        for choices in (CLEFS, KEYSIGS, METERS):
            if choices is CLEFS and force_clef:
                row(lambda i, sp, ht: Cell(rng.choice(choices), 'interp', sp, ht))
            elif rng.random() < 0.8:
                if uniform:
                    row(lambda i, sp, ht: Cell(rng.choice(choices), 'interp', sp, ht))
                else:
                    interp_row(choices)
        if rng.random() < 0.25:
            if uniform:
                row(lambda i, sp, ht: Cell(rng.choice(METSYMS), 'interp', sp, ht))
            else:
                interp_row(METSYMS)

    def bbox_row():
        # image annotations of an OMR corpus: one bounding box per kern-like cell (sometimes for all cells)
        page = rng.randint(1, 3)
        everywhere = rng.random() < 0.3
        row(lambda i, sp, ht: Cell(f'*xywh-{page}:{rng.randint(0, 900)},{rng.randint(0, 900)},{rng.randint(1, 99)},{rng.randint(1, 99)}'
                                   if (everywhere or is_kernlike(ht)) and rng.random() < 0.85 else '*', 'interp', sp, ht))
        g.flags.add('bbox')

    if rng.random() < 0.3:
        interp_row(['*staff1', '*staff2', '*Ipiano', '*Ivioln'])
    if bboxes and rng.random() < bboxes:
        bbox_row()
    signature_rows(core)
    if bboxes and rng.random() < bboxes:
        bbox_row()
    if second_clef_row and n >= 2 and rng.random() < second_clef_row:
        # a second clef row before the first measure: null interpretations to the left, new clefs to the right
        k0 = rng.randint(1, n - 1)
        row(lambda i, sp, ht: Cell('*' if i < k0 or rng.random() < 0.3 else rng.choice(CLEFS), 'interp', sp, ht))
        g.flags.add('second-clef-row')
    if rng.random() < 0.3 and not core:
        interp_row(TANDEM)
    # now and then a score without any measure (header, signatures, perhaps one barline, terminators)
    nmeasures = measures if measures is not None else (0 if rng.random() < 0.05 else rng.randint(1, 4))
    opening = opening_barline if opening_barline is not None else rng.random() < 0.6
    final = final_barline if final_barline is not None else rng.random() < 0.6
    number = 1
    started = False   # a barline or data row has been written (core documents do not split before that)

    def barline():
        nonlocal number
        t = '=' + rng.choice(['', str(number)])
        if hidden_barlines and rng.random() < 0.3:
            t += '-'
        # every barline type of the grammar (the rarer ones - |!: |: :||: :!: :!!: - less often)
        t += rng.choice(['', '', '', '', '', '', '||', '||', ':|!|:', ':|!|:', '|!', '|!', '!|:', '!|:', ':|!', ':|!', '|!:', '|:', ':||:', ':!:', ':!!:'])
        if rng.random() < 0.1:
            t += ';'
        number += 1
        row(lambda i, sp, ht: Cell(t, 'barline', sp, ht))

    def join_points():
        """indices k such that paths k and k+1 are sub-spines of the same spine (they can be joined)"""
        return [k for k in range(len(paths) - 1) if paths[k][0] == paths[k + 1][0]]

    def join_split():
        nonlocal paths
        k = rng.choice(join_points())
        # a run of two or more adjacent sub-spines of one spine joins in one step (*v *v *v closes a nested split)
        e = k + 1
        while e + 1 < len(paths) and paths[e + 1][0] == paths[k][0] and rng.random() < 0.5:
            e += 1
        runs = [(k, e)]
        # now and then OTHER spines join on the same line (two runs of *v side by side: *v *v *v *v)
        for k2 in join_points():
            if paths[k2][0] != paths[k][0] and all(paths[k2][0] != paths[a][0] for a, _ in runs) and rng.random() < 0.45:
                runs.append((k2, k2 + 1))
        if len(runs) > 1:
            g.flags.add('joins-side-by-side')
        inrun = set()
        for a, b_ in runs:
            inrun |= set(range(a, b_ + 1))
        cells = []
        for i, (sp, ht) in enumerate(paths):
            cells.append(Cell('*v' if i in inrun else '*', 'spineop' if i in inrun else 'interp', sp, ht))
        g.lines.append(('row', cells))
        for a, b_ in sorted(runs, reverse=True):
            paths = paths[:a + 1] + paths[b_ + 1:]
        g.flags.add('join')
        if e > k + 1:
            g.flags.add('wide-join')

    for m in range(nmeasures):
        if m > 0 or opening:
            barline()
            started = True
            if empty_measures and rng.random() < empty_measures:
                barline()                       # an empty measure: two barline lines in a row
                g.flags.add('empty-measure')
            if tandem_after_barline and rng.random() < tandem_after_barline:
                # a tempo mark, a cue mark or a key designation right after the barline: interpretations that are no
                # signatures although they begin like one (*MM.. / *M.., *cue / *clef.., *C: )
                interp_row(['*MM120', '*cue', '*C:', '*a:', '*MM120', '*cue'])
                g.flags.add('tandem-after-barline')
        elif rng.random() < 0.3:
            g.flags.add('pickup')
        for _ in range(rng.randint(1, 3)):
            r = rng.random()
            if comments and r < 0.06:
                g.lines.append(('global', rng.choice(['!! inside', '!!!ONB: note', '!!!COM: later', '!!!!COM: inside'])))
                g.flags.add('comment-inside')
                continue
            if comments and r < 0.12:
                row(lambda i, sp, ht: Cell(rng.choice(['!', '!fc', '! a field comment', '!LO:TX:a', '!  pizz.  sempre', '! trailing ']), 'fcomment', sp, ht))
                continue
            if r < 0.17:
                row(lambda i, sp, ht: Cell('.', 'null', sp, ht))
                g.flags.add('null-row')
                continue
            if bboxes and r > 1 - bboxes / 3:
                bbox_row()
                continue
            if mid_signatures and not core and r < 0.24:
                interp_row(rng.choice([CLEFS, KEYSIGS, METERS, TANDEM]))
                g.flags.add('mid-signature')
                continue
            can_split = splits and len(paths) < 6 and (started or not core) and \
                (not join_points() or (rng.random() < nested and max(sum(1 for q in paths if q[0] == p[0]) for p in paths) < 3))
            if can_split and (r < 0.34 or (join_points() and r < 0.6)):
                cands = [i for i, (sp, ht) in enumerate(paths) if ht == '**kern']
                if cands:
                    k = rng.choice(cands)
                    if join_points():
                        g.flags.add('nested-split')
                    g.lines.append(('row', [Cell('*^' if i == k else '*', 'spineop' if i == k else 'interp', sp, ht)
                                            for i, (sp, ht) in enumerate(paths)]))
                    paths = paths[:k + 1] + [paths[k]] + paths[k + 1:]
                    g.flags.add('split')
                    continue
            if join_points() and clef_in_split and rng.random() < clef_in_split:
                # a clef change in ONE sub-spine only: its sibling keeps the clef in force before the split
                subs = [i for i in range(len(paths)) if sum(1 for q in paths if q[0] == paths[i][0]) > 1]
                k = rng.choice(subs)
                row(lambda i, sp, ht: Cell(rng.choice(CLEFS) if i == k else '*', 'interp', sp, ht))
                g.flags.add('clef-in-split')
                continue
            if early_end and started and join_points() and rng.random() < early_end:
                # a split that is never joined: ALL sub-spines of one header end on this row with their own terminators,
                # while another **kern spine goes on below (more terminators than headers before the last row)
                groups = sorted({sp for sp, ht in paths if sum(1 for q in paths if q[0] == sp) > 1})
                k = rng.choice(groups)
                if any(q[1] == '**kern' and q[0] != k for q in paths):
                    g.lines.append(('row', [Cell('*-' if sp == k else '*', 'spineop' if sp == k else 'interp', sp, ht)
                                            for sp, ht in paths]))
                    paths = [q for q in paths if q[0] != k]
                    g.flags.add('early-end')
                    g.flags.add('early-end-split')
                    continue
            if join_points() and r < 0.45:
                join_split()
                continue
            if early_end and started and len(paths) >= 2 and not join_points() and rng.random() < early_end:
                # one spine ends before the others: its terminator stands alone on a row, later rows are narrower
                cands = [i for i, (sp, ht) in enumerate(paths) if sum(1 for q in paths if q[1] == '**kern' and q is not paths[i]) >= 1]
                if cands:
                    k = rng.choice(cands)
                    g.lines.append(('row', [Cell('*-' if i == k else '*', 'spineop' if i == k else 'interp', sp, ht)
                                            for i, (sp, ht) in enumerate(paths)]))
                    paths = paths[:k] + paths[k + 1:]
                    g.flags.add('early-end')
                    continue
            row(lambda i, sp, ht: _data_cell(rng, ht, sp, chords=chords, rest_in_chord=rest_in_chord))
            started = True
        while join_points() and (core or rng.random() < 0.7):
            join_split()
    if final:
        t = rng.choice(['=', '==', '=' + str(number), '==|!', '=||'])
        row(lambda i, sp, ht: Cell(t, 'barline', sp, ht))
        g.flags.add('final-barline')
    while join_points() and rng.random() < 0.5:
        join_split()
    if comments and rng.random() < 0.15:
        g.lines.append(('global', '!!!END: last'))
    row(lambda i, sp, ht: Cell('*-', 'spineop', sp, ht))
    if comments and rng.random() < 0.2:
        g.lines.append(('global', '!!!EEV: after'))
        g.flags.add('comment-after')
    # twins: a cell of a non-kern spine spelled exactly like a note or rest of a kern spine of the same document (a lyric
    # "4c", a dynamic written like a note): same text, different spine type, different category
    if twins and rng.random() < twins:
        notes = [c for kind, payload in g.lines if kind == 'row' for c in payload if c.kind in ('note', 'rest')]
        frees = [c for kind, payload in g.lines if kind == 'row' for c in payload if c.kind == 'free']
        if notes and frees:
            for fc in rng.sample(frees, min(len(frees), rng.randint(1, 2))):
                fc.text = rng.choice(notes).text
            g.flags.add('twins')
    # blank lines (also before the first line): they are skipped by both line readers and must shift nothing
    if blanks and rng.random() < blanks:
        for _ in range(rng.randint(1, 2)):
            g.blank_before.add(rng.randrange(len(g.lines)))
        g.flags.add('blank-line')
    return g


# --------------------------------------------------------------------------- recogniser oracle

_KERN_CACHE = {}


def kern_outcome(kp, cell):
    """None when the real kern recogniser raises on the cell, else the category name of its token (cached)."""
    if cell not in _KERN_CACHE:
        try:
            _KERN_CACHE[cell] = kp.KernSpineImporter().import_token(cell).category.name
        except Exception:
            _KERN_CACHE[cell] = None
    return _KERN_CACHE[cell]


def kern_rejects(kp, cell):
    return kern_outcome(kp, cell) is None


_CKL_CACHE = {}


def in_ckl(cells):
    """which of the cells the model's scanner recognises (one batch call, cached)"""
    todo = [c for c in dict.fromkeys(cells) if c not in _CKL_CACHE]
    if todo:
        for c, r in zip(todo, core.Model().batch([('kparse', [c]) for c in todo])):
            _CKL_CACHE[c] = (r != 'out')
    return {c: _CKL_CACHE[c] for c in cells}


def bad_cells(kp, text):
    """the oracle about the real recogniser handed to the model: cells (outside '!!' lines, headers, spine
    operators, field comments) that it rejects, and - for cells outside CKL that it accepts - their category"""
    cells = []
    for line in text.splitlines():
        if not line or line.startswith('!!'):
            continue
        for c in line.split('\t'):
            if c == '' or c.startswith('**') or c.startswith('!') or c in ('*-', '*+', '*^', '*v', '*x'):
                continue
            if c not in cells:
                cells.append(c)
    ckl = in_ckl(cells)
    bad = []
    for c in cells:
        k = kern_outcome(kp, c)
        if k is None:
            bad.append(c)
        elif not ckl[c]:
            bad.append(c + C2 + k)
    return bad


# --------------------------------------------------------------------------- implementation observers

def addr(node):
    if node is None:
        return '-'
    return None


def load_text_via_file(kp, text):
    """kp.load of a fresh file holding exactly the bytes of the text (the file line reader instead of str.splitlines)"""
    import os, shutil, tempfile
    tmp = tempfile.mkdtemp(prefix='kvdoc_')
    try:
        path = os.path.join(tmp, 'score.krn')
        with open(path, 'w', encoding='utf-8', newline='') as f:
            f.write(text)
        return kp.load(path)
    finally:
        shutil.rmtree(tmp, ignore_errors=True)


def impl_show_doc(kp, doc, errors):
    tree = doc.tree
    pos = {}
    for si, stage in enumerate(tree.stages):
        for pi, nd in enumerate(stage):
            pos[nd.id] = f'{si}.{pi}'

    def a(nd):
        return '-' if nd is None else pos.get(nd.id, '?')

    def show_node(nd):
        tok = 'ROOT' if nd.token is None else tokens.dump_token(nd.token)
        sigs = ','.join(f'{k}={a(v)}' for k, v in nd.last_signature_nodes.nodes.items())
        ch = ','.join(a(c) for c in nd.children)
        canc = getattr(nd.token, 'cancelled_at_stage', None)
        return C4.join([tok, a(nd.parent), a(nd.header_node), a(nd.last_spine_operator_node), sigs, ch,
                        '-' if canc is None else str(canc)])
    t = C7.join(C6.join(show_node(nd) for nd in stage) for stage in tree.stages)
    err_nodes = []
    for e in errors:
        where = '?'
        for stage in tree.stages:
            for nd in stage:
                if nd.token is e:
                    where = a(nd)
        err_nodes.append(f'{where}@{e.line}')
    hs = '-' if doc.header_stage is None else str(doc.header_stage)
    return ('mst=' + ','.join(map(str, doc.measure_start_tree_stages)) + ';hs=' + hs + ';errors=' + ','.join(err_nodes)
            + C8 + t)


def impl_import(kp, text):
    try:
        doc, errors = kp.loads(text)
    except Exception as e:
        return None, 'raise:' + type(e).__name__
    return doc, 'ok:' + impl_show_doc(kp, doc, errors)


def opts_arg(spine_types=None, from_measure=None, to_measure=None, encoding=None, spine_ids=None):
    f = lambda v: '-' if v is None else str(v)
    return C1.join(['-' if spine_types is None else ','.join(spine_types), '-', f(from_measure), f(to_measure),
                    '-' if encoding is None else encoding,
                    '-' if spine_ids is None else ','.join(map(str, spine_ids))])


def cats_arg(c):
    if c is None:
        return '-'
    return ','.join(c)


_SHARED = {}
SESSION_MISMATCHES = []        # drained by optprops.evaluate (own clause) or by engine._call (clause 'session')


def _snapshot(options):
    snap = {}
    for k, v in sorted(vars(options).items()):
        if isinstance(v, (set, frozenset)):
            snap[k] = ('set', sorted(repr(x) for x in v))
        elif isinstance(v, (list, tuple)):
            snap[k] = ('seq', [repr(x) for x in v])
        else:
            snap[k] = ('val', repr(v))
    return snap


def long_lived(kp, doc, kw):
    """the same export through ONE Exporter object that lives as long as this worker process (it has served every earlier
    document and option set), with options built the way dumps builds them -> (outcome, the fields of the caller's
    options object the export changed).  None when kernpy no longer offers these entry points."""
    try:
        from kernpy.core.generic import Generic
        exporter = _SHARED.get('exporter')
        if exporter is None:
            exporter = _SHARED['exporter'] = kp.Exporter()
        kw2 = dict(kw)
        if 'encoding' in kw2:
            kw2['kern_type'] = kw2.pop('encoding')
        options = Generic.parse_options_to_ExportOptions(**kw2)
    except (ImportError, AttributeError, TypeError):
        return None
    before = _snapshot(options)
    try:
        got = 'ok:' + exporter.export_string(doc, options)
    except Exception as e:
        got = 'err:' + type(e).__name__
    after = _snapshot(options)
    return got, sorted(k for k in set(before) | set(after) if before.get(k) != after.get(k))


def impl_dumps(kp, doc, *, spine_types=None, include=None, exclude=None, from_measure=None, to_measure=None,
               encoding=None, spine_ids=None):
    TC = kp.TokenCategory
    kw = {}
    if spine_types is not None:
        kw['spine_types'] = list(spine_types)
    if include is not None:
        kw['include'] = {TC[c] for c in include}
    if exclude is not None:
        kw['exclude'] = {TC[c] for c in exclude}
    if from_measure is not None:
        kw['from_measure'] = from_measure
    if to_measure is not None:
        kw['to_measure'] = to_measure
    if encoding is not None:
        kw['encoding'] = kp.Encoding(encoding)
    if spine_ids is not None:
        kw['spine_ids'] = list(spine_ids)
    try:
        out = 'ok:' + kp.dumps(doc, **kw)
    except Exception as e:
        out = 'err:' + type(e).__name__
    # every export is also made through the long-lived Exporter of this process: the same result, the options untouched
    ll = long_lived(kp, doc, kw)
    if ll is not None and len(SESSION_MISMATCHES) < 3:
        got, changed = ll
        o = {k: (sorted(c.name for c in v) if k in ('include', 'exclude') else (v.value if k == 'encoding' else v)) for k, v in kw.items()}
        if got != out:
            SESSION_MISMATCHES.append((f'options {o}: an Exporter object that has served earlier exports gives another result than a fresh one '
                                       f'({got[:3]}... / {out[:3]}...)', {'options': o, 'session': 'long-lived exporter'}))
        elif changed:
            SESSION_MISMATCHES.append((f'options {o}: the export changed the caller\'s ExportOptions object (fields {changed})',
                                       {'options': o, 'session': 'options snapshot'}))
    return out


def model_dumps_req(bad, text, *, spine_types=None, include=None, exclude=None, from_measure=None, to_measure=None,
                    encoding=None, spine_ids=None):
    return ('dumps', [C1.join(bad), text, opts_arg(spine_types, from_measure, to_measure, encoding, spine_ids),
                      cats_arg(include), cats_arg(exclude)])


def same_result(impl, model):
    """compare an implementation observation with the model's answer; exceptions are compared as 'raised'"""
    if model == 'out':
        return True
    if impl.startswith('err:') or impl.startswith('raise:'):
        return model.startswith('err:') or model.startswith('raise:')
    return impl == model


def pretty(s):
    for i, c in enumerate([C1, C2, C3, C4, C5, C6, C7, C8], 1):
        s = s.replace(c, f'<{i}>')
    return s
