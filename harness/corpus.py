"""Token corpora shared by the checks: one or more cells for every alternative of the kern token
grammar (kern/kernSpineParser.g4), free text as found in **text/**dynam/**harm/**fing spines, and
arbitrary character strings."""

GRAMMAR = {
    'note': ['4c', '8.dd#', '16BB-', '2.f##', '1GG--', '4cn', '4ccnX', '4e-X', 'qc', '8qd', '16qqe', '4.pf', '2Pg', 'c', 'CC',
             '4%3c', '12a', '0c', '00C', '4cL', '8dJ', '4c;', "4c'", '4c~', '4c^', '4c`', '4c"', '(4c', '4c)', '[4c', '4c]', '4c_',
             '{4c', '4c}', '4c/', '4c\\', '4cT', '4ct', '4cM', '4cm', '4cW', '4cw', '4cWw', '4cS', '4c$', '4cO', '4c:', '4ci',
             '4cN', '4cj', '4cX', '4cZ', '4cl', '4cV', '4cs', '4ck', '4cK', '4cx', '4cxx', '4cy', '4cyy', '4c?', '4c<', '4c>',
             '&(4c', '4c&)', '4c#LL', 'L4c', '4Lc', '4c#L', "(4c#'L;", '4..c', '4c.', '4cq', '4c-J)'],
    'rest': ['4r', '2.r', 'r', '1rr', '4r;', '4ryy', '8rJ', '4rc', '4rGG', "4r'", '(4r', '4r)', '{4r', '4r/', 'qr', '4.r'],
    'chord': ['4c 4e 4g', '4c#L 4e 4g', '8C 8E-', '4c 4r', '2.c 2.e', '4c e', '4cL eJ', '4c  4e', '4c4e'],
    'staff': ['*staff1', '*staff2', '*staff1/2', '*staff+1', '*staff12'],
    'clef': ['*clefG2', '*clefF4', '*clefF3', '*clefC1', '*clefC2', '*clefC3', '*clefC4', '*clefGv2', '*clefG^2', '*clefGvv2',
             '*clefX', '*clefP', '*clefT5', '*clefG', '*clefC5'],
    'timeSignature': ['*M4/4', '*M3/4', '*M6/8', '*M12/16', '*M3+2/8', '*M2/4+3/8', '*M3/4:6/8', '*M3/4;2:6/8;1', '*M3/4|6/8',
                      '*M4/4%2'],
    'meterSymbol': ['*met(c)', '*met(c|)', '*M(c)', '*met(C)', '*met(O)', '*met(C|)', '*met(O.)', '*met(C3)', '*met(C2/3)', '*met(Cr)'],
    'keySignature': ['*k[]', '*k[f#]', '*k[f#c#]', '*k[b-]', '*k[b-e-a-]', '*k[f#c#g#d#a#e#b#]', '*k[bn]', '*k[f#]X', '*kcancel'],
    'key': ['*C:', '*a:', '*c#:', '*B-:', '*e-:', '*?:', '*d:dor', '*e:phr', '*f:lyd', '*g:mix', '*a:aeo', '*c:ion', '*b:loc',
            '*C/a:', '*a1', '*CX:', '*C', '*a'],
    'octaveShift': ['*8va', '*X8va', '*8ba', '*X8ba', '*8vba', '*8bva'],
    'metronome': ['*MM120', '*MM60.5', '*MM60-70', '*MM1'],
    'barline': ['=', '==', '=1', '=12', '=1a', '=1b', '=1ab', '=-', '=1-', '==1-', '=||', '=|!', '=|!:', '=|:', '=!|:', '=:|!',
                '==:|!', '=:|!|:', '=:||:', '=:!:', '=:!!:', '===', '=;', '=1;', '=||;', '=1j', '=1.', '=1?', '=1-||', '=1-;', '====',
                '=2:|!|:', '=3!|:', '==:|!|:', '=a', '=1||;j.?'],
    'empty': ['*', '.'],
    'visualTandem': ['*above', '*below', '*below:2', '*below2', '*centered', '*cue', '*Xcue', '*tremolo', '*Xtremolo',
                     '*rscale:2', '*rscale:1/2', '*ped', '*ped*', '*Xped', '*ela', '*tuplet', '*Xtuplet', '*tstart', '*tend'],
    'nonVisualTandem': ['*tb4', '*solo', '*accomp', '*strophe', '*part1', '*group2', '*Ipiano', '*I"sax', '*mIfoo bar', '*Trd1c2',
                        '*ITrd-1c-2', '*>A', '*>[A,B]', '*>norep[A,B]', '*>1st ending', '*lh', '*rh', '*S/sic', '*S/ossia',
                        '*S/fin', '*S-', '*Ivioln', '*mI"x y'],
    'boundingBox': ['*xywh-1:10,20,30,40', '*xywh-page 3:1,2,3,4', '*xywh-:0,0,0,0', '*xywh-a:b:1,2,3,4'],
    'spineOperation': ['*-', '*^', '*v', '*+', '*x'],
    'comment': ['!', '!foo', '! a comment', '!LO:TX:a', '!!', '!!!COM: x'],
}

FREE_TEXT = [' ', '  ', '\u00a0', '\u3000', ' la ', 'la', 'Ky-', '-ri-', '-e', 'e', 'f', 'p', 'ff', 'pp', 'mf', 'sfz', 'cresc.', 'dim.', '<', '>', '(', ')', '[', ']',
             'C7', 'Dm', 'G7/B', 'I', 'V7', 'ii6', '1', '2', '5', '1 2', '23', 'lo-', 'rem', 'do', 're', 'mi', 'a', 'b', 'r',
             'A-men', "l'a", 'ça', 'niño', 'Über', '日本', 'x y z', 'a,b', '"q"', "it's", '4', '4c', 'cc', '&', '%', '@', 'a@b', 'a·b',
             '·', '*foo', '**', '**bar', '=x', '=1x', '4c%%', '4zz', '*clefG9', 'Z', 'zz', '\\', '/', '#', '-', '--', '?', '??', '_']


def all_grammar():
    out = []
    for k in GRAMMAR:
        out.extend(GRAMMAR[k])
    return out


def random_strings(rng, n, alphabet=None, maxlen=6):
    alphabet = alphabet or ('abcdefgABCDEFGr0123456789.#-n=|!:;*()[]{}<>/\\\'"^~`_$&?@% LJKkTtMmWwSsOijlNVXZxyqpPvI+,' + 'ñé·日')
    return [''.join(rng.choice(alphabet) for _ in range(rng.randint(1, maxlen))) for _ in range(n)]
