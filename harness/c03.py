"""C03 - Export conserves the score content cell for cell.

proof         : coq/props/C03.v - on the model: a non-note token is exported as its text (all encodings agree when the
                text holds no separator), the default category set keeps every sub-part of a note, sub-parts are never
                altered, only ordered (stable sort by category / text), chord notes are exported one by one
correspondence: dumps(loads(text)) of kernpy vs the extracted importer + exporter model
monitor       : kernpy's default export against the generator's own description of every cell (harness/spec.py)
"""
import json
import random

from harness import core, docs, engine, spec
from harness.docs import C1


def worker(kp, job):
    seed, idx = job
    rng = random.Random(seed * 104729 + idx)
    g = docs.gen_doc(rng, hidden_barlines=(idx % 5 == 0), early_end=(0.25 if idx % 4 == 1 else 0.0))
    if idx % 7 == 0:
        # separators inside non-note cells (finding K3)
        rows = g.rows()
        for row in rows:
            for c in row:
                if c.kind == 'free' and rng.random() < 0.2:
                    c.text = rng.choice(['a@b', 'x·y', '@', 'la@'])
    text = g.text
    bad = docs.bad_cells(kp, text)
    viol = []
    try:
        doc, errs = kp.loads(text)
    except Exception as e:
        return {'records': [engine.rec('loads', impl='raise:' + type(e).__name__, req=('import', [C1.join(bad), text]), key=text,
                                       viol=[('import', f'loads raised {type(e).__name__}', {'text': text})])]}
    # every other document: an export WITH options comes first (only notes, a range, another encoding) - the default
    # export that follows is still the whole grid
    if idx % 2 == 1:
        try:
            kp.dumps(doc, spine_types=['**kern'], encoding=kp.Encoding.eKern)
            kp.dumps(doc, spine_ids=[0], from_measure=1, to_measure=1)
        except Exception:
            pass
    out = docs.impl_dumps(kp, doc)
    if not errs and out.startswith('ok:'):
        allc = spec.all_categories(kp)
        want = spec.expected_export(g, allc, 'kern')
        cmp_ = spec.compare_export(out[3:], want)
        if cmp_:
            msg, feats = cmp_
            viol.append(('conserved', (','.join(sorted(feats)) + ': ' if feats else '') + msg, {'text': text}))
    elif errs:
        viol.append(('import-errors', f'{len(errs)} import errors on a well-formed document: {errs[0].encoding!r}', {'text': text}))
    else:
        viol.append(('export-raises', f'default export raised {out}', {'text': text}))
    r = engine.rec('default-export', impl=out, req=docs.model_dumps_req(bad, text), viol=viol,
                   kind=','.join(sorted(g.flags & {'split', 'comment-inside', 'null-row', 'mid-signature'})) or 'plain', key=text,
                   sample={'text': text, 'export': out[3:]} if idx % 53 == 0 else None)
    return {'records': [r]}


# pairs (signifier of several characters, a signifier it contains) whose two orders are read as the same two signifiers
LONG_SHORT = [('&(', '('), ('&)', ')'), ('&&(', '('), ('&&)', ')'), ('Ww', 'w'), ('Ww', 'W'), ('[y', '['), ('&(', '&&(')]


def multi_worker(kp, job):
    """a note (alone or as a note of a chord) carrying a signifier of several characters AND a signifier contained in it,
    in both orders, next to one-character signifiers: the extended export lists exactly these signifiers (none dropped)"""
    seed, idx = job
    rng = random.Random(seed * 611953 + idx)
    records = []
    for _ in range(30):
        long_, short = rng.choice(LONG_SHORT)
        extra = rng.sample(['L', 'J', ';', "'", '^', '~', ':', 'O', 'S'], rng.randint(0, 2))
        ds = [long_, short] + extra
        rng.shuffle(ds)
        if rng.random() < 0.5 and ds.index(long_) < ds.index(short):
            ds[ds.index(long_)], ds[ds.index(short)] = short, long_      # both orders equally often
        note = rng.choice(['4', '8', '2.']) + rng.choice(['c', 'dd', 'E', 'GG']) + ''.join(ds)
        chord = rng.random() < 0.4
        cell = note if not chord else rng.choice([note + ' 4g', '4g ' + note])
        text = f'**kern\n*clefG2\n{cell}\n*-\n'
        viol = []
        try:
            doc, errs = kp.loads(text)
            out = kp.dumps(doc, encoding=kp.Encoding.eKern)
            got_cell = out.split('\n')[2]
            target = got_cell.split(' ')[cell.split(' ').index(note)] if chord else got_cell
            got = set(target.split('\u00b7')[1:])
            if errs:
                viol.append(('import-errors', f'signifiers of several characters: {cell!r} imports with errors', {'text': text}))
            elif not set(ds) <= got:
                viol.append(('conserved', f'signifiers of several characters: {cell!r} is exported as {got_cell!r}: the signifiers {sorted(set(ds) - got)} '
                             f'of {note!r} are lost', {'text': text}))
        except Exception as e:
            viol.append(('export-raises', f'signifiers of several characters: {cell!r} raised {type(e).__name__}', {'text': text}))
        records.append(engine.rec('multi', viol=viol, kind='multi-char-signifiers', key=('multi', cell)))
    return {'records': records}


def run(chk):
    b = core.standard_build(chk)
    model = core.Model() if b.modelrun_ok else None
    full = chk.tier == 'thorough' or bool(b.drift) or not b.proof_ok or not b.modelrun_ok
    n = core.budget(chk, full, 150, 1500)
    chk.rule = ('generated documents of the supported grammar (1-4 spines of every type, interpretations, every barline type, '
                'notes / rests / chords with arbitrary signifier layouts, null tokens, field and global comments, splits and '
                'joins; every 5th with hidden barlines, every 7th with separator characters inside lyrics); each compared cell '
                'by cell with the generator\'s own description; notes carrying a signifier of several characters together with a signifier '
                'it contains (&( and (, Ww and w, [y and [ ...), in both orders; non-trivial = distinct text')
    results = engine.pmap(worker, [(chk.seed, i) for i in range(n)])
    results += engine.pmap(multi_worker, [(chk.seed, i) for i in range(core.budget(chk, full, 8, 80))])
    engine.settle(chk, results, model)
    chk.disagreements_checked = len(chk.broken)


def replay(path):
    rec = json.load(open(path))
    import kernpy as kp
    print(json.dumps(rec, indent=1)[:2500])
    w = rec.get('witness', {})
    if isinstance(w, dict) and 'text' in w:
        doc, errs = kp.loads(w['text'])
        print('errors', errs)
        print(kp.dumps(doc))
    return 0
