"""C19 - Concatenation indexes address the fragments.

proof         : coq/props/C19.v - on the importer model: importing rows r1 ++ r2 is importing r2 from the state reached
                after r1, and the measure index only grows by appending (the measure index of a prefix is a prefix of the
                index of the whole), for every list of rows
correspondence: kernpy.concat(fragments, separator) (indexes + export of the resulting document) vs the extracted model
monitor       : kernpy against the property: same document as importing the joined text, consecutive pairs, last 'to' =
                measure count, exporting pair i reproduces the data lines of fragment i
"""
import itertools
import json
import random

from harness import core, docs, engine, spec
from harness.docs import C1


def worker(kp, job):
    seed, idx = job
    rng = random.Random(seed * 141650939 + idx)
    # every fifth document leaves its splits open across barlines (cuts then fall inside a split region)
    g = docs.gen_doc(rng, kern_only=True, core=(idx % 5 != 4), max_spines=2, measures=rng.randint(2, 6), comments=(idx % 3 == 0), blanks=0,
                     opening_barline=(idx % 4 != 0), empty_measures=(0.35 if idx % 3 == 1 else 0.0))
    g.nl = '\n'
    g.final_nl = False
    lines = g.text.split('\n')
    rows = g.rows()
    # line index of every barline row
    bar_lines = [k for k, l in enumerate(lines) if l and not l.startswith('!!') and all(c.startswith('=') for c in l.split('\t'))]
    records = []
    if not bar_lines:
        return {'records': []}
    cutsets = []
    for r in range(0, min(5, len(bar_lines)) + 1):
        combos = list(itertools.combinations(bar_lines, r))
        rng.shuffle(combos)
        cutsets += combos[:4]
    bad = docs.bad_cells(kp, g.text)
    for cuts in cutsets:
        for sep in ('\n', ''):
            frags = []
            prev = 0
            for c in cuts:
                frags.append(lines[prev:c])
                prev = c
            frags.append(lines[prev:])
            if any(len(f) == 0 for f in frags):
                continue
            # fragments end with a line end or not, independently (the separator is inserted whatever the fragments end with)
            if sep == '\n':
                ftexts = ['\n'.join(f) + ('\n' if rng.random() < 0.4 else '') for f in frags]
            else:
                ftexts = ['\n'.join(f) + '\n' for f in frags[:-1]] + ['\n'.join(frags[-1]) + ('\n' if rng.random() < 0.6 else '')]
            joined = sep.join([''] + ftexts) if False else ''.join(sep + f for f in ftexts)
            viol = []
            first_has_measure = any(l and not l.startswith('!!') and not l.startswith('**') and
                                    any(not (c.startswith('*') and c != '*') and not c.startswith('!') for c in l.split('\t'))
                                    for l in frags[0])
            try:
                doc, idx_pairs = kp.concat(ftexts, separator=sep)
                impl = 'ok:' + ';'.join(f'{a},{b}' for a, b in idx_pairs) + C1 + docs.impl_dumps(kp, doc)
            except Exception as e:
                doc, idx_pairs = None, None
                impl = 'raise:' + type(e).__name__
                viol.append(('concat-raises', f'first-fragment-has-measure={first_has_measure}: concat of {len(ftexts)} fragments raised {type(e).__name__}: {e}',
                             {'fragments': ftexts, 'separator': sep}))
            if doc is not None:
                ref, _ = kp.loads(joined)
                if docs.impl_dumps(kp, doc) != docs.impl_dumps(kp, ref) or \
                        docs.impl_show_doc(kp, doc, []) != docs.impl_show_doc(kp, ref, []):
                    viol.append(('same-document', 'concat does not yield the document of the joined text', {'fragments': ftexts, 'separator': sep}))
                M = ref.measures_count()
                if len(idx_pairs) != len(ftexts):
                    viol.append(('pairs', f'{len(idx_pairs)} pairs for {len(ftexts)} fragments', {'fragments': ftexts, 'separator': sep}))
                else:
                    if idx_pairs[-1][1] != M:
                        viol.append(('pairs', f'last to = {idx_pairs[-1][1]}, measure count {M}', {'fragments': ftexts, 'separator': sep}))
                    for (a1, b1), (a2, b2) in zip(idx_pairs, idx_pairs[1:]):
                        if a2 != b1 + 1 or b2 < a2 - 1:
                            viol.append(('pairs', f'pairs {idx_pairs} are not consecutive', {'fragments': ftexts, 'separator': sep}))
                            break
                    # pair i addresses exactly the measures that START in fragment i (from the generator's own measure starts)
                    if not (idx % 5 == 4):
                        mstarts = spec.measure_starts(g)
                        want_pairs, done_, row0 = [], 0, 0
                        for f_ in frags:
                            nr = len([l for l in f_ if l and not l.startswith('!!')])
                            cnt = sum(1 for r_ in mstarts if row0 <= r_ < row0 + nr)
                            want_pairs.append((0 if not want_pairs else done_ + 1, done_ + cnt))
                            done_ += cnt
                            row0 += nr
                        if [tuple(p_) for p_ in idx_pairs] != want_pairs:
                            viol.append(('pairs', f'pairs {idx_pairs}, the measures that start in each fragment give {want_pairs}', {'fragments': ftexts, 'separator': sep}))
                    # exporting pair i reproduces the data lines of fragment i
                    for i, ((lo, hi), ft) in enumerate(zip(idx_pairs, ftexts)):
                        if hi < lo:
                            continue
                        out = docs.impl_dumps(kp, doc, from_measure=lo, to_measure=hi)
                        if not out.startswith('ok:'):
                            viol.append(('fragment-export', ('open-split: ' if idx % 5 == 4 else '') + f'exporting pair {i} = ({lo},{hi}) raised {out}', {'fragments': ftexts, 'separator': sep}))
                            continue
                        # data lines of the fragment, in canonical form: export of the fragment rows by the oracle
                        fl = [l for l in ft.split('\n') if l]
                        start = sum(len([l for l in f if l and not l.startswith('!!')]) for f in frags[:i])
                        nrows_f = len([l for l in fl if not l.startswith('!!')])
                        want = [c for c, _ in spec.expected_export(g, spec.all_categories(kp), 'kern', row_range=(start, start + nrows_f - 1))]
                        def data(rs):
                            return [r for r in rs if r is not None and not all(c.startswith('=') for c in r) and not all(c.startswith('*') for c in r)]
                        gotd = data(engine.grid(out[3:]))
                        if None not in want and gotd != data(want):
                            viol.append(('fragment-export', f'exporting pair {i} = ({lo},{hi}) gives {len(gotd)} data lines, fragment {i} has {len(data(want))}',
                                         {'fragments': ftexts, 'separator': sep}))
            records.append(engine.rec('concat', impl=impl, req=('concat', [C1.join(bad), sep, C1.join(ftexts)]), viol=viol,
                                      kind=f'{len(ftexts)}-fragments', key=(tuple(ftexts), sep),
                                      sample={'fragments': ftexts, 'separator': sep, 'result': impl.split(C1)[0]} if (idx % 17 == 0 and len(ftexts) == 3) else None))
    return {'records': records}


def long_worker(kp, job):
    """a LONG score (260-320 measures) cut into two or three fragments: the pairs, and the export of every pair - the last
    one ends at the last measure"""
    seed, idx = job
    rng = random.Random(seed * 413158523 + idx)
    nm = rng.randint(260, 320)
    lines = ['**kern\t**kern', '*clefG2\t*clefF4', '*M4/4\t*M4/4']
    notes = ['4c', '4d', '8e', '2f', '4g', '4a', '4b', '4cc']
    bar_at = []
    for m in range(1, nm + 1):
        bar_at.append(len(lines))
        lines.append(f'={m}\t={m}')
        for _ in range(rng.randint(1, 2)):
            lines.append(rng.choice(notes) + '\t' + rng.choice(notes))
    lines += ['==\t==', '*-\t*-']
    cuts = sorted(rng.sample(bar_at[5:-5], rng.randint(1, 2)))
    frags, prev = [], 0
    for c in cuts:
        frags.append(lines[prev:c])
        prev = c
    frags.append(lines[prev:])
    viol = []
    w = {'text_lines': len(lines), 'measures_written': nm, 'cut_lines': cuts}
    try:
        ftexts = ['\n'.join(f) for f in frags]
        doc, pairs = kp.concat(ftexts, separator='\n')
        M = doc.measures_count()
        if len(pairs) != len(frags) or pairs[0][0] != 0 or any(pairs[i + 1][0] != pairs[i][1] + 1 for i in range(len(pairs) - 1)) or pairs[-1][1] != M:
            viol.append(('pairs', f'long score: pairs {pairs} for {len(frags)} fragments and {M} measures', w))
        def data(ls):
            return [l for l in ls if l and not l.startswith(('=', '*', '!'))]
        for i, (lo, hi) in enumerate(pairs):
            try:
                out = kp.dumps(doc, from_measure=lo, to_measure=hi).split('\n')
            except Exception as e:
                viol.append(('fragment-export', f'long score of {M} measures: exporting pair {i} = ({lo},{hi}) raised err:{type(e).__name__}', dict(w, pair=[lo, hi])))
                continue
            if data(out) != data(frags[i]):
                viol.append(('fragment-export', f'long score of {M} measures: exporting pair {i} = ({lo},{hi}) gives {len(data(out))} data lines, fragment {i} has {len(data(frags[i]))}', dict(w, pair=[lo, hi])))
    except BaseException as e:
        if e.__class__.__name__ == 'JobTimeout':
            raise
        viol.append(('concat-raises', f'long score ({len(lines)} lines): {type(e).__name__}', w))
    return {'records': [engine.rec('long', viol=viol[:2], kind='long-score', key=('long', idx, len(lines)))]}


def run(chk):
    b = core.standard_build(chk)
    model = core.Model() if b.modelrun_ok else None
    full = chk.tier == 'thorough' or bool(b.drift) or not b.proof_ok or not b.modelrun_ok
    n = core.budget(chk, full, 40, 300)
    chk.rule = ('generated **kern scores of C07\'s core domain (2-6 measures, with / without opening barline, comments) cut at '
                'sets of barline positions (0..5 cuts, up to 4 sets per size) into 1..6 fragments, separators newline and empty, fragments with and without a final line end; '
                'non-trivial = distinct (fragments, separator)')
    results = engine.pmap(worker, [(chk.seed, i) for i in range(n)])
    results += engine.pmap(long_worker, [(chk.seed, i) for i in range(2 if not full else 6)], nproc=6)
    engine.settle(chk, results, model)
    chk.disagreements_checked = len(chk.broken)


def replay(path):
    rec = json.load(open(path))
    import kernpy as kp
    print(json.dumps(rec, indent=1)[:2500])
    w = rec.get('witness', {})
    if isinstance(w, dict) and 'fragments' in w:
        try:
            doc, pairs = kp.concat(w['fragments'], separator=w['separator'])
            print(pairs)
        except Exception as e:
            print('raises', type(e).__name__, e)
    return 0
