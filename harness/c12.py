"""C12 - Malformed tokens are isolated, reported once and preserved.

proof         : coq/props/C12.v - the kern importer as a state machine over its error listener, for ANY recogniser: with the
                per-call listener of the current source (flag regenerated) the outcome of a cell is independent of the history,
                in every order; a sticky listener is refuted with a witness; the grid of the imported tree does not depend
                on which cells are malformed
correspondence: (a) one KernSpineImporter instance over histories vs the model's state machine fed with the recogniser's
                verdict per cell; (b) whole damaged documents: kernpy's tree + error list vs the extracted importer model
monitor       : kernpy against the property: histories (all orders of small sets, random longer ones); documents with 1..k
                malformed cells: one error per malformed kern cell with its line number, every other token as in the
                undamaged document, malformed cells exported verbatim in place; prefix-accepted garbage -> finding K7
"""
import itertools
import json
import random

from harness import core, docs, engine, spec, tokens
from harness.docs import C1

VALID = ['4c', '8dd#', '2.r', '=1', '*clefG2', '4c 4e', '.', '*', '16BB-L', '*M4/4']
UNKNOWN = ['4zz', 'h', '4c+', 'Ö4c', '4cU', '§', '4c 4zz', '%%', '4&c&&', 'u']
WRONG_ORDER = ['c4', '#4c', 'c#4', '4#c', 'r4', '.4c', '=|1|', '=:1']
TRUNCATED = ['4', '16.', '*cle', '*k[f#', '*M4/', '*met(c', '4%', '8q', '*clef']
GARBAGE_APPENDED = ['4c%%', '=1x', '*clefG9', '4cc#4%', '=1||x', '2.r%', '*M4/4x', '4c 4e%', '====', '*k[f#]c']
# cells on which the recogniser reports an error AND the token builder raises (rests with note-only signifiers ...)
BUILDER_RAISES = ['8rJ', '2r[', 'r]', '2r;]', '4r_', '4rL', 'z2r[', '4r/']
# characters the lexer cannot tokenise at all (control characters, non-ASCII), at the start, inside and at the end
NONASCII = ['4f\u266f', '4\u00a0f#', '\u00bf4E', '4a\x7fL', '4c\u266d', '\u00e9', '\u65e54c', '4c\x01', '\x1b4c',
            '4\ufeffd', '\ufeff4E', '4c\ufeff', '4\u200bc', '8\u00add']      # zero-width / format characters inside a token
# a token truncated to nothing: an empty cell (two tabs in a row, a trailing tab) is an error in a spine of ANY type
EMPTY = ['']
# truncated bounding boxes: the recogniser recovers from them in its own way (the tree walk meets missing children)
BBOX_DAMAGED = ['*xywh-1:10,20,300', '*xywh-1:10,20', '*xywh-1', '*xywh', '*xywh-1:10;20;300;400']
# a note, rest or chord with blanks around it (a blank is the chord separator: the grammar then expects another note)
BLANKS_AROUND = ['4c ', '8.dd#L  ', '2r\u00a0', '4c 4e\x1f', ' 4c', '4c\u2003', '2r ', '16ee-J \u00a0']
# cells that begin with a double quote (a legal signifier): truncated or garbled, never to be read as CSV quoting
QUOTED = ['"4', '"qq"', '"', '"4c"x', '"4 "']
# look-alikes of the null token: two or more dots are no token at all
DOTS = ['..', '...', '.....']
MALFORMED = DOTS + QUOTED + UNKNOWN + WRONG_ORDER + TRUNCATED + GARBAGE_APPENDED + BUILDER_RAISES + NONASCII + EMPTY + EMPTY + BBOX_DAMAGED + BLANKS_AROUND
# malformed by construction (an unknown character, a wrong order, a truncation that is no token): a kern spine MUST
# report these, whatever the recogniser of the tree under test says.  (The others are a valid token followed by
# garbage, which kernpy accepts and shortens - finding K7 - so for them the recogniser's own verdict is used.)
MUST_REJECT = {'..', '...', '.....', '"4', '"qq"', '"', '"4 "', '4zz', 'h', '\u00d64c', '\u00a7', '4c 4zz', '%%', '4&c&&', 'u', 'c4', '#4c', 'c#4', '4#c', 'r4', '=|1|', '=:1',
               '4', '16.', '*cle', '*k[f#', '*M4/', '*met(c', '4%', '8q', '*clef', '4cc#4%',
               '8rJ', '2r[', 'r]', '2r;]', '4r_', '4rL', 'z2r[', '4r/',
               '*xywh-1:10,20,300', '*xywh-1:10,20', '*xywh-1', '*xywh', '*xywh-1:10;20;300;400',
               '4c ', '8.dd#L  ', '2r\u00a0', '4c 4e\x1f', ' 4c', '4c\u2003', '2r ', '16ee-J \u00a0',
               '4\ufeffd', '\ufeff4E', '4c\ufeff', '4\u200bc', '8\u00add',
               '4f\u266f', '4\u00a0f#', '\u00bf4E', '4a\x7fL', '4c\u266d', '\u00e9', '\u65e54c', '4c\x01', '\x1b4c'}


def fresh_outcome(kp, s):
    try:
        return 'tok:' + tokens.dump_token(kp.KernSpineImporter().import_token(s))
    except Exception as e:
        return 'raise'


def history_worker(kp, job):
    hist = job
    imp = kp.KernSpineImporter()
    viol = []
    outs = []
    for k, s in enumerate(hist):
        try:
            o = 'tok:' + tokens.dump_token(imp.import_token(s))
        except Exception:
            o = 'raise'
        outs.append(o)
        f = fresh_outcome(kp, s)
        if o != f:
            viol.append(('history', f'after {hist[:k]} the cell {s!r} gives {tokens.pretty(o)[:80]}, a fresh importer gives {tokens.pretty(f)[:80]}',
                         {'history': hist}))
            break
    verdicts = ','.join('T' if fresh_outcome(kp, s) != 'raise' else 'N' for s in hist)
    impl = 'ok:' + ','.join('kept' if o != 'raise' else 'raise' for o in outs)
    return {'records': [engine.rec('history', impl=impl if len(outs) == len(hist) else None, req=('kern_history', [verdicts]) if len(outs) == len(hist) else None,
                                   viol=viol, kind='history', key=tuple(hist),
                                   sample={'history': hist, 'outcomes': [o[:40] for o in outs]} if hash(tuple(hist)) % 211 == 0 else None)]}


def damage(rng, g, k):
    """replace k data / interpretation / barline cells by malformed text; returns (text, [(line number, column, text, htype)])"""
    lines = []
    spots = []
    for li, (kind, payload) in enumerate(g.lines):
        if kind == 'row':
            for ci, c in enumerate(payload):
                if c.kind in ('note', 'rest', 'chord', 'null', 'interp', 'barline', 'free'):
                    spots.append((li, ci))
    chosen = set(rng.sample(spots, min(k, len(spots))))
    # the text of a malformed kern cell now and then also stands, validly, in a cell of a non-kern spine further down
    echo = {}
    placed = []
    lineno = 0
    for li, (kind, payload) in enumerate(g.lines):
        lineno += 1
        if kind == 'global':
            lines.append(payload)
            continue
        cells = []
        for ci, c in enumerate(payload):
            if (li, ci) in chosen:
                m = rng.choice(MALFORMED)
                while m == '' and len(payload) == 1:
                    m = rng.choice(MALFORMED)       # an empty single-cell line is a blank line, not a cell
                cells.append(m)
                placed.append((lineno, ci, m, c.htype))
                if c.htype in ('**kern', '**root') and m != '' and rng.random() < 0.5:
                    later = [(l2, c2) for (l2, c2) in spots if l2 > li and (l2, c2) not in chosen and (l2, c2) not in echo
                             and g.lines[l2][1][c2].kind == 'free']
                    if later:
                        echo[rng.choice(later)] = m
            elif (li, ci) in echo:
                cells.append(echo[(li, ci)])
                placed.append((lineno, ci, echo[(li, ci)], c.htype))
            else:
                cells.append(c.text)
        lines.append('\t'.join(cells))
    return '\n'.join(lines) + '\n', placed


def doc_worker(kp, job):
    seed, idx = job
    rng = random.Random(seed * 198491317 + idx)
    g = docs.gen_doc(rng, max_spines=3, measures=rng.randint(1, 3), rest_in_chord=0)
    g.nl, g.final_nl = '\n', True
    clean = g.text
    k = rng.choice([1, 1, 2, 3, 4])
    text, placed = damage(rng, g, k)
    bad = docs.bad_cells(kp, text)
    viol = []
    try:
        doc, errs = kp.loads(text)
        dump = 'ok:' + docs.impl_show_doc(kp, doc, errs)
    except Exception as e:
        return {'records': [engine.rec('damaged', impl='raise:' + type(e).__name__, req=('import', [C1.join(bad), text]), key=text,
                                       viol=[('import-succeeds', f'loads raised {type(e).__name__} on a document with malformed cells', {'text': text})])]}
    ref, rerrs = kp.loads(clean)
    w = {'text': text, 'malformed': placed}
    if idx % 2 == 1:
        # the same bytes in a file: the other line reader must cut the same cells (same tree, same errors, same lines)
        import os, shutil, tempfile
        tmp = tempfile.mkdtemp(prefix='kvc12_')
        try:
            path = os.path.join(tmp, 'damaged.krn')
            with open(path, 'w', encoding='utf-8', newline='') as f:
                f.write(text)
            try:
                fdoc, ferrs = kp.load(path)
                fdump = 'ok:' + docs.impl_show_doc(kp, fdoc, ferrs)
            except Exception as e:
                fdump = 'raise:' + type(e).__name__
        finally:
            shutil.rmtree(tmp, ignore_errors=True)
        if fdump != dump:
            viol.append(('import-succeeds' if fdump.startswith('raise') else 'other-tokens',
                         f'file import: load() of a file holding the text gives {("an exception " + fdump[6:]) if fdump.startswith("raise") else "another tree / other errors"} than loads() of the text', w))
    # expected errors: malformed cells in kern-parsed spines that the recogniser rejects (one each, with the line number)
    exp = [(ln, m) for ln, ci, m, ht in placed if m == '' or (ht in ('**kern', '**root') and (m in MUST_REJECT or docs.kern_rejects(kp, m)))]
    base = [(e.line, e.encoding) for e in rerrs]
    got = [(e.line, e.encoding) for e in errs]
    if base:
        viol.append(('one-error-per-cell', f'well-formed cells are reported as errors in the undamaged document: {base[:3]}', {'text': clean}))
    if sorted(got) != sorted(exp + base):
        viol.append(('one-error-per-cell', f'errors reported {got}, malformed kern cells {exp}', w))
    # every other token exactly as without the damage
    dmg = {(ln, ci) for ln, ci, _, _ in placed}
    for si, (sa, sb) in enumerate(zip(doc.tree.stages, ref.tree.stages)):
        if len(sa) != len(sb):
            viol.append(('other-tokens', f'stage {si} has {len(sa)} nodes, {len(sb)} without the damage', w))
            break
        for pi, (na, nb) in enumerate(zip(sa, sb)):
            if (si, pi) in dmg or na.token is None:
                continue
            if tokens.dump_token(na.token) != tokens.dump_token(nb.token):
                viol.append(('other-tokens', f'line {si} cell {pi}: token {na.token.encoding!r} differs from the undamaged document', w))
                break
    # ... and the measures: unless a barline cell itself was damaged, the document has the measures it has without the
    # damage, starting on the same lines (a malformed cell is still a cell of the music)
    try:
        music = {'NOTE_REST', 'NOTE', 'REST', 'CHORD'}
        if placed and all(ht in ('**kern', '**root') and m != '' and (m in MUST_REJECT or docs.kern_rejects(kp, m)) and
                          ln < len(ref.tree.stages) and ci < len(ref.tree.stages[ln]) and ref.tree.stages[ln][ci].token is not None and
                          ref.tree.stages[ln][ci].token.category.name in music for ln, ci, m, ht in placed):
            # every damaged cell was a note, rest or chord and is now an error: still a cell of the music
            ma, mb = list(doc.measure_start_tree_stages), list(ref.measure_start_tree_stages)
            if ma != mb:
                viol.append(('other-tokens', f'notes replaced by malformed cells: the measures start on lines {ma} with the damage and on lines {mb} without it', w))
    except AttributeError:
        pass
    # malformed cells are exported verbatim, in place (default export: kern)
    out = docs.impl_dumps(kp, doc)
    if out.startswith('ok:'):
        for ln, ci, m, ht in placed:
            rejected = (m in MUST_REJECT or docs.kern_rejects(kp, m)) and ht in ('**kern', '**root')
            if ht not in ('**kern', '**root'):
                continue
            if rejected and m.replace('@', '').replace('·', '') not in out:
                viol.append(('verbatim', f'the malformed cell {m!r} of line {ln} does not reappear in the export', w))
            if not rejected:
                # accepted although malformed: it must not have been shortened or altered
                try:
                    t = kp.KernSpineImporter().import_token(m)
                    ex = kp.KernTokenizer(token_categories=set(kp.TokenCategory)).tokenize(t) if hasattr(kp, 'KernTokenizer') else t.export().replace('@', '').replace('·', '')
                except Exception:
                    ex = None
                canon_ok = ex is not None and len(ex) >= len(m) - m.count(' ') - sum(ch.isdigit() for ch in m[:0])
                if ex is not None and not _covers(ex, m):
                    viol.append(('not-shortened', f'prefix-accepted: the malformed cell {m!r} is accepted without error and exported as {ex!r}', w))
    r = engine.rec('damaged', impl=dump, req=('import', [C1.join(bad), text]), viol=viol, kind=f'{len(placed)}-malformed', key=text,
                   sample={'text': text, 'malformed': placed, 'errors': got} if idx % 37 == 0 else None)
    return {'records': [r]}


def _covers(exported, cell):
    """does the exported text still hold every character of the cell (numbers of barlines excepted)?"""
    if cell.startswith('='):
        cell = ''.join(ch for ch in cell if not ch.isdigit())
    pool = list(exported)
    for ch in cell:
        if ch == ' ':
            continue
        if ch in pool:
            pool.remove(ch)
        else:
            return False
    return True


def long_worker(kp, job):
    """a LONG score with malformed cells far down (line numbers beyond 256, 300 ...): one error each with its line
    number, exported verbatim in place, the rest as without the damage"""
    seed, idx = job
    rng = random.Random(seed * 334214459 + idx)
    n = rng.randint(330, 420)
    lines = ['**kern\t**kern', '*clefG2\t*clefF4']
    notes = ['4c', '4d', '8e', '2f', '4g', '4a', '4b', '4cc']
    for k in range(n):
        lines.append(f'={k // 4 + 1}\t={k // 4 + 1}' if k % 4 == 0 else rng.choice(notes) + '\t' + rng.choice(notes))
    lines += ['*-\t*-']
    spots = sorted(rng.sample([k for k in range(2, len(lines) - 1) if not lines[k].startswith('=')], 5) +
                   [max(k for k in range(257, 300) if not lines[k].startswith('='))])
    bad = sorted(MUST_REJECT - {''})
    placed = []
    for k in dict.fromkeys(spots):
        cells = lines[k].split('\t')
        ci = rng.randrange(2)
        m = rng.choice([x for x in bad if '\t' not in x])
        cells[ci] = m
        lines[k] = '\t'.join(cells)
        placed.append((k + 1, ci, m))
    text = '\n'.join(lines) + '\n'
    viol = []
    w = {'text_lines': len(lines), 'malformed': placed}
    try:
        doc, errs = kp.loads(text)
        got = sorted((e.line, e.encoding) for e in errs)
        exp = sorted((ln, m) for ln, ci, m in placed)
        if got != exp:
            viol.append(('one-error-per-cell', f'long score ({len(lines)} lines): errors reported {got}, malformed kern cells {exp}', w))
        out = kp.dumps(doc).split('\n')
        src = [l for l in lines]
        for ln, ci, m in placed:
            # the export keeps one line per source line here (no comments, no null lines): same line, same column
            if ln - 1 >= len(out) or out[ln - 1].split('\t')[ci:ci + 1] != [m]:
                viol.append(('verbatim', f'long score: the malformed cell {m!r} of line {ln} is not exported verbatim in place', w))
                break
    except BaseException as e:
        if e.__class__.__name__ == 'JobTimeout':
            raise
        viol.append(('import-succeeds', f'long score ({len(lines)} lines) with malformed cells: {type(e).__name__}', w))
    return {'records': [engine.rec('long', viol=viol[:2], kind='long-score', key=('long', idx, len(lines)))]}


def run(chk):
    b = core.standard_build(chk)
    model = core.Model() if b.modelrun_ok else None
    full = chk.tier == 'thorough' or bool(b.drift) or not b.proof_ok or not b.modelrun_ok
    rng = chk.rng
    hists = []
    base = ['4c', '4zz', '=1', 'c4']
    for n in range(1, 5):
        for p in itertools.permutations(base, n):
            hists.append(list(p))
    pool = VALID + MALFORMED
    for _ in range(300 if full else 60):
        hists.append([rng.choice(pool) for _ in range(rng.randint(2, 12))])
    for m in MALFORMED:
        hists.append([m, '4c', m, '=1'])
        hists.append(['4c', m, '2g', '4d'])
    from harness import corpus
    for _ in range(120 if full else 30):
        junk = corpus.random_strings(rng, 4, maxlen=5)
        hists.append([junk[0], '4c', junk[1], '=1', junk[2], '2.r', junk[3], '4c 4e'])
    ndocs = core.budget(chk, full, 80, 600)
    chk.rule = ('(a) histories over one KernSpineImporter: all orders of all subsets of {4c, 4zz, =1, c4}, every malformed '
                'sample followed by valid cells, random histories of length 2..12 over valid + malformed cells; (b) generated '
                'documents with 1..4 cells replaced by malformed text (unknown characters, wrong order, truncated, valid + '
                'garbage) in kern and other spines; (c) scores of 330-420 lines with malformed cells far down (line numbers beyond 256); non-trivial = distinct history / text')
    results = engine.pmap(history_worker, hists) + engine.pmap(doc_worker, [(chk.seed, i) for i in range(ndocs)])
    results += engine.pmap(long_worker, [(chk.seed, i) for i in range(2 if not full else 6)], nproc=6)
    engine.settle(chk, results, model)
    chk.disagreements_checked = len(chk.broken)


def replay(path):
    rec = json.load(open(path))
    import kernpy as kp
    print(json.dumps(rec, indent=1)[:2500])
    w = rec.get('witness', {})
    if isinstance(w, dict) and 'history' in w:
        imp = kp.KernSpineImporter()
        for s in w['history']:
            try:
                print(repr(s), '->', imp.import_token(s).encoding)
            except Exception as e:
                print(repr(s), '-> raises', type(e).__name__)
    if isinstance(w, dict) and 'text' in w:
        doc, errs = kp.loads(w['text'])
        print('errors', [(e.line, e.encoding) for e in errs])
        print(kp.dumps(doc))
    return 0
