"""C16 - Pitch spelling codec is lossless and side-effect free.

proof         : coq/props/C16.v (every octave; repetition count is a nat)
correspondence: HumdrumPitchImporter / HumdrumPitchExporter vs the extracted model on the full grid,
                every pitch exported twice and its name/octave read back, plus malformed spellings
monitor       : the property on kernpy against the Gallina spec (spell)
"""
import json
from harness import core


REFUSED = ['h-', 'c####', 'x#', 'dd----', 'H##', 'k', 'CC####', 'e-#-#', '#', '--']


def impl_import(kp, s):
    try:
        p = kp.HumdrumPitchImporter().import_pitch(s)
        return f'ok:{p.name}|{p.octave}'
    except Exception:
        return 'err:raise'


def impl_export2(kp, name, octave):
    try:
        p = kp.AgnosticPitch(name, octave)
        e = kp.HumdrumPitchExporter()
        t1 = e.export_pitch(p)
        t2 = e.export_pitch(p)
        return f'ok:{t1}|{t2}|{p.name}|{p.octave}'
    except Exception:
        return 'err:raise'


def run(chk):
    b = core.standard_build(chk)
    import kernpy as kp
    octs = [-2] + list(range(-1, 10))      # one octave below the grid first (hash(-2) == hash(-1) in CPython: tables keyed by a hash)
    if chk.tier == 'thorough' or b.drift or not b.proof_ok or not b.modelrun_ok:
        octs += [-30, -12, 15, 40]
    octs += [chk.rng.randint(-25, 30) for _ in range(2)]
    grid = [(l, a, o) for l in range(7) for a in range(-3, 4) for o in octs]
    chk.rule = ('exhaustive grid 7 letters x 7 alterations (-3..3) x octaves -1..9 (+ far/random), import and '
                'double export; the same grid through ONE importer and ONE exporter instance in ascending, descending and shuffled order; '
                'plus malformed spellings (mixed case, naturals, digits, empty)')
    chk.exhaustive = True
    model = core.Model() if b.modelrun_ok else None
    spec = model.batch([('spell', [str(l), str(a), str(o)]) for l, a, o in grid]) if model else None
    if spec:
        m_imp = model.batch([('pitch_import', [s[3:].split('|')[0]]) for s in spec])
        m_exp = model.batch([('pitch_export2', [s[3:].split('|')[1], str(o)]) for s, (_, _, o) in zip(spec, grid)])
    for i, (l, a, o) in enumerate(grid):
        chk.case((l, a, o))
        if not spec:
            continue
        text, name = spec[i][3:].split('|')
        r = impl_import(kp, text)
        if r != m_imp[i]:
            chk.mismatch('import_pitch', text, f'impl={r} model={m_imp[i]}')
        if r != f'ok:{name}|{o}':
            chk.violation('import', f'import_pitch({text!r}) = {r!r}, expected {name}|{o}', {'spelling': text})
        e = impl_export2(kp, name, o)
        if e != m_exp[i]:
            chk.mismatch('export_pitch twice', [name, o], f'impl={e} model={m_exp[i]}')
        if e.startswith('ok:'):
            t1, t2, n_after, o_after = e[3:].split('|')
            if t1 != text:
                chk.violation('export', f'export_pitch({name},{o}) = {t1!r}, expected {text!r}', {'name': name, 'octave': o})
            if t2 != t1:
                chk.violation('export-twice', f'second export of ({name},{o}) = {t2!r}, first {t1!r}',
                              {'name': name, 'octave': o})
            if n_after != name or o_after != str(o):
                chk.violation('export-pure', f'export_pitch altered the pitch ({name},{o}) -> ({n_after},{o_after})',
                              {'name': name, 'octave': o})
        else:
            chk.violation('export', f'export_pitch({name},{o}) raised', {'name': name, 'octave': o})
        # the same pitch built from the other spellings of its name the constructor accepts (# for +, lower-case letter)
        if a > 0 or True:
            for alt in {name.replace('+', '#'), name[0].lower() + name[1:], name[0].lower() + name[1:].replace('+', '#')} - {name}:
                e2 = impl_export2(kp, alt, o)
                if e2.startswith('ok:') and e2[3:].split('|')[0] != text:
                    chk.violation('export', f'a pitch built as AgnosticPitch({alt!r},{o}) exports {e2[3:].split("|")[0]!r}, built as ({name!r},{o}) it exports {text!r}',
                                  {'name': alt, 'octave': o})
                    break
        if i % 97 == 0:
            chk.sample({'spelling': text, 'import': r, 'export_twice': e})
    # ---- histories: ONE importer and ONE exporter instance over the whole grid, in several orders: the answers must be
    # those of fresh instances (the codec keeps no state between calls)
    if spec:
        texts = [s_[3:].split('|')[0] for s_ in spec]
        names = [s_[3:].split('|')[1] for s_ in spec]
        orders = [list(range(len(grid))), list(reversed(range(len(grid))))]
        for _ in range(3 if chk.tier == 'thorough' else 1):
            o_ = list(range(len(grid)))
            chk.rng.shuffle(o_)
            orders.append(o_)
        for order in orders:
            imp, exp_ = kp.HumdrumPitchImporter(), kp.HumdrumPitchExporter()
            bad_h = None
            held = []          # every result is kept: a later call must not rewrite an earlier result
            for k in order:
                l, a, o = grid[k]
                chk.evaluations += 1
                if k % 5 == 2:
                    # a refused spelling on the same importer (unknown letter, four accidentals, mixed signs): the error path
                    # must leave nothing behind for the next spelling
                    try:
                        imp.import_pitch(REFUSED[(k // 5) % len(REFUSED)])
                    except Exception:
                        pass
                try:
                    p = imp.import_pitch(texts[k])
                    got_i = f'{p.name}|{p.octave}'
                    held.append((k, p))
                except Exception:
                    got_i = 'raise'
                try:
                    q = kp.AgnosticPitch(names[k], o)
                    t1 = exp_.export_pitch(q)
                    t2 = exp_.export_pitch(q)
                    got_e = f'{t1}|{t2}|{q.name}|{q.octave}'
                except Exception:
                    got_e = 'raise'
                if got_i != f'{names[k]}|{o}' and bad_h is None:
                    bad_h = ('history-import', f'one importer instance: import_pitch({texts[k]!r}) = {got_i} after earlier imports, expected {names[k]}|{o}',
                             {'spelling': texts[k], 'order': 'shared-instance'})
                if got_e != f'{texts[k]}|{texts[k]}|{names[k]}|{o}' and bad_h is None:
                    bad_h = ('history-export', f'one exporter instance: export_pitch({names[k]},{o}) twice = {got_e} after earlier exports, expected {texts[k]!r}',
                             {'name': names[k], 'octave': o, 'order': 'shared-instance'})
            seen_ids = set()
            for k, p in held:
                l, a, o = grid[k]
                if (f'{p.name}|{p.octave}' != f'{names[k]}|{o}' or id(p) in seen_ids) and bad_h is None:
                    bad_h = ('history-import', f'one importer instance: the pitch returned for {texts[k]!r} reads {p.name}|{p.octave} after later imports '
                             f'(expected {names[k]}|{o}; same object handed out twice: {id(p) in seen_ids})', {'spelling': texts[k], 'order': 'shared-instance-retained'})
                seen_ids.add(id(p))
            chk.distinct.add(('history', tuple(order[:8])))
            if bad_h:
                chk.violation(*bad_h)
    # the other notation of the library (American pitch names) has been used in this process: the Humdrum codec answers as before
    if spec:
        try:
            for am in ('C#4', 'Bb3', 'F##2', 'E4'):
                kp.AmericanPitchImporter().import_pitch(am)
            kp.transpose('Eb4', 11, input_format='american')
        except Exception:
            pass
        na = 0
        for i, (l, a, o) in enumerate(grid):
            text, name = spec[i][3:].split('|')
            chk.case(('after-american', l, a, o), kind='after-american')
            r = impl_import(kp, text)
            e = impl_export2(kp, name, o)
            if (r != f'ok:{name}|{o}' or not e.startswith(f'ok:{text}|{text}|')) and na < 8:
                na += 1
                chk.violation('import' if r != f'ok:{name}|{o}' else 'export', f'after the American pitch importer was used in this process: import_pitch({text!r}) = {r!r}, '
                              f'export twice = {e!r} (expected {name}|{o} and {text!r})', {'spelling': text, 'history': 'american-importer-first'})
    # the pitch object is the caller's: exported, then renamed / moved through its public setters, then exported again
    # it spells what a freshly built pitch of the new name and octave spells (and imports back to it)
    nv = 0
    for _ in range(400 if not (chk.tier == 'thorough' or b.drift or not b.proof_ok or not b.modelrun_ok) else 4000):
        r_ = chk.rng
        def rnd_name():
            a_ = r_.randint(-3, 3)
            return 'CDEFGAB'[r_.randrange(7)] + ('+' * a_ if a_ >= 0 else '-' * (-a_))
        n1, o1, n2, o2 = rnd_name(), r_.randint(-1, 9), rnd_name(), r_.randint(-1, 9)
        chk.case(('renamed', n1, o1, n2, o2), kind='renamed-object')
        try:
            p = kp.AgnosticPitch(n1, o1)
            ex = kp.HumdrumPitchExporter()
            first = ex.export_pitch(p)
            if r_.random() < 0.8:
                p.name = n2
            else:
                n2 = n1
            if r_.random() < 0.6:
                p.octave = o2
            else:
                o2 = o1
            got = (ex if r_.random() < 0.5 else kp.HumdrumPitchExporter()).export_pitch(p)
            want = kp.HumdrumPitchExporter().export_pitch(kp.AgnosticPitch(n2, o2))
        except Exception as e:
            got, want = 'raise:' + type(e).__name__, None
        if got != want and nv < 8:
            nv += 1
            chk.violation('export', f'a pitch ({n1},{o1}) was exported ({first!r}), then set to ({n2},{o2}) through its setters: exported again it reads {got!r}, '
                          f'a fresh ({n2},{o2}) reads {want!r}', {'name': n2, 'octave': o2, 'history': 'export-rename-export'})
    # malformed / unusual spellings: model vs impl only (outside the property's quantifier)
    if model:
        odd = ['', 'c#-', 'cC', 'ccn', 'E-X', 'h', 'c1', '#', '--', 'cd', 'Cc#', 'r', 'cc##-', 'c####', 'c----',
               'B+', 'c ', 'c+', 'C-+']  # ASCII only: the model counts bytes, python code points (DESIGN 6)
        for _ in range(60):
            n = chk.rng.randint(1, 5)
            odd.append(''.join(chk.rng.choice('abcdefgABCDEFG#-nxh1 ') for _ in range(n)))
        mo = model.batch([('pitch_import', [s]) for s in odd])
        for s, m in zip(odd, mo):
            chk.case(('odd', s), kind='malformed')
            r = impl_import(kp, s)
            if r != m:
                chk.mismatch('import_pitch (malformed)', s, f'impl={r} model={m}')
    chk.traces_validated = chk.evaluations
    chk.disagreements_checked = len(chk.broken)


def replay(path):
    rec = json.load(open(path))
    import kernpy as kp
    w = rec.get('witness', {})
    if isinstance(w, dict) and 'spelling' in w:
        print('import', w['spelling'], '->', impl_import(kp, w['spelling']))
    if isinstance(w, dict) and 'name' in w:
        print('export twice', w, '->', impl_export2(kp, w['name'], w['octave']))
    print(json.dumps(rec, indent=1)[:2000])
    return 0
