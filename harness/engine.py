"""Shared document-level engine: deterministic per-job generation, parallel evaluation of the implementation
(ANTLR parsing dominates the cost), batched evaluation of the extracted model, comparison and bookkeeping."""
import multiprocessing
import os
import random
import sys
import traceback

from harness import core, docs, tokens

NPROC = max(2, min(15, (os.cpu_count() or 4) - 1))


def _init_worker():
    core_path = core.REPO
    for p in list(sys.path):
        if p.rstrip('/') == core_path:
            sys.path.remove(p)
    sys.path.insert(0, core_path)


JOB_TIMEOUT = int(os.environ.get('KERNPY_VERIF_JOB_TIMEOUT', '600'))     # seconds; a job normally takes well under ten


class JobTimeout(BaseException):
    pass


def _alarm(signum, frame):
    raise JobTimeout()


def _call(args):
    fn, job = args
    import signal
    old = signal.signal(signal.SIGALRM, _alarm)
    signal.alarm(JOB_TIMEOUT)
    try:
        import kernpy as kp
        from harness import docs as _docs
        del _docs.SESSION_MISMATCHES[:]
        res = fn(kp, job)
        if _docs.SESSION_MISMATCHES and isinstance(res, dict) and 'records' in res:
            res['records'].append(rec('session', viol=[('session', sig, dict(wit, job=repr(job)[:300])) for sig, wit in _docs.SESSION_MISMATCHES[:3]],
                                      kind='session', key=('session', repr(job)[:200])))
            del _docs.SESSION_MISMATCHES[:]
        return res
    except JobTimeout:
        # a call of the library that does not return is a failing input of whatever property the job explores
        return {'records': [rec('timeout', viol=[('terminates', f'the library did not return within {JOB_TIMEOUT} s on this job', {'job': repr(job)[:2000]})],
                                kind='timeout', key=('timeout', repr(job)[:200]))]}
    except Exception:
        return {'crash': traceback.format_exc(), 'job': repr(job)[:300], 'records': []}
    finally:
        signal.alarm(0)
        signal.signal(signal.SIGALRM, old)


def pmap(fn, jobs, nproc=None):
    """fn(kp, job) -> dict(records=[...]) evaluated in worker processes; results in job order"""
    nproc = nproc or NPROC
    if len(jobs) <= 2 or nproc <= 1:
        _init_worker()
        return [_call((fn, j)) for j in jobs]
    ctx = multiprocessing.get_context('fork')
    with ctx.Pool(nproc, initializer=_init_worker) as pool:
        return pool.map(_call, [(fn, j) for j in jobs], chunksize=max(1, len(jobs) // (nproc * 4)))


def rec(label, impl=None, req=None, viol=None, kind=None, key=None, sample=None, nontrivial=True):
    """one explored case: an implementation observation, the model request that must agree with it,
    and the violations of the property observed on the implementation"""
    return {'label': label, 'impl': impl, 'req': req, 'viol': viol or [], 'kind': kind, 'key': key or label,
            'sample': sample, 'nontrivial': nontrivial}


def settle(chk, results, model, what='document'):
    """register cases, run the model on all requests in one batch, compare, register violations"""
    records = []
    for r in results:
        if r.get('crash'):
            chk.obligation_broken('harness worker crashed: ' + r['crash'][-400:] + ' job=' + r.get('job', ''))
        records.extend(r['records'])
    reqs = [(i, r['req']) for i, r in enumerate(records) if r['req'] is not None]
    answers = {}
    if model is not None and reqs:
        for (i, _), a in zip(reqs, model.batch([q for _, q in reqs])):
            answers[i] = a
    nout = 0
    for i, r in enumerate(records):
        chk.case(r['key'], nontrivial=r['nontrivial'], kind=r['kind'])
        for (clause, sig, wit) in r['viol']:
            chk.violation(clause, sig, wit)
        if i in answers:
            a = answers[i]
            if a == 'out':
                nout += 1
            elif r['impl'] is not None and not docs.same_result(r['impl'], a):
                chk.mismatch(r['label'], r.get('witness') or r['key'],
                             f"impl={docs.pretty(str(r['impl']))[:400]} model={docs.pretty(a)[:400]}")
                if not hasattr(chk, 'mismatched_records'):
                    chk.mismatched_records = []
                if len(chk.mismatched_records) < 50:
                    chk.mismatched_records.append(r)
            chk.traces_validated += 1
        if r['sample'] is not None:
            chk.sample(r['sample'])
    chk.notes['outside_model'] = chk.notes.get('outside_model', 0) + nout
    chk.notes['model_requests'] = chk.notes.get('model_requests', 0) + len(reqs)
    return records


# --------------------------------------------------------------------------- reference spine-path model

SPINE_OPS = ('*-', '*+', '*^', '*v', '*x')


def reference_paths(rows):
    """rows: list of lists of cell texts (no global comments).  Independent reading of the Humdrum
    spine-path rules: returns for every row the list of (parent index in the previous row or None,
    origin column) or raises ValueError for a row with surplus cells."""
    out = []
    live = None        # list of (origin column) for the cells expected in the next row, with their parent index
    for r, row in enumerate(rows):
        if live is None:
            cur = [(None, i) for i in range(len(row))]
        else:
            if len(row) > len(live):
                raise ValueError(f'row {r} has {len(row)} cells for {len(live)} live paths')
            cur = live[:len(row)]
        out.append(cur)
        nxt = []
        for i, cell in enumerate(row):
            origin = cur[i][1]
            if cell == '*-':
                continue
            if cell in ('*^', '*+'):
                nxt.append((i, origin))
                nxt.append((i, origin))
            elif cell == '*v':
                if i > 0 and row[i - 1] == '*v' and cur[i - 1][1] == origin:
                    continue          # merged into the path that continues from the first *v of the run
                nxt.append((i, origin))
            else:
                nxt.append((i, origin))
        live = nxt
    return out


def grid(text):
    return [line.split('\t') for line in text.split('\n') if line != '']
