"""Token-level helpers: dump of a kernpy token in the format of model/RunTok.v, CKL token generators
(notes / rests / chords with signifier layouts, barlines, interpretations) and the exhaustive
single-character / pair sweep that validates the scanner's signifier tables."""
import copy
import itertools

C1, C2, C3, C4, C5 = '\x01', '\x02', '\x03', '\x04', '\x05'

NOTE_DECO = 'ijklmstwJKLMNOSTVXZ"$\'()/:;[\\]^_`{}~'
REST_DECO = "X'();{}"
DISPLAY = 'xXiIjZyY'
# the signifiers of the property's canonicity claim that are also display suffixes
DECO_ALSO_DISPLAY = [c for c in NOTE_DECO if c in DISPLAY]


def show_sub(s):
    return s.encoding + C5 + s.category.name


def show_note(n):
    return (n.encoding + C3 + C4.join(show_sub(s) for s in n.pitch_duration_subtokens) + C3 +
            C4.join(show_sub(s) for s in n.decoration_subtokens))


def dump_token(t):
    cls = type(t).__name__
    body = ''
    if cls == 'NoteRestToken':
        body = show_note(t)
    elif cls == 'ChordToken':
        body = C2.join(show_note(n) for n in t.notes_tokens)
    return C1.join([cls, t.category.name, t.encoding, '1' if getattr(t, 'hidden', False) else '0', body])


def impl_kparse(kp, cell):
    try:
        return 'tok:' + dump_token(kp.KernSpineImporter().import_token(cell))
    except Exception as e:
        return 'err:' + type(e).__name__


def pretty(d):
    return d.replace(C1, ' | ').replace(C2, ' || ').replace(C3, ' ; ').replace(C4, ',').replace(C5, ':')


# --------------------------------------------------------------------------- generators

DURATIONS = ['1', '2', '4', '8', '16', '32', '64', '0', '00', '3', '6', '12', '24', '4%3', '2%5', '12%7']
LETTERS = 'abcdefgABCDEFG'


def gen_duration(rng):
    if rng.random() < 0.08:
        return ''
    d = rng.choice(DURATIONS)
    d += '.' * rng.choice([0, 0, 0, 1, 1, 2])
    d += rng.choice(['', '', '', '', 'q', 'qq', 'p', 'P'])
    return d


def gen_pitch(rng):
    return rng.choice(LETTERS) * rng.choice([1, 1, 1, 2, 2, 3, 4])


PLAIN_ACC = False      # set by generators that must stay inside the agnostic encodings' quantifier (no natural / display)


def gen_accidental(rng, allow_display=True):
    if PLAIN_ACC:
        return rng.choice(['', '', '', '#', '-', '##', '--'])
    a = rng.choice(['', '', '', '#', '-', 'n', '##', '--', '###', '---'])
    if a and allow_display and rng.random() < 0.25:
        a += rng.choice(['x', 'X', 'i', 'I', 'j', 'Z', 'y', 'yy', 'Y', 'YY'])
    return a


def gen_decos(rng, table, kmax=4):
    n = rng.choice([0, 0, 1, 1, 2, 3, kmax])
    return [rng.choice(table) for _ in range(n)]


def layout(rng, decos, nslots):
    """distribute signifiers over slots, any order, with repetitions"""
    slots = [[] for _ in range(nslots)]
    pool = list(decos)
    if pool and rng.random() < 0.3:
        pool += [rng.choice(pool) for _ in range(rng.randint(1, 2))]   # repetition
    rng.shuffle(pool)
    for d in pool:
        slots[rng.randrange(nslots)].append(d)
    return [''.join(s) for s in slots]


NOTE_DECO_PLAIN = ''.join(c for c in NOTE_DECO if c not in DISPLAY)


def gen_note(rng, decos=None, table=NOTE_DECO, allow_display_decos=True, acc=None):
    """returns (text, ast) ; ast = dict(dur, pitch, acc, decos).  The signifiers that the grammar also reads as
    an accidental-display suffix (i j X Z) are generated only on notes without accidental (the property's own
    restriction)."""
    dur = gen_duration(rng)
    pitch = gen_pitch(rng)
    if acc is None:
        acc = gen_accidental(rng)
    if decos is None:
        decos = gen_decos(rng, table if (not acc and allow_display_decos) else NOTE_DECO_PLAIN)
    s = layout(rng, decos, 4)
    if not acc:
        s[2] += s[3]
        s[3] = ''
    text = s[0] + dur + s[1] + pitch + s[2] + acc + s[3]
    return text, {'kind': 'note', 'dur': dur, 'pitch': pitch, 'acc': acc, 'decos': sorted(set(decos))}


def gen_rest(rng):
    dur = gen_duration(rng)
    decos = gen_decos(rng, REST_DECO, 3)
    s = layout(rng, decos, 2)
    r = rng.choice(['r', 'r', 'r', 'rr'])
    return s[0] + dur + r + s[1], {'kind': 'rest', 'dur': dur, 'decos': sorted(set(decos))}


def gen_chord(rng, rest_in_chord=0.03):
    """notes share the union of their signifiers, so the display-suffix signifiers are generated only in chords
    none of whose notes has an accidental; a rest inside a chord is rare (finding K11)"""
    n = rng.choice([2, 2, 3, 3, 4])
    with_acc = rng.random() < 0.6
    parts, asts = [], []
    for i in range(n):
        if i > 0 and rng.random() < 0.12:
            # a doubling: an element that repeats an earlier one of this chord to the letter (unisons, `8r 8r`)
            k = rng.randrange(i)
            t, a = parts[k], copy.deepcopy(asts[k])
        elif rng.random() < rest_in_chord:
            t, a = gen_rest(rng)
        else:
            t, a = gen_note(rng, allow_display_decos=not with_acc, acc=None if with_acc else '')
        parts.append(t)
        asts.append(a)
    return ' '.join(parts), {'kind': 'chord', 'notes': asts}


BAR_TYPES = ['', '', '||', '|!', '|!:', '|:', '!|:', ':|!', ':|!|:', ':||:', ':!:', ':!!:', '=']


def gen_barline(rng):
    t = '=' + rng.choice(['', '', '='])
    t += rng.choice(['', '', '1', '2', '12', '107'])
    t += rng.choice(['', '', '', 'a', 'b', 'ab'])
    t += rng.choice(['', '', '', '', '-'])
    t += rng.choice(BAR_TYPES)
    t += rng.choice(['', '', '', ';'])
    return t


INTERP = ['*clefG2', '*clefF4', '*clefF3', '*clefC1', '*clefC2', '*clefC3', '*clefC4', '*clefGv2', '*clefG^2', '*clefGvv2',
          '*clefG^^2', '*clefFv4', '*clefG', '*clefP', '*clefT5', '*clefC5',
          '*k[]', '*k[f#]', '*k[f#c#]', '*k[b-]', '*k[b-e-a-]', '*k[f#c#g#d#a#e#b#]', '*k[bn]', '*k[f#]X', '*k[f##]', '*kcancel',
          '*M4/4', '*M3/4', '*M6/8', '*M12/16', '*M2/2', '*met(c)', '*met(c|)',
          '*staff1', '*staff2', '*staff12', '*MM120', '*MM60', '*MM1',
          '*C:', '*a:', '*c#:', '*B-:', '*e-:', '*d:dor', '*e:phr', '*f:lyd', '*g:mix', '*a:aeo', '*c:ion', '*b:loc', '*F#:', '*gn:',
          '*8va', '*X8va', '*8ba', '*X8ba',
          '*above', '*below', '*centered', '*cue', '*Xcue', '*tremolo', '*Xtremolo', '*ped', '*Xped', '*ela', '*tuplet',
          '*Xtuplet', '*tstart', '*tend', '*solo', '*accomp', '*strophe', '*lh', '*rh', '*tb4', '*tb16', '*part1', '*group2',
          '*Ipiano', '*I"sax', '*Ivioln', '*ICklav', '*Iflt', '*I"Violin I', '*', '.']


def gen_token(rng):
    r = rng.random()
    if r < 0.45:
        return gen_note(rng)[0]
    if r < 0.55:
        return gen_rest(rng)[0]
    if r < 0.75:
        return gen_chord(rng)[0]
    if r < 0.88:
        return gen_barline(rng)
    return rng.choice(INTERP)


def sweep_cells():
    """every printable ASCII character at every slot of a note and of a rest (with and without
    accidental, doubled), plus every ordered pair of the scanner's signifier tables"""
    out = []
    chars = [chr(i) for i in range(33, 127)]
    for c in chars:
        for t in (f'{c}4c', f'4{c}c', f'4c{c}', f'4c#{c}', f'4c{c}#', f'{c}4c#', f'4c{c}{c}', f'{c}4c{c}', f'c{c}', f'{c}c',
                  f'{c}4r', f'4{c}r', f'4r{c}', f'4r{c}{c}', f'r{c}', f'{c}r', f'4c- {c}4e', f'4c{c} 4e', f'4c 4e{c}', f'={c}', f'=1{c}'):
            out.append(t)
    for a, b in itertools.product(NOTE_DECO, repeat=2):
        out.append(f'4c{a}{b}')
        out.append(f'{a}{b}4c#')
    for a, b in itertools.product(REST_DECO, repeat=2):
        out.append(f'4r{a}{b}')
    return out
