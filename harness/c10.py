"""C10 - Agnostic encoding depends only on staff position and accidental.

proof         : coq/props/C10.v (every clef class x letter x alteration -3..3 x EVERY octave: same staff position
                under G2; identity under G2; k steps -> k steps; bottom line -> 'e'; accidental copied; octave
                marks ignored)
correspondence: pitch_to_gkern_string / ClefFactory.create_clef / gkern_to_g_clef_pitch vs the extracted model on
                the whole clef x marks x letter x alteration x octave grid (+ far octaves), and malformed clefs
monitor       : the clauses of the property directly on kernpy (against the Coq oracle spell_dia and against
                HumdrumPitchExporter); document level: see harness/docprops.py (akern vs kern export)
"""
import json
from harness import core

CLEFS = [('G', 2, 'GClef'), ('F', 3, 'F3Clef'), ('F', 4, 'F4Clef'), ('C', 1, 'C1Clef'), ('C', 2, 'C2Clef'),
         ('C', 3, 'C3Clef'), ('C', 4, 'C4Clef')]
MARKS = ['', 'v', '^', 'vv', '^^']
LETTERS = 'CDEFGAB'


def pname(l, a):
    return LETTERS[l] + ('+' * a if a >= 0 else '-' * (-a))


def impl_gkern(kp, name, octave, clef_enc):
    try:
        clef = kp.ClefFactory.create_clef(clef_enc)
    except Exception:
        return 'err:clef'
    try:
        p = kp.AgnosticPitch(name, octave)
    except Exception:
        return 'err:pitch'
    try:
        return f'ok:{type(clef).__name__}|{kp.pitch_to_gkern_string(p, clef)}'
    except Exception:
        return 'err:raise'


def run(chk):
    b = core.standard_build(chk)
    import kernpy as kp
    model = core.Model() if b.modelrun_ok else None
    full = chk.tier == 'thorough' or bool(b.drift) or not b.proof_ok or not b.modelrun_ok
    octs = list(range(0, 9)) + ([-40, -7, -1, 9, 15, 33] if full else [-3, 12]) + [chk.rng.randint(-60, 60)]
    alts = list(range(-3, 4)) if full else [-2, -1, 0, 1, 2, 3]
    chk.exhaustive = True
    chk.rule = ('exhaustive grid: 7 clefs x octave marks {none,v,^,vv,^^} x 7 letters x alterations x octaves 0..8 '
                '(+ far and one random octave); malformed clef encodings; staff-position strings T@n / S@n. '
                'non-trivial = distinct (clef encoding, pitch)')
    grid = [(cn, ln, cls, mk, l, a, o) for cn, ln, cls in CLEFS for mk in MARKS for l in range(7) for a in alts for o in octs]
    reqs = [('gkern', [pname(l, a), str(o), f'*clef{cn}{mk}{ln}']) for cn, ln, cls, mk, l, a, o in grid]
    specs = [('gkern_spec', [str(l), str(a), str(o), cls]) for cn, ln, cls, mk, l, a, o in grid]
    m_out = model.batch(reqs) if model else None
    m_spec = model.batch(specs) if model else None
    exporter = kp.HumdrumPitchExporter()
    base = {}
    for i, (cn, ln, cls, mk, l, a, o) in enumerate(grid):
        enc = f'*clef{cn}{mk}{ln}'
        r = impl_gkern(kp, pname(l, a), o, enc)
        chk.case((enc, l, a, o))
        base[(cls, mk, l, a, o)] = r
        if m_out and r != m_out[i]:
            chk.mismatch('pitch_to_gkern_string', {'pitch': pname(l, a), 'octave': o, 'clef': enc}, f'impl={r} model={m_out[i]}')
        want = None
        if m_spec and m_spec[i].startswith('ok:'):
            want = f'ok:{cls}|{m_spec[i][3:]}'
            if r != want:
                chk.violation('same-position', f'pitch_to_gkern_string({pname(l, a)}{o}, {enc}) = {r}, same staff position under G2 is {want}',
                              {'pitch': pname(l, a), 'octave': o, 'clef': enc})
        if i % 1499 == 0:
            chk.sample({'pitch': pname(l, a), 'octave': o, 'clef': enc, 'agnostic': r})
    # ---- clauses of the property, directly on the implementation
    for (cls, mk, l, a, o), r in base.items():
        if not r.startswith('ok:'):
            chk.violation('total', f'{cls}{mk} {pname(l, a)}{o} -> {r}', {'pitch': pname(l, a), 'octave': o, 'clef': cls + mk})
            continue
        g = r.split('|', 1)[1]
        if cls == 'GClef':
            t = exporter.export_pitch(kp.AgnosticPitch(pname(l, a), o))
            if g != t:
                chk.violation('g2-identity', f'G2{mk}: {pname(l, a)}{o} -> {g}, kern spelling {t}', {'pitch': pname(l, a), 'octave': o})
        if mk and base[(cls, '', l, a, o)] != r:
            chk.violation('octave-marks', f'{cls} with marks {mk!r}: {pname(l, a)}{o} -> {g}, without marks {base[(cls, "", l, a, o)]}',
                          {'pitch': pname(l, a), 'octave': o, 'clef': cls, 'marks': mk})
        acc = '#' * a if a >= 0 else '-' * (-a)
        r0 = base[(cls, mk, l, 0, o)]
        if r0.startswith('ok:') and g != r0.split('|', 1)[1] + acc:
            chk.violation('accidental', f'{cls}{mk}: {pname(l, a)}{o} -> {g}, natural pitch -> {r0}', {'pitch': pname(l, a), 'octave': o, 'clef': cls})
        # one diatonic step up moves the G2 reading one step up
        l2, o2 = (l + 1) % 7, o + (1 if l == 6 else 0)
        r2 = base.get((cls, mk, l2, 0, o2))
        if a == 0 and r2 and r2.startswith('ok:'):
            try:
                p1 = kp.HumdrumPitchImporter().import_pitch(g)
                p2 = kp.HumdrumPitchImporter().import_pitch(r2.split('|', 1)[1])
                d1 = 7 * p1.octave + LETTERS.index(p1.name[0])
                d2 = 7 * p2.octave + LETTERS.index(p2.name[0])
                if d2 - d1 != 1:
                    chk.violation('steps', f'{cls}{mk}: step {pname(l, 0)}{o}->{pname(l2, 0)}{o2} moves agnostic {g}->{r2}',
                                  {'pitch': pname(l, 0), 'octave': o, 'clef': cls})
            except Exception as e:
                chk.violation('steps', f'agnostic spelling {g!r} does not re-import: {e}', {'pitch': pname(l, a), 'octave': o, 'clef': cls})
    for cn, ln, cls in CLEFS:
        bl = getattr(kp, cls)().bottom_line()
        got = kp.pitch_to_gkern_string(bl, getattr(kp, cls)())
        chk.case(('bottom', cls))
        if got != 'e':
            chk.violation('bottom-line', f'{cls}: bottom line {bl} -> {got!r}', {'clef': cls})
    # ---- malformed / unusual clef encodings and position strings: model vs impl
    if model:
        odd = ['*clefG', '*clefX2', '*clef', '*clefF2', '*clefF5', '*clefC5', '*clefC0', '*clefGv', 'G2', 'F4', '*clefG22',
               '*clefCF3', '*clefFC3', '*clef3G', '*clefG2v', '*clefvG2', '*clefC^v1', 'clefG2', '*clefg2', '*clefG2*clef']
        for _ in range(40):
            odd.append('*clef' + ''.join(chk.rng.choice('GFCXgv^0123459') for _ in range(chk.rng.randint(1, 4))))
        mo = model.batch([('create_clef', [s]) for s in odd])
        for s, m in zip(odd, mo):
            chk.case(('clef', s), kind='malformed-clef')
            try:
                r = 'ok:' + type(kp.ClefFactory.create_clef(s)).__name__
            except Exception:
                r = 'err:raise'
            if r != m:
                chk.mismatch('create_clef', s, f'impl={r} model={m}')
        pos = [f'{k}@{n}' for k in 'TS' for n in range(-25, 30)] + ['T@-0', 'S@007']
        mo = model.batch([('gkern_pos', [s]) for s in pos])
        for s, m in zip(pos, mo):
            chk.case(('pos', s), kind='position-string')
            try:
                r = 'ok:' + kp.gkern_to_g_clef_pitch(s)
            except Exception:
                r = 'err:raise'
            if r != m:
                chk.mismatch('gkern_to_g_clef_pitch', s, f'impl={r} model={m}')
    try:
        from harness import docprops
        docprops.c10_document_level(chk, b)
    except ImportError:
        chk.notes['document_level'] = 'not run (document harness absent)'
    chk.traces_validated = chk.evaluations
    chk.disagreements_checked = len(chk.broken)


def replay(path):
    rec = json.load(open(path))
    import kernpy as kp
    w = rec.get('witness', {})
    print(json.dumps(rec, indent=1)[:1500])
    if isinstance(w, dict) and 'pitch' in w and 'clef' in w and str(w['clef']).startswith('*clef'):
        print('now ->', impl_gkern(kp, w['pitch'], w['octave'], w['clef']))
    return 0
