"""C04 - The six encodings are consistent views of one document.

proof         : coq/props/C04.v - plain = extended with separators removed (kern/ekern, bkern/bekern, akern/aekern),
                basic = reduction of the extended text note by note, factory dispatch, header prefix, non-note cells
                identical: for every token, category selection and clef (tables regenerated from tokenizers.py)
correspondence: dumps(doc, encoding=E, include/exclude) of kernpy vs the extracted model, documents x six encodings x
                category selections that keep durations or pitches
monitor       : the relations between kernpy's six exports, and each export against the generator's description
"""
import json
import random

from harness import core, docs, engine, optprops, spec
from harness.docs import C1

SELECTIONS = [None, {'exclude': ['DECORATION']}, {'include': ['CORE', 'BARLINES', 'STRUCTURAL', 'SIGNATURES']},
              {'exclude': ['ALTERATION']}, {'include': ['DURATION', 'PITCH', 'STRUCTURAL', 'BARLINES', 'CHORD']},
              {'exclude': ['PITCH']}, {'exclude': ['DURATION', 'BARLINES']}, {'include': ['NOTE_REST', 'CHORD', 'HEADER', 'SPINE_OPERATION']},
              # durations only / pitches only
              {'exclude': ['PITCH', 'ALTERATION', 'REST']}, {'include': ['DURATION', 'STRUCTURAL', 'BARLINES', 'CHORD', 'SIGNATURES']},
              {'exclude': ['DURATION']}, {'include': ['PITCH', 'ALTERATION', 'CHORD', 'STRUCTURAL', 'SIGNATURES']}]


def worker(kp, job):
    seed, idx = job
    rng = random.Random(seed * 32452843 + idx)
    g = docs.gen_doc(rng, force_clef=True, plain_acc=True, mid_signatures=(idx % 2 == 0), clef_in_split=0.4 if idx % 3 == 0 else 0.0)
    text = g.text
    bad = docs.bad_cells(kp, text)
    try:
        doc, errs = kp.loads(text)
    except Exception as e:
        return {'records': [engine.rec('loads', impl='raise:' + type(e).__name__, req=('import', [C1.join(bad), text]), key=text)]}
    records = []
    sels = [SELECTIONS[0]] + rng.sample(SELECTIONS[1:], 2)
    for sel in sels:
        outs = {}
        for enc in optprops.ENCODINGS:
            o = dict(sel or {})
            o['encoding'] = enc
            r = optprops.evaluate(kp, g, doc, bad, text, o, 'encoding:' + enc, clause='view')
            outs[enc] = r['impl']
            records.append(r)
        viol = []
        ok = {e: v[3:] for e, v in outs.items() if v.startswith('ok:')}
        if len(ok) == 6:
            w = {'text': text, 'selection': sel}
            def hdr(t, p):   # the header line is compared apart: it differs by the encoding prefix
                return t
            lines = {e: ok[e].split('\n') for e in ok}
            for plain, ext, strip in (('kern', 'ekern', optprops.strip_sep), ('akern', 'aekern', optprops.strip_sep),
                                      ('bkern', 'bekern', lambda s: s.replace('@', ''))):
                a, b = lines[plain], lines[ext]
                if len(a) != len(b):
                    viol.append(('plain-of-extended', f'{plain} has {len(a)} lines, {ext} has {len(b)} (selection {sel})', w))
                    continue
                for k, (x, y) in enumerate(zip(a, b)):
                    if x.startswith('**'):
                        if [c.replace('**' + spec.PREFIX[plain], '**', 1) for c in x.split('\t')] != \
                                [c.replace('**' + spec.PREFIX[ext], '**', 1) for c in y.split('\t')]:
                            viol.append(('header', f'header lines of {plain} and {ext} differ beyond the prefix: {x!r} / {y!r}', w))
                    elif x != strip(y):
                        viol.append(('plain-of-extended', f'{plain} line {k + 1} {x!r} is not {ext} without separators {y!r} (selection {sel})', w))
                        break
            # a basic encoding keeps every note of a chord
            for k, (x, y) in enumerate(zip(lines['ekern'], lines['bekern'])):
                if len(lines['ekern']) != len(lines['bekern']):
                    break    # a note of which only signifiers are selected: outside the quantifier (see spec.render_note)
                cx, cy = x.split('\t'), y.split('\t')
                if len(cx) != len(cy):
                    viol.append(('basic-of-full', f'line {k + 1}: {len(cy)} cells in bekern, {len(cx)} in ekern', w))
                    break
                for a_, b_ in zip(cx, cy):
                    if a_.startswith('**'):
                        continue
                    want = ' '.join(n.split('·')[0] for n in a_.split(' ')) if '·' in a_ else a_
                    if b_ != want and not (want.replace(' ', '') == '' ):
                        viol.append(('basic-of-full', f'line {k + 1}: bekern cell {b_!r} is not the ekern cell {a_!r} without signifiers', w))
                        break
        if viol:
            records[-1]['viol'] = records[-1]['viol'] + viol
    # the header clause also under a measure range (the header row of an excerpt is rebuilt by another code path)
    try:
        M = doc.measures_count()
    except Exception:
        M = 0
    if M >= 1:
        a = rng.randint(1, M)
        b_ = rng.randint(a, M)
        viol = []
        for enc in optprops.ENCODINGS:
            out = docs.impl_dumps(kp, doc, encoding=enc, from_measure=a, to_measure=b_)
            if not out.startswith('ok:'):
                continue
            hdr = out[3:].split('\n')[0].split('\t')
            want = ['**' + spec.PREFIX[enc] + h[2:] for h in g.headers if h in spec.SUPPORTED]
            # (an excerpt that starts inside a split repeats the header per sub-spine - finding K5 of C08 - so only the FORM
            # of every header cell is checked here: ** + prefix + a type of this document)
            if any(c not in want for c in hdr) and all(c.startswith('**') for c in hdr) and not viol:
                viol.append(('header', f'measures {a}..{b_} in {enc}: the header row is {hdr}, expected {want}', {'text': text, 'encoding': enc, 'from': a, 'to': b_}))
        records.append(engine.rec('range-header', viol=viol, kind='range-header', key=(text, 'range-header', a, b_)))
    if idx % 31 == 0:
        records[0]['sample'] = {'text': text, 'ekern': records[1]['impl'][3:]}
    return {'records': records}


def batch_worker(kp, job):
    """batch use: many small documents with different spine layouts are loaded, exported in the six encodings and
    dropped, in one process; every header row must be ** + prefix + original type of THAT document"""
    seed, idx = job
    rng = random.Random(seed * 86028121 + idx)
    layouts = [['**kern'], ['**kern', '**kern'], ['**text', '**kern'], ['**kern', '**dynam', '**kern'], ['**text', '**kern', '**dynam'],
               ['**harm', '**kern'], ['**kern', '**fing', '**text'], ['**mxhm', '**kern', '**kern', '**text'],
               # spine types outside the built-in ones whose NAME begins with the letters of an encoding prefix
               ['**kern', '**beat'], ['**embel', '**kern'], ['**accent', '**kern', '**aeon'], ['**bell', '**kern', '**ekey']]
    body = {'**kern': ['4c', '4d'], '**text': ['la', 'li'], '**dynam': ['p', 'f'], '**harm': ['I', 'V'], '**fing': ['1', '2'], '**mxhm': ['C', 'G7']}
    for h_ in ('**beat', '**embel', '**accent', '**aeon', '**bell', '**ekey'):
        body[h_] = ['x', 'y']
    viol = []
    trail = []
    n = 0
    for rnd in range(120):
        hs = rng.choice(layouts)
        text = '\t'.join(hs) + '\n' + '\t'.join(body[h][0] for h in hs) + '\n' + '\t'.join(body[h][1] for h in hs) + '\n' + '\t'.join('*-' for _ in hs) + '\n'
        doc, _ = kp.loads(text)
        for enc in rng.sample(optprops.ENCODINGS, 3):
            n += 1
            if enc in ('akern', 'aekern'):
                continue            # no clef in these miniatures
            try:
                out = kp.dumps(doc, encoding=kp.Encoding(enc), spine_types=sorted(set(hs)))
            except Exception as e:
                out = 'err:' + type(e).__name__
            want = '\t'.join('**' + spec.PREFIX[enc] + h[2:] for h in hs)
            trail.append((hs, enc))
            if out.split('\n')[0] != want and not viol:
                viol.append(('header', f'batch use: after {len(trail) - 1} earlier exports of other documents in this process, the {enc} header row of '
                             f'{hs} is {out.split(chr(10))[0]!r}, expected {want!r}', {'text': text, 'encoding': enc, 'earlier': [list(t[0]) + [t[1]] for t in trail[-40:]]}))
        del doc
    return {'records': [engine.rec('batch', viol=viol, kind='batch', key=('batch', idx, n))]}


def multi_worker(kp, job):
    """signifiers of more than one character - among them the editorial mark y@, whose own text holds the token separator -
    on notes, rests and chords: outside the scanner model, so the three relations are checked between kernpy's own six
    exports (plain = extended minus separators; basic = extended with every note cut at its first signifier)"""
    seed, idx = job
    rng = random.Random(seed * 295075147 + idx)
    records = []
    for it in range(30):
        pool = ['y@', 'yy@', 'y', '&(', '&)', 'Ww', '(', ')', 'L', 'J', "'", ';', '^', '~', '_', '{', '}', ':', 'O']

        def note():
            ds = ''.join(rng.sample(pool, rng.randint(1, 3)))
            body = rng.choice(['4', '8.', '16', '2']) + rng.choice(['c', 'dd', 'E', 'f#', 'b-', 'GG', 'r'])
            return body + ds
        cell = note() if rng.random() < 0.6 else ' '.join(note() for _ in range(rng.randint(2, 3)))
        if it % 6 == 0:
            cell = rng.choice(['4fy@', '8g#Ly@', '4ryy@', '2c(y@ 2e(y@', "16ee-'y@", '4c;yy@'])
        text = f'**kern\n*clefG2\n{cell}\n*-\n'
        try:
            doc, errs = kp.loads(text)
        except Exception:
            continue
        if errs:
            continue
        outs = {}
        for enc in optprops.ENCODINGS:
            r = docs.impl_dumps(kp, doc, encoding=enc)
            outs[enc] = r[3:].split('\n')[2] if r.startswith('ok:') and len(r.split('\n')) > 2 else r
        viol = []
        w = {'text': text}
        for plain, ext in (('kern', 'ekern'), ('akern', 'aekern')):
            if outs[plain] != optprops.strip_sep(outs[ext]):
                viol.append(('plain-of-extended', f'multi-character signifiers: {plain} {outs[plain]!r} is not {ext} {outs[ext]!r} without separators', w))
        if outs['bkern'] != outs['bekern'].replace('@', ''):
            viol.append(('plain-of-extended', f'multi-character signifiers: bkern {outs["bkern"]!r} is not bekern {outs["bekern"]!r} without separators', w))
        want = ' '.join(n.split('\u00b7')[0] for n in outs['ekern'].split(' '))
        if outs['bekern'] != want:
            viol.append(('basic-of-full', f'multi-character signifiers: bekern {outs["bekern"]!r} is not the ekern cell {outs["ekern"]!r} with every note cut at its first signifier', w))
        records.append(engine.rec('multi', viol=viol[:2], kind='multi-char-signifiers', key=('multi', cell)))
    return {'records': records}


def options_worker(kp, job):
    """ONE ExportOptions object whose category selection is the caller's own container (a set, a list, a frozenset, the
    module's BEKERN_CATEGORIES) and ONE Exporter serve the six encodings of a document in random order, twice: every
    export equals the export with fresh options, and the caller's container keeps its members"""
    seed, idx = job
    rng = random.Random(seed * 573259391 + idx)
    g = docs.gen_doc(rng, force_clef=True, plain_acc=True, max_spines=3, measures=rng.randint(1, 2))
    text = g.text
    try:
        doc, errs = kp.loads(text)
    except Exception:
        return {'records': []}
    TC = kp.TokenCategory
    records = []
    for label, make in (('set', lambda: set(TC.all()) if hasattr(TC, 'all') else set(TC)), ('list', lambda: list(TC)),
                        ('frozenset', lambda: frozenset(TC)), ('set-minus-lyrics', lambda: set(TC) - {TC.LYRICS})):
        cats = make()
        before = sorted(c.name for c in cats)
        options = kp.ExportOptions(token_categories=cats)
        exporter = kp.Exporter()
        order = list(optprops.ENCODINGS)
        rng.shuffle(order)
        viol = []
        for enc in order + order[::-1]:
            options.kern_type = kp.Encoding(enc)
            try:
                got = 'ok:' + exporter.export_string(doc, options)
            except Exception as e:
                got = 'err:' + type(e).__name__
            want = docs.impl_dumps(kp, doc, encoding=enc, include=before)
            if got != want and not viol:
                viol.append(('view', f'one ExportOptions holding the caller\'s {label} of categories, encodings in the order {order}: the {enc} export differs '
                                     f'from the export with fresh options', {'text': text, 'encoding': enc, 'order': order}))
        after = sorted(c.name for c in cats)
        if after != before and not viol:
            viol.append(('view', f'exporting changed the caller\'s {label} of categories: lost {sorted(set(before) - set(after))}, gained {sorted(set(after) - set(before))}',
                         {'text': text, 'order': order}))
        records.append(engine.rec('options-session', viol=viol, kind='options-session:' + label, key=('options-session', text, label, str(order))))
    return {'records': records}


def run(chk):
    b = core.standard_build(chk)
    model = core.Model() if b.modelrun_ok else None
    full = chk.tier == 'thorough' or bool(b.drift) or not b.proof_ok or not b.modelrun_ok
    n = core.budget(chk, full, 60, 500)
    chk.rule = ('generated documents (a clef in force for every note, accidentals up to two sharps / flats so that the agnostic '
                'encodings are defined) x 3 category selections that keep durations or pitches x the six encodings; batch '
                'sessions of 120 small documents of 8 spine layouts loaded, exported and dropped in one process (header rows); notes with signifiers of several characters (y@ yy@ &( Ww ...) on kernpy alone; one ExportOptions object holding the caller-owned category container serving the six encodings in random order; '
                'non-trivial = distinct (text, options)')
    results = engine.pmap(worker, [(chk.seed, i) for i in range(n)])
    results += engine.pmap(batch_worker, [(chk.seed, i) for i in range(core.budget(chk, full, 16, 64))])
    results += engine.pmap(multi_worker, [(chk.seed, i) for i in range(core.budget(chk, full, 12, 120))])
    results += engine.pmap(options_worker, [(chk.seed, i) for i in range(core.budget(chk, full, 16, 96))])
    engine.settle(chk, results, model)
    chk.disagreements_checked = len(chk.broken)


def replay(path):
    rec = json.load(open(path))
    import kernpy as kp
    print(json.dumps(rec, indent=1)[:2500])
    w = rec.get('witness', {})
    if isinstance(w, dict) and 'text' in w:
        doc, errs = kp.loads(w['text'])
        for e in optprops.ENCODINGS:
            print(e, repr(docs.impl_dumps(kp, doc, encoding=e, **(w.get('selection') or {})))[:400])
    return 0
