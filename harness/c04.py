"""C04 - The six encodings are consistent views of one document.

proof         : coq/props/C04.v - plain = extended with separators removed (kern/ekern, bkern/bekern, akern/aekern),
                basic = reduction of the extended text note by note, factory dispatch, header prefix, non-note cells
                identical: for every token, category selection and clef (tables regenerated from tokenizers.py)
correspondence: dumps(doc, encoding=E, include/exclude) of kernpy vs the extracted model, documents x six encodings x
                category selections that keep durations or pitches
monitor       : the relations between kernpy's six exports, and each export against the generator's description
"""
import json
import random

from harness import core, docs, engine, optprops, spec
from harness.docs import C1

SELECTIONS = [None, {'exclude': ['DECORATION']}, {'include': ['CORE', 'BARLINES', 'STRUCTURAL', 'SIGNATURES']},
              {'exclude': ['ALTERATION']}, {'include': ['DURATION', 'PITCH', 'STRUCTURAL', 'BARLINES', 'CHORD']},
              {'exclude': ['PITCH']}, {'exclude': ['DURATION', 'BARLINES']}, {'include': ['NOTE_REST', 'CHORD', 'HEADER', 'SPINE_OPERATION']}]


def worker(kp, job):
    seed, idx = job
    rng = random.Random(seed * 32452843 + idx)
    g = docs.gen_doc(rng, force_clef=True, plain_acc=True, mid_signatures=(idx % 2 == 0), clef_in_split=0.4 if idx % 3 == 0 else 0.0)
    text = g.text
    bad = docs.bad_cells(kp, text)
    try:
        doc, errs = kp.loads(text)
    except Exception as e:
        return {'records': [engine.rec('loads', impl='raise:' + type(e).__name__, req=('import', [C1.join(bad), text]), key=text)]}
    records = []
    sels = [SELECTIONS[0]] + rng.sample(SELECTIONS[1:], 2)
    for sel in sels:
        outs = {}
        for enc in optprops.ENCODINGS:
            o = dict(sel or {})
            o['encoding'] = enc
            r = optprops.evaluate(kp, g, doc, bad, text, o, 'encoding:' + enc, clause='view')
            outs[enc] = r['impl']
            records.append(r)
        viol = []
        ok = {e: v[3:] for e, v in outs.items() if v.startswith('ok:')}
        if len(ok) == 6:
            w = {'text': text, 'selection': sel}
            def hdr(t, p):   # the header line is compared apart: it differs by the encoding prefix
                return t
            lines = {e: ok[e].split('\n') for e in ok}
            for plain, ext, strip in (('kern', 'ekern', optprops.strip_sep), ('akern', 'aekern', optprops.strip_sep),
                                      ('bkern', 'bekern', lambda s: s.replace('@', ''))):
                a, b = lines[plain], lines[ext]
                if len(a) != len(b):
                    viol.append(('plain-of-extended', f'{plain} has {len(a)} lines, {ext} has {len(b)} (selection {sel})', w))
                    continue
                for k, (x, y) in enumerate(zip(a, b)):
                    if x.startswith('**'):
                        if [c.replace('**' + spec.PREFIX[plain], '**', 1) for c in x.split('\t')] != \
                                [c.replace('**' + spec.PREFIX[ext], '**', 1) for c in y.split('\t')]:
                            viol.append(('header', f'header lines of {plain} and {ext} differ beyond the prefix: {x!r} / {y!r}', w))
                    elif x != strip(y):
                        viol.append(('plain-of-extended', f'{plain} line {k + 1} {x!r} is not {ext} without separators {y!r} (selection {sel})', w))
                        break
            # a basic encoding keeps every note of a chord
            for k, (x, y) in enumerate(zip(lines['ekern'], lines['bekern'])):
                if len(lines['ekern']) != len(lines['bekern']):
                    break    # a note of which only signifiers are selected: outside the quantifier (see spec.render_note)
                cx, cy = x.split('\t'), y.split('\t')
                if len(cx) != len(cy):
                    viol.append(('basic-of-full', f'line {k + 1}: {len(cy)} cells in bekern, {len(cx)} in ekern', w))
                    break
                for a_, b_ in zip(cx, cy):
                    if a_.startswith('**'):
                        continue
                    want = ' '.join(n.split('·')[0] for n in a_.split(' ')) if '·' in a_ else a_
                    if b_ != want and not (want.replace(' ', '') == '' ):
                        viol.append(('basic-of-full', f'line {k + 1}: bekern cell {b_!r} is not the ekern cell {a_!r} without signifiers', w))
                        break
        if viol:
            records[-1]['viol'] = records[-1]['viol'] + viol
    if idx % 31 == 0:
        records[0]['sample'] = {'text': text, 'ekern': records[1]['impl'][3:]}
    return {'records': records}


def batch_worker(kp, job):
    """batch use: many small documents with different spine layouts are loaded, exported in the six encodings and
    dropped, in one process; every header row must be ** + prefix + original type of THAT document"""
    seed, idx = job
    rng = random.Random(seed * 86028121 + idx)
    layouts = [['**kern'], ['**kern', '**kern'], ['**text', '**kern'], ['**kern', '**dynam', '**kern'], ['**text', '**kern', '**dynam'],
               ['**harm', '**kern'], ['**kern', '**fing', '**text'], ['**mxhm', '**kern', '**kern', '**text']]
    body = {'**kern': ['4c', '4d'], '**text': ['la', 'li'], '**dynam': ['p', 'f'], '**harm': ['I', 'V'], '**fing': ['1', '2'], '**mxhm': ['C', 'G7']}
    viol = []
    trail = []
    n = 0
    for rnd in range(120):
        hs = rng.choice(layouts)
        text = '\t'.join(hs) + '\n' + '\t'.join(body[h][0] for h in hs) + '\n' + '\t'.join(body[h][1] for h in hs) + '\n' + '\t'.join('*-' for _ in hs) + '\n'
        doc, _ = kp.loads(text)
        for enc in rng.sample(optprops.ENCODINGS, 3):
            n += 1
            if enc in ('akern', 'aekern'):
                continue            # no clef in these miniatures
            try:
                out = kp.dumps(doc, encoding=kp.Encoding(enc))
            except Exception as e:
                out = 'err:' + type(e).__name__
            want = '\t'.join('**' + spec.PREFIX[enc] + h[2:] for h in hs)
            trail.append((hs, enc))
            if out.split('\n')[0] != want and not viol:
                viol.append(('header', f'batch use: after {len(trail) - 1} earlier exports of other documents in this process, the {enc} header row of '
                             f'{hs} is {out.split(chr(10))[0]!r}, expected {want!r}', {'text': text, 'encoding': enc, 'earlier': [list(t[0]) + [t[1]] for t in trail[-40:]]}))
        del doc
    return {'records': [engine.rec('batch', viol=viol, kind='batch', key=('batch', idx, n))]}


def run(chk):
    b = core.standard_build(chk)
    model = core.Model() if b.modelrun_ok else None
    full = chk.tier == 'thorough' or bool(b.drift) or not b.proof_ok or not b.modelrun_ok
    n = core.budget(chk, full, 60, 500)
    chk.rule = ('generated documents (a clef in force for every note, accidentals up to two sharps / flats so that the agnostic '
                'encodings are defined) x 3 category selections that keep durations or pitches x the six encodings; batch '
                'sessions of 120 small documents of 8 spine layouts loaded, exported and dropped in one process (header rows); '
                'non-trivial = distinct (text, options)')
    results = engine.pmap(worker, [(chk.seed, i) for i in range(n)])
    results += engine.pmap(batch_worker, [(chk.seed, i) for i in range(core.budget(chk, full, 16, 64))])
    engine.settle(chk, results, model)
    chk.disagreements_checked = len(chk.broken)


def replay(path):
    rec = json.load(open(path))
    import kernpy as kp
    print(json.dumps(rec, indent=1)[:2500])
    w = rec.get('witness', {})
    if isinstance(w, dict) and 'text' in w:
        doc, errs = kp.loads(w['text'])
        for e in optprops.ENCODINGS:
            print(e, repr(docs.impl_dumps(kp, doc, encoding=e, **(w.get('selection') or {})))[:400])
    return 0
