(* bin/modelrun: one request per line  cmd<TAB>hex(arg1)<TAB>hex(arg2)...  ->  hex(result) *)
module M = Modelrun_core

let ascii_of_char (c : char) : M.ascii =
  let n = Char.code c in
  let b i = (n lsr i) land 1 = 1 in
  M.Ascii (b 0, b 1, b 2, b 3, b 4, b 5, b 6, b 7)

let char_of_ascii (a : M.ascii) : char =
  match a with
  | M.Ascii (b0, b1, b2, b3, b4, b5, b6, b7) ->
    let v b i = if b then 1 lsl i else 0 in
    Char.chr (v b0 0 + v b1 1 + v b2 2 + v b3 3 + v b4 4 + v b5 5 + v b6 6 + v b7 7)

let to_coq (s : string) : M.string =
  let r = ref M.EmptyString in
  for i = String.length s - 1 downto 0 do r := M.String (ascii_of_char s.[i], !r) done;
  !r

let of_coq (s : M.string) : string =
  let b = Buffer.create 64 in
  let rec go = function M.EmptyString -> () | M.String (c, t) -> Buffer.add_char b (char_of_ascii c); go t in
  go s; Buffer.contents b

let unhex (h : string) : string =
  let n = String.length h / 2 in
  String.init n (fun i -> Char.chr (int_of_string ("0x" ^ String.sub h (2 * i) 2)))

let hex (s : string) : string =
  let b = Buffer.create (2 * String.length s) in
  String.iter (fun c -> Buffer.add_string b (Printf.sprintf "%02x" (Char.code c))) s;
  Buffer.contents b

let () =
  try
    while true do
      let line = input_line stdin in
      match String.split_on_char '\t' line with
      | [] -> print_endline ""
      | cmd :: args ->
        let res =
          try of_coq (M.run_cmd (to_coq cmd) (List.map (fun a -> to_coq (unhex a)) args))
          with Stack_overflow -> "err:stack-overflow" in
        print_endline (hex res); flush stdout
    done
  with End_of_file -> ()
