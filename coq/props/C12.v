(* C12 - Malformed tokens are isolated, reported once and preserved.  Property theorems only.
   [recog] is any deterministic recogniser: (parse result, number of syntax errors reported). *)
From Coq Require Import List String Bool.
From KV Require Import Strings CatGen Cat SpineImpGen SpineImp SpineImpProofs Token Importer ImporterProofs.
Import ListNotations.

(* the outcome for a cell never depends on which cells were parsed before it: every history, every start state *)
Theorem C12_history_independent : forall (T : Type) (recog : string -> option T * nat) h st,
  run_history T recog true st h = map (fun s => fst (kern_import T recog true 0 s)) h.
Proof. exact history_independent. Qed.
Print Assumptions C12_history_independent.

Theorem C12_any_order : forall (T : Type) (recog : string -> option T * nat) h1 h2 st1 st2 s,
  nth (List.length h1) (run_history T recog true st1 (h1 ++ [s])) (RErr ""%string) =
  nth (List.length h2) (run_history T recog true st2 (h2 ++ [s])) (RErr ""%string).
Proof. exact outcome_of_cell_fixed. Qed.
Print Assumptions C12_any_order.

(* the importer of the current source tree is the history-free one *)
Theorem C12_listener_fresh : kern_fresh_flag = Some true.
Proof. exact kern_listener_is_fresh. Qed.
Print Assumptions C12_listener_fresh.

Theorem C12_well_formed_kept : forall (T : Type) (recog : string -> option T * nat) s t,
  s <> ""%string -> recog s = (Some t, 0) -> forall st, fst (kern_import T recog true st s) = RKept t.
Proof. exact outcome_is_recogniser. Qed.
Print Assumptions C12_well_formed_kept.

Theorem C12_malformed_raises : forall (T : Type) (recog : string -> option T * nat) s,
  (fst (recog s) = None \/ 0 < snd (recog s)) -> forall st, exists e, fst (kern_import T recog true st s) = RErr e.
Proof. exact malformed_raises. Qed.
Print Assumptions C12_malformed_raises.

(* a sticky listener (the defect repaired by the fix: commit) violates the property: witness *)
Theorem C12_sticky_listener_refuted :
  run_history nat demo_recog false 0 ["4zz"; "4c"]%string <> map (fun s => fst (kern_import nat demo_recog false 0 s)) ["4zz"; "4c"]%string.
Proof. exact sticky_listener_refuted. Qed.
Print Assumptions C12_sticky_listener_refuted.

(* document level: the tree keeps its shape whatever cells are malformed (one stage per line, one node per cell) *)
Theorem C12_damage_keeps_the_grid : forall bad text d, loads bad text = IOk d ->
  stage_lengths d = 1 :: map cell_count (filter nonempty (rows_of_text text)).
Proof. intros bad text d H. exact (proj2 (loads_stage_count bad text d H)). Qed.
Print Assumptions C12_damage_keeps_the_grid.

(* document level, for EVERY text that imports (and every recogniser oracle): the error list is exactly the list of the
   ErrorToken nodes - each malformed cell is reported once, nothing else is reported - and every ErrorToken carries the
   number of its line (the stage of its node = the count of non-empty lines up to it) *)
From KV Require Import ErrorProofs.
Theorem C12_errors_reported_once_with_line : forall bad text d, loads bad text = IOk d ->
  NoDup (d_errors d) /\
  (forall id, In id (d_errors d) <-> id < List.length (d_nodes d) /\ exists e l, n_tok (get_node d id) = Some (TError e l)) /\
  (forall id e l, n_tok (get_node d id) = Some (TError e l) -> id < List.length (d_nodes d) -> l = n_stage (get_node d id)).
Proof. exact errors_reported_once. Qed.
Print Assumptions C12_errors_reported_once_with_line.

(* the recogniser model never builds an ErrorToken itself: only rejected cells become one *)
Theorem C12_only_rejected_cells_are_errors : forall bad h s t, import_cell bad h s = RTok t -> tok_not_error t = true.
Proof. exact import_cell_not_error. Qed.
Print Assumptions C12_only_rejected_cells_are_errors.

(* a malformed cell is exported verbatim under every selection, converter and encoding *)
Theorem C12_error_exported_verbatim : forall keep conv e l, export_token keep conv (TError e l) = Ok e.
Proof. exact error_token_verbatim. Qed.
Print Assumptions C12_error_exported_verbatim.

(* obligation regenerated from the source on every run: the code this property runs through keeps exactly the state the
   model knows (no new attribute, class-level table, module-level binding or caching decorator), see proofs/State*Proofs.v *)
From KV Require Import StateGen StateBase StateImportProofs.
Theorem C12_state_as_modelled : state_import = modelled_state_import.
Proof. exact state_import_as_modelled. Qed.
Print Assumptions C12_state_as_modelled.

(* "exactly one error per malformed cell, with its line number; every other token as without the damage": for EVERY text
   that imports, the tree holds the source grid (C02_tree_holds_the_source_grid), and in it a node is an ErrorToken
   exactly when its cell is an ordinary cell (no header, spine operator or comment) that the importer of its spine's header
   rejects - then it carries the cell text and the number of its non-blank line; together with
   C12_errors_reported_once_with_line (the error list is the list of the ErrorToken nodes) this is the clause *)
From KV Require Import GridTokensProofs.
Theorem C12_error_iff_rejected_cell : forall bad d r id c, cell_rel bad d r id c ->
  forall e l, n_tok (get_node d id) = Some (TError e l) <->
    (e = c /\ l = r /\ startswith "**" c = false /\ mem_str c spine_operations = false /\ startswith "!" c = false /\
     exists hid, n_header (get_node d id) = Some hid /\ import_cell bad (header_text d hid) c = RFail).
Proof. exact error_iff_rejected. Qed.
Print Assumptions C12_error_iff_rejected_cell.

Theorem C12_tree_holds_the_source_grid : forall bad text d, loads bad text = IOk d ->
  exists sts, d_stages d = [0] :: sts /\ rows_rel bad d 1 sts (filter nonempty_row (rows_of_text text)).
Proof. exact loads_grid. Qed.
Print Assumptions C12_tree_holds_the_source_grid.

(* the source grid above is what the two line readers of the CURRENT source cut out of the text / the file: their
   arguments (delimiter, no quoting, newline='') are regenerated on every run and compared with the modelled ones; with
   load_equals_loads the same tree, errors included, is built from a file holding the text *)
From KV Require Import ReaderGen LineReaderProofs.
Theorem C12_readers_as_modelled :
  text_lines_expr = "text.splitlines()"%string /\ same_args text_reader_args modelled_reader_args = true /\
  same_args file_reader_args modelled_reader_args = true /\ assoc_str "newline" file_open_args = Some "''"%string.
Proof. exact readers_as_modelled. Qed.
Print Assumptions C12_readers_as_modelled.

Theorem C12_file_import_is_string_import : forall bad s, plain (chars_of_string s) = true -> load_file bad s = loads bad s.
Proof. exact load_equals_loads. Qed.
Print Assumptions C12_file_import_is_string_import.
