(* C10 - Agnostic encoding depends only on staff position and accidental.  Property theorems only
   (pitch level; the document level is decided by the correspondence run, see DESIGN.md). *)
From Coq Require Import List String ZArith Bool.
From KV Require Import Strings PitchGen ClefGen Pitch PitchSpec Gkern GkernProofs.
Import ListNotations.
Open Scope Z_scope.

(* every clef class, letter, alteration -3..3 and EVERY octave in Z: the agnostic spelling is the
   Humdrum pitch on the same line or space under a G2 clef *)
Theorem C10_same_position : forall cls i ob l a o,
  In cls clef_classes -> bottom_params cls = Some (i, ob) -> In l letters_z -> In a alts7 ->
  pitch_to_gkern (spec_pitch l a o) cls = Some (spell_dia (dia l o - dia i ob + dia 2 4) a).
Proof. exact gkern_exact. Qed.
Print Assumptions C10_same_position.

Theorem C10_g2_identity : forall l a o, In l letters_z -> In a alts7 ->
  pitch_to_gkern (spec_pitch l a o) "GClef" = Some (spell l a o).
Proof. exact gkern_g2_identity. Qed.
Print Assumptions C10_g2_identity.

Theorem C10_steps : forall cls i ob l a o l' o' k,
  In cls clef_classes -> bottom_params cls = Some (i, ob) -> In l letters_z -> In l' letters_z -> In a alts7 ->
  dia l' o' = dia l o + k ->
  exists d, pitch_to_gkern (spec_pitch l a o) cls = Some (spell_dia d a) /\
            pitch_to_gkern (spec_pitch l' a o') cls = Some (spell_dia (d + k) a).
Proof. exact gkern_shift. Qed.
Print Assumptions C10_steps.

Theorem C10_bottom_line_is_e : forall cls i ob, In cls clef_classes -> bottom_params cls = Some (i, ob) ->
  pitch_to_gkern (spec_pitch i 0 ob) cls = Some "e"%string.
Proof. exact gkern_bottom_is_e. Qed.
Print Assumptions C10_bottom_line_is_e.

Theorem C10_accidental_carried : forall cls i ob l a o, In cls clef_classes -> bottom_params cls = Some (i, ob) ->
  In l letters_z -> In a alts7 ->
  exists letters, pitch_to_gkern (spec_pitch l 0 o) cls = Some letters /\
                  pitch_to_gkern (spec_pitch l a o) cls = Some (letters ++ kern_acc a)%string.
Proof. exact gkern_accidental. Qed.
Print Assumptions C10_accidental_carried.

(* octave marks on the clef do not change the clef, hence not the position *)
Theorem C10_octave_marks_ignored : forall pre m post, forallb is_mark (chars_of_string m) = true ->
  create_clef_core (pre ++ m ++ post) = create_clef_core (pre ++ post).
Proof. exact create_clef_ignores_marks. Qed.
Print Assumptions C10_octave_marks_ignored.

Theorem C10_dispatch_total : forallb (fun row => match snd row with
    | Some cls => mem_str cls clef_classes | None => true end) clef_dispatch = true.
Proof. exact dispatch_total. Qed.
Print Assumptions C10_dispatch_total.

(* obligation regenerated from the source on every run: the code this property runs through keeps exactly the state the
   model knows (no new attribute, class-level table, module-level binding or caching decorator), see proofs/State*Proofs.v *)
From KV Require Import StateGen StateBase StatePitchProofs StateExportProofs.
Theorem C10_state_as_modelled : state_pitch = modelled_state_pitch /\ state_export = modelled_state_export.
Proof. exact (conj state_pitch_as_modelled state_export_as_modelled). Qed.
Print Assumptions C10_state_as_modelled.

(* document level, "each converted under the clef in force for that note": for EVERY text that imports, the clef the
   exporter hands to the agnostic conversion of a node (the "ClefToken" entry of its signature dictionary) is the
   NEAREST clef cell above it on its spine path - through splits and joins, up to the header - and there is none
   exactly when that path holds no clef cell *)
From KV Require Import Token Importer Exporter TreeProofs SigForceProofs.
Theorem C10_clef_in_force_is_nearest_above : forall bad text d, loads bad text = IOk d ->
  forall i, (i < List.length (d_nodes d))%nat -> forall cid,
  assoc_str "ClefToken" (n_sigs (get_node d i)) = Some cid <->
  (0 < cid /\ clear_path d "ClefToken" cid i /\ exists t, n_tok (get_node d cid) = Some t /\ is_sig_of "ClefToken" t = true)%nat.
Proof. intros bad text d H i Hi cid. exact (loads_sig_in_force bad text d H i Hi "ClefToken"%string cid). Qed.
Print Assumptions C10_clef_in_force_is_nearest_above.
