(* C19 - Concatenation indexes address the fragments.  Property theorems only (every list of fragments). *)
From Coq Require Import List String Ascii Bool.
From KV Require Import Strings Token Importer Exporter Queries Api ImporterProofs ApiProofs.
Import ListNotations.

(* one pair per fragment, consecutive from 0, the last 'to' is the measure count of the result *)
Theorem C19_indexes : forall bad frags sep d idx, concat bad frags sep = IOk (d, idx) ->
  consecutive 0 idx /\ List.length idx = List.length frags /\
  match rev idx with (_, b) :: _ => b = List.length (d_mst d) | [] => False end.
Proof. exact concat_indexes. Qed.
Print Assumptions C19_indexes.

(* the result is the import of the joined text (separator before every fragment, as concat builds it) *)
Theorem C19_same_document : forall bad frags sep d idx, concat bad frags sep = IOk (d, idx) ->
  loads bad (joined sep frags) = IOk d.
Proof. exact concat_is_import_of_joined. Qed.
Print Assumptions C19_same_document.

(* why the pairs address the fragments: the measure index of a prefix of the rows is a prefix of the index of all *)
Theorem C19_prefix_measures : forall bad r1 r2 s1 s,
  run_rows bad init_state r1 = IOk s1 -> run_rows bad init_state (r1 ++ r2) = IOk s ->
  exists ext, d_mst (i_doc s) = d_mst (i_doc s1) ++ ext.
Proof. exact prefix_measures. Qed.
Print Assumptions C19_prefix_measures.

Theorem C19_rows_compose : forall bad r1 r2 s,
  run_rows bad s (r1 ++ r2) = ibind (run_rows bad s r1) (fun s' => run_rows bad s' r2).
Proof. exact run_rows_app. Qed.
Print Assumptions C19_rows_compose.

(* obligation regenerated from the source on every run: the code this property runs through keeps exactly the state the
   model knows (no new attribute, class-level table, module-level binding or caching decorator), see proofs/State*Proofs.v *)
From KV Require Import StateGen StateBase StateImportProofs StateDocumentProofs.
Theorem C19_state_as_modelled : state_import = modelled_state_import /\ state_document = modelled_state_document.
Proof. exact (conj state_import_as_modelled state_document_as_modelled). Qed.
Print Assumptions C19_state_as_modelled.
