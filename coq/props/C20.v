(* C20 - File and command-line paths equal the in-memory API.  Property theorems only, PURE PART:
   the two line readers of the importer model coincide, hence load = loads, for every byte string free of the
   separators only str.splitlines knows.  open(), encodings, makedirs, argparse, glob and process behaviour are
   outside any Gallina model: they are decided by the correspondence run on real files and subprocesses. *)
From Coq Require Import List String Ascii Bool.
From KV Require Import Strings Importer LineReaderProofs.

Theorem C20_file_rows_equal_text_rows : forall s, plain (chars_of_string s) = true -> rows_of_file s = rows_of_text s.
Proof. exact file_equals_text. Qed.
Print Assumptions C20_file_rows_equal_text_rows.

Theorem C20_load_equals_loads : forall bad s, plain (chars_of_string s) = true -> load_file bad s = loads bad s.
Proof. exact load_equals_loads. Qed.
Print Assumptions C20_load_equals_loads.

From KV Require Import ReaderGen.
Theorem C20_readers_as_modelled :
  text_lines_expr = "text.splitlines()"%string /\ same_args text_reader_args modelled_reader_args = true /\
  same_args file_reader_args modelled_reader_args = true /\ assoc_str "newline" file_open_args = Some "''"%string.
Proof. exact readers_as_modelled. Qed.
Print Assumptions C20_readers_as_modelled.

(* obligation regenerated from the source on every run: the code this property runs through keeps exactly the state the
   model knows (no new attribute, class-level table, module-level binding or caching decorator), see proofs/State*Proofs.v *)
From KV Require Import StateGen StateBase StateImportProofs StateExportProofs.
Theorem C20_state_as_modelled : state_import = modelled_state_import /\ state_export = modelled_state_export.
Proof. exact (conj state_import_as_modelled state_export_as_modelled). Qed.
Print Assumptions C20_state_as_modelled.
