(* C20 - File and command-line paths equal the in-memory API.  Property theorems only, PURE PART:
   the two line readers of the importer model coincide, hence load = loads, for every byte string free of the
   separators only str.splitlines knows.  open(), encodings, makedirs, argparse, glob and process behaviour are
   outside any Gallina model: they are decided by the correspondence run on real files and subprocesses. *)
From Coq Require Import List String Ascii Bool.
From KV Require Import Strings Importer LineReaderProofs.

Theorem C20_file_rows_equal_text_rows : forall s, plain (chars_of_string s) = true -> rows_of_file s = rows_of_text s.
Proof. exact file_equals_text. Qed.
Print Assumptions C20_file_rows_equal_text_rows.

Theorem C20_load_equals_loads : forall bad s, plain (chars_of_string s) = true -> load_file bad s = loads bad s.
Proof. exact load_equals_loads. Qed.
Print Assumptions C20_load_equals_loads.

From KV Require Import ReaderGen.
Theorem C20_readers_as_modelled :
  text_lines_expr = "text.splitlines()"%string /\ same_args text_reader_args modelled_reader_args = true /\
  same_args file_reader_args modelled_reader_args = true /\ assoc_str "newline" file_open_args = Some "''"%string.
Proof. exact readers_as_modelled. Qed.
Print Assumptions C20_readers_as_modelled.

(* obligation regenerated from the source on every run: the code this property runs through keeps exactly the state the
   model knows (no new attribute, class-level table, module-level binding or caching decorator), see proofs/State*Proofs.v *)
From KV Require Import StateGen StateBase StateImportProofs StateExportProofs.
Theorem C20_state_as_modelled : state_import = modelled_state_import /\ state_export = modelled_state_export.
Proof. exact (conj state_import_as_modelled state_export_as_modelled). Qed.
Print Assumptions C20_state_as_modelled.

(* dump then load: the text dumps returns (= what dump writes, monitor) is read by the FILE reader as exactly the rows
   the exporter rendered, cell for cell (rows made only of "", "*", "." are not written) - for every document, every
   option set and whatever the cells hold besides tab / LF / CR; hence load(dump(d)) imports from the exported grid *)
From KV Require Import Token Exporter ReadBackProofs.
Theorem C20_dump_then_load_reads_exported_rows : forall bad d o rows, export_rows d o = Ok rows ->
  (forall r c, In r rows -> In c r -> cell_ok c = true) ->
  exists text, dumps d o = Ok text /\
    load_file bad text = match run_rows bad init_state (filter (fun r => negb (empty_row r)) rows) with
                         | IOk s => IOk (i_doc s) | IErr e => IErr e | IOut => IOut end.
Proof. exact dumps_then_load. Qed.
Print Assumptions C20_dump_then_load_reads_exported_rows.
