(* C15 - Transposing a document moves pitches and nothing else.  Property theorems only.
   Proved on the model of Document.to_transposed for every document: the tree keeps its shape, every token that
   is not a single note/rest is untouched, a note keeps durations, accidental sub-tokens and signifiers and its
   PITCH sub-token becomes transpose(pitch) - the arithmetic of C09.  The classes the property itself lists as
   explored (explicit accidentals, chord notes, state of the source afterwards) are findings; the last one is
   refuted on the model below, because clone() shares the nodes. *)
From Coq Require Import List String Ascii Bool ZArith.
From KV Require Import Strings CatGen Pitch Token Importer Exporter Queries Api ApiProofs.
Import ListNotations.

Theorem C15_shape_kept : forall d iv dir r src, to_transposed d iv dir = Ok (r, src) ->
  d_stages r = d_stages d /\ d_mst r = d_mst d /\ d_header_stage r = d_header_stage d /\
  List.length (d_nodes r) = List.length (d_nodes d) /\ src = r.
Proof. exact to_transposed_shape. Qed.
Print Assumptions C15_shape_kept.

Theorem C15_nodes : forall d iv dir r src, to_transposed d iv dir = Ok (r, src) ->
  exists k dr, interval_by_name iv = Some k /\ parse_direction dir = Some dr /\
  Forall2 (fun a b => n_id b = n_id a /\ n_stage b = n_stage a /\ n_parent b = n_parent a /\ n_header b = n_header a /\
                      n_lastop b = n_lastop a /\ n_sigs b = n_sigs a /\ n_children b = n_children a /\
                      match n_tok a with
                      | Some (TNoteRest n) => exists n', transpose_noterest k dr n = Some n' /\ n_tok b = Some (TNoteRest n')
                      | other => n_tok b = other
                      end) (d_nodes d) (d_nodes r).
Proof. exact to_transposed_nodes. Qed.
Print Assumptions C15_nodes.

Theorem C15_note : forall k dr n n', transpose_noterest k dr n = Some n' ->
  nr_deco n' = nr_deco n /\ List.length (nr_pd n') = List.length (nr_pd n) /\
  Forall2 (fun a b => match st_cat a with
                      | PITCH => st_cat b = PITCH /\ transpose (st_enc a) k dr = Some (st_enc b)
                      | _ => b = a end) (nr_pd n) (nr_pd n').
Proof. exact transpose_noterest_spec. Qed.
Print Assumptions C15_note.

(* finding K4 (source document modified): refuted on the model with a witness *)
Definition k4_text : string := ("**kern" ++ String (ascii_of_nat 10) ("4c" ++ String (ascii_of_nat 10) ("*-" ++ String (ascii_of_nat 10) "")))%string.
Theorem C15_source_unchanged_refuted :
  match loads [] k4_text with
  | IOk d => match to_transposed d "M2" "up" with
             | Ok (r, src) => dumps src default_opts <> dumps d default_opts
             | Err _ => False end
  | _ => False
  end.
Proof. vm_compute. discriminate. Qed.
Print Assumptions C15_source_unchanged_refuted.

(* obligation regenerated from the source on every run: the code this property runs through keeps exactly the state the
   model knows (no new attribute, class-level table, module-level binding or caching decorator), see proofs/State*Proofs.v *)
From KV Require Import StateGen StateBase StateDocumentProofs StatePitchProofs.
Theorem C15_state_as_modelled : state_document = modelled_state_document /\ state_pitch = modelled_state_pitch.
Proof. exact (conj state_document_as_modelled state_pitch_as_modelled). Qed.
Print Assumptions C15_state_as_modelled.
