(* C01 - Normalised export is a fixed point of import-then-export.  Property theorems only.
   Proved here: canonicity of the normal form on the listener/export model (every list of signifier
   characters, every category filter).  The fixed-point clauses at document level are decided by the
   correspondence of the importer/exporter model with kernpy plus the monitors (DESIGN.md, C01). *)
From Coq Require Import List String Ascii Bool Permutation.
From KV Require Import Strings CatGen Token KernTok TokenProofs CanonProofs.
Import ListNotations.

(* the listener's signifier list, once sorted for export, is a function of the SET of signifier characters:
   order, position (slot) and repetition are irrelevant *)
Theorem C01_canonical_signifiers : forall l1 l2, same_chars l1 l2 ->
  stable_sort sub_full_leb (add_decos [] l1) = stable_sort sub_full_leb (add_decos [] l2).
Proof. exact canonical_decorations. Qed.
Print Assumptions C01_canonical_signifiers.

Theorem C01_canonical_export : forall keep e1 e2 pd l1 l2, same_chars l1 l2 ->
  export_noterest keep None {| nr_enc := e1; nr_pd := pd; nr_deco := add_decos [] l1 |}
  = export_noterest keep None {| nr_enc := e2; nr_pd := pd; nr_deco := add_decos [] l2 |}.
Proof. exact canonical_export. Qed.
Print Assumptions C01_canonical_export.

Theorem C01_order_and_repetition_irrelevant :
  (forall l1 l2, Permutation l1 l2 -> same_chars l1 l2) /\
  (forall l c, In c l -> same_chars (c :: l) l) /\
  (forall a b, same_chars (a ++ b) (b ++ a)).
Proof. exact (conj same_chars_perm (conj same_chars_dup same_chars_app_comm)). Qed.
Print Assumptions C01_order_and_repetition_irrelevant.

(* export never invents, drops or alters a sub-part: the sorted lists are permutations of the filtered ones *)
Theorem C01_sort_is_permutation : forall (l : list subtoken),
  Permutation (stable_sort sub_full_leb l) l /\ Permutation (stable_sort sub_cat_leb l) l.
Proof. intros l. split; apply stable_sort_perm. Qed.
Print Assumptions C01_sort_is_permutation.

(* parser correctness on canonical note text: for EVERY well-formed note (any digits, optional %n, any number of dots,
   optional grace / appoggiatura mark, any pitch letter and octave, any accidental with or without display suffix, any
   duplicate-free list of stand-alone signifiers) the scanner + listener, run on duration ++ pitch ++ accidental ++
   signifiers, consume the whole text and return exactly the note's sub-tokens - so re-importing the normal form of a
   single note yields the same token contents (no error, nothing shortened, nothing moved) *)
From KV Require Import ScanProofs.
Theorem C01_reimport_of_canonical_note : forall n, note_ok n -> kern_recognise (str (print_note n)) = KTok (note_token n).
Proof. exact recognise_print. Qed.
Print Assumptions C01_reimport_of_canonical_note.

(* the normal form of a single note is a fixed point: the kern export of a canonical note is its canonical text, the
   recogniser reads that text back as the same token (no error, whole text consumed), and exporting again gives the
   same text - for EVERY well-formed note whose signifiers are in canonical order *)
From KV Require Import ExportFixedProofs Tokenizers.
Theorem C01_note_fixed_point : forall n, note_ok n -> canonical_order n ->
  exists text, kern_tokenize all_cats (note_token n) = Ok text /\
               kern_recognise text = KTok (note_token n) /\
               (forall t', kern_recognise text = KTok t' -> kern_tokenize all_cats t' = Ok text).
Proof. exact note_export_fixed_point. Qed.
Print Assumptions C01_note_fixed_point.

Theorem C01_export_of_canonical_note : forall n, note_ok n -> canonical_order n ->
  kern_tokenize all_cats (note_token n) = Ok (str (print_note n)).
Proof. exact kern_export_canonical. Qed.
Print Assumptions C01_export_of_canonical_note.

(* obligation regenerated from the source on every run: the code this property runs through keeps exactly the state the
   model knows (no new attribute, class-level table, module-level binding or caching decorator), see proofs/State*Proofs.v *)
From KV Require Import StateGen StateBase StateImportProofs StateTokensProofs StateExportProofs.
Theorem C01_state_as_modelled : state_import = modelled_state_import /\ state_tokens = modelled_state_tokens /\ state_export = modelled_state_export.
Proof. exact (conj state_import_as_modelled (conj state_tokens_as_modelled state_export_as_modelled)). Qed.
Print Assumptions C01_state_as_modelled.

(* the same for RESTS: for every well-formed rest (any duration incl. rational / dotted / grace marks, duplicate-free
   stand-alone rest signifiers) the recogniser reads the canonical text back as exactly that rest, and the normal form is
   a fixed point of export - import - export *)
From KV Require Import OptGen Tokenizers RestProofs RestFixedProofs.
Theorem C01_reimport_of_canonical_rest : forall r, rest_ok r -> kern_recognise (str (print_rest r)) = KTok (rest_token r).
Proof. exact recognise_print_rest. Qed.
Print Assumptions C01_reimport_of_canonical_rest.
Theorem C01_rest_fixed_point : forall r, rest_ok r -> rest_canonical_order r ->
  exists text, kern_tokenize all_cats (rest_token r) = Ok text /\
               kern_recognise text = KTok (rest_token r) /\
               (forall t', kern_recognise text = KTok t' -> kern_tokenize all_cats t' = Ok text).
Proof. exact rest_export_fixed_point. Qed.
Print Assumptions C01_rest_fixed_point.

(* and for CHORDS of any number of notes: on the canonical text (notes separated by single blanks, each with its own
   duration and the chord's signifiers) the recogniser consumes everything and returns exactly these notes, in order *)
From KV Require Import ChordProofs.
Theorem C01_reimport_of_canonical_chord : forall D notes, 2 <= List.length notes -> chord_ok D notes ->
  kern_recognise (str (print_chord notes)) = KTok (TChord (str (print_chord notes)) (map (chord_note D) notes)).
Proof. exact recognise_print_chord. Qed.
Print Assumptions C01_reimport_of_canonical_chord.

(* ... and the fixed point itself for chords: the kern export of the chord token read from the canonical chord text is
   that text again - export o import o export = export for chords of any number of notes (each note in canonical order,
   all notes carrying the chord's signifiers) *)
From KV Require Import ChordFixedProofs.
Theorem C01_chord_fixed_point : forall D notes, 2 <= List.length notes -> chord_ok D notes -> Forall canonical_order notes ->
  match kern_recognise (str (print_chord notes)) with
  | KTok t => kern_tokenize all_cats t = Ok (str (print_chord notes))
  | KOut => False
  end.
Proof. exact chord_export_fixed_point. Qed.
Print Assumptions C01_chord_fixed_point.

(* DOCUMENT level, single-spine **kern documents.  A cell is in normal form when it is the export of its own token
   (canonical notes are: C01_canonical_note_is_normal; the same holds for whatever else the fixed-point theorems cover).
   For every such document - a header line, ANY number of cells in normal form, the terminator - the importer builds one
   stage per line holding that cell's token, the default export is the document's own grid, and the exported TEXT is
   read, imported and exported to itself: export o import = identity, hence export o import o export = export. *)
From KV Require Import Importer Exporter LineReaderProofs ReadBackProofs SingleSpineProofs.
Theorem C01_single_spine_document_fixed_point : forall bad cells,
  Forall (normal_cell bad) cells -> (forall c, In c cells -> cell_ok c = true) ->
  let text := render_rows (one_spine cells) in
  exists d, load_file bad text = IOk d /\ dumps d default_opts = Ok text /\
            (plain (chars_of_string text) = true -> loads bad text = IOk d).
Proof. exact one_spine_text_fixed_point. Qed.
Print Assumptions C01_single_spine_document_fixed_point.

Theorem C01_canonical_note_is_normal : forall bad n, note_ok n -> canonical_order n ->
  mem_str (str (print_note n)) bad = false -> normal_cell bad (str (print_note n)).
Proof. exact canonical_note_is_normal. Qed.
Print Assumptions C01_canonical_note_is_normal.

(* the cells the fixed-point theorems cover are in normal form: canonical rests, canonical chords, and every cell the
   recogniser keeps as one simple token carrying its own text (interpretations such as clefs, meters, keys ...) *)
From KV Require Import OptGen Tokenizers RestProofs RestFixedProofs.
Theorem C01_canonical_rest_is_normal : forall bad r, rest_ok r -> rest_canonical_order r ->
  mem_str (str (print_rest r)) bad = false -> normal_cell bad (str (print_rest r)).
Proof. exact canonical_rest_is_normal. Qed.
Print Assumptions C01_canonical_rest_is_normal.

Theorem C01_canonical_chord_is_normal : forall bad D notes, 2 <= List.length notes -> chord_ok D notes ->
  Forall canonical_order notes -> mem_str (str (print_chord notes)) bad = false -> normal_cell bad (str (print_chord notes)).
Proof. exact canonical_chord_is_normal. Qed.
Print Assumptions C01_canonical_chord_is_normal.

Theorem C01_verbatim_cell_is_normal : forall bad c k cls, plain_cell c -> c <> ""%string -> mem_str c bad = false ->
  kern_recognise c = KTok (TSimple c k cls) -> strip_separators c = c -> mem_str c nullish_tokens = false ->
  normal_cell bad c.
Proof. exact verbatim_cell_is_normal. Qed.
Print Assumptions C01_verbatim_cell_is_normal.

(* DOCUMENT level, ANY spine structure - several spines of any supported type, splits, joins, early ends, comments: when
   every cell is in normal form under the header that governs it (it is the export of its own token: canonical notes,
   rests, chords, interpretations kept as simple tokens, spine operators, headers, separator-free comments), the default
   export of the imported document is the source grid itself minus the '!!' lines and the all-null lines.  With
   C03_export_text_is_the_exported_grid: export o import = identity on such texts, hence export o import o export = export. *)
From KV Require Import GridTokensProofs GridIdentityProofs.
Theorem C01_normal_documents_are_fixed_points : forall bad text d, loads bad text = IOk d ->
  forall sts, d_stages d = [0] :: sts ->
  rows_normal bad d sts (filter nonempty_row (rows_of_text text)) ->
  export_rows d default_opts = Ok (filter keep_row (map row_text (filter nonempty_row (rows_of_text text)))).
Proof. exact export_of_normal_document. Qed.
Print Assumptions C01_normal_documents_are_fixed_points.
