(* C05 - Category filtering removes exactly the unselected material.  Property theorems only. *)
From Coq Require Import List String Ascii Bool.
From KV Require Import Strings CatGen Cat CatProofs Token Tokenizers TokenProofs.
Import ListNotations.

(* exporting a note with a filter = exporting the note from which the unselected sub-parts are deleted *)
Theorem C05_filter_is_deletion : forall keep n,
  export_noterest keep None n = export_noterest (fun _ => true) None (filter_note keep n).
Proof. exact export_filter_is_deletion. Qed.
Print Assumptions C05_filter_is_deletion.

(* selected material is never altered or reordered: filtering commutes with both sorts of the export *)
Theorem C05_selected_keep_their_order : forall keep n,
  stable_sort sub_cat_leb (filter (fun s => keep (st_cat s)) (nr_pd n))
  = filter (fun s => keep (st_cat s)) (stable_sort sub_cat_leb (nr_pd n)) /\
  stable_sort sub_full_leb (filter (fun s => keep (st_cat s)) (nr_deco n))
  = filter (fun s => keep (st_cat s)) (stable_sort sub_full_leb (nr_deco n)).
Proof. exact filtered_parts_are_subsequence. Qed.
Print Assumptions C05_selected_keep_their_order.

(* include = all and exclude = nothing are the identity *)
Theorem C05_identity : forall n, filter_note (keep_of (valid None None)) n = n.
Proof. exact keep_all_is_identity. Qed.
Print Assumptions C05_identity.

(* the selected set is the include categories with their descendants minus the exclude categories with theirs *)
Theorem C05_selected_set : forall inc exc c, In c (valid (Some inc) (Some exc)) <-> selected inc exc c.
Proof. exact valid_spec. Qed.
Print Assumptions C05_selected_set.

(* any other token is untouched by the filter inside export (the gate that replaces it is in the exporter) *)
Theorem C05_other_tokens_untouched : forall keep conv t,
  match t with TNoteRest _ | TChord _ _ => True | _ => export_token keep conv t = Ok (tok_enc t) end.
Proof. exact simple_export_verbatim. Qed.
Print Assumptions C05_other_tokens_untouched.

(* obligation regenerated from the source on every run: the code this property runs through keeps exactly the state the
   model knows (no new attribute, class-level table, module-level binding or caching decorator), see proofs/State*Proofs.v *)
From KV Require Import StateGen StateBase StateExportProofs StateTokensProofs.
Theorem C05_state_as_modelled : state_export = modelled_state_export /\ state_tokens = modelled_state_tokens.
Proof. exact (conj state_export_as_modelled state_tokens_as_modelled). Qed.
Print Assumptions C05_state_as_modelled.
