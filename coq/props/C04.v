(* C04 - The six encodings are consistent views of one document.  Property theorems only. *)
From Coq Require Import List String Ascii Bool.
From KV Require Import Strings CatGen Cat EncGen Token Tokenizers TokenProofs.
Import ListNotations.

(* each plain encoding IS its extended counterpart with the separator characters removed, for every token,
   category selection and clef (nothing else differs) *)
Theorem C04_kern_of_ekern : forall cats t, kern_tokenize cats t = map_res strip_separators (ekern_tokenize cats t).
Proof. exact kern_is_stripped_ekern. Qed.
Print Assumptions C04_kern_of_ekern.
Theorem C04_bkern_of_bekern : forall cats t, bkern_tokenize cats t = map_res strip_token_separator (bekern_tokenize cats t).
Proof. exact bkern_is_stripped_bekern. Qed.
Print Assumptions C04_bkern_of_bekern.
Theorem C04_akern_of_aekern : forall cats clef t, akern_tokenize cats clef t = map_res strip_separators (aekern_tokenize cats clef t).
Proof. exact akern_is_stripped_aekern. Qed.
Print Assumptions C04_akern_of_aekern.
Theorem C04_bekern_of_ekern : forall cats t, bekern_tokenize cats t = map_res bekern_of_ekern (ekern_tokenize cats t).
Proof. exact bekern_is_reduced_ekern. Qed.
Print Assumptions C04_bekern_of_ekern.

(* the factory (table regenerated from tokenizers.py) gives each encoding exactly its tokenizer *)
Theorem C04_dispatch : forall e cats clef t,
  tokenize e cats clef t =
  match e with
  | E_eKern => ekern_tokenize cats t | E_normalizedKern => kern_tokenize cats t
  | E_bKern => bkern_tokenize cats t | E_bEkern => bekern_tokenize cats t
  | E_agnosticExtendedKern => aekern_tokenize cats clef t | E_agnosticKern => akern_tokenize cats clef t
  end.
Proof. exact tokenize_dispatch. Qed.
Print Assumptions C04_dispatch.

(* every spine header is '**' + encoding prefix + original type (prefix table regenerated from Encoding.prefix) *)
Theorem C04_header : forall e enc sp,
  header_for e (THeader enc sp) = Ok (THeader ("**" ++ expected_prefix e ++ drop 2 enc)%string sp).
Proof. exact header_prefix. Qed.
Print Assumptions C04_header.

(* non-note cells are identical in the six encodings (text free of separator characters) *)
Theorem C04_non_note_identical : forall e cats clef t,
  match t with TNoteRest _ | TChord _ _ => True
  | _ => strip_separators (tok_enc t) = tok_enc t -> bekern_of_ekern (tok_enc t) = tok_enc t ->
         strip_token_separator (tok_enc t) = tok_enc t ->
         (e = E_agnosticKern \/ e = E_agnosticExtendedKern -> match clef with Some ce => Gkern.create_clef ce <> None | None => True end) ->
         tokenize e cats clef t = Ok (tok_enc t)
  end.
Proof. exact non_note_same_in_all_encodings. Qed.
Print Assumptions C04_non_note_identical.

(* the basic encoding is the extended one with the signifiers removed NOTE BY NOTE: for every chord (any number of
   notes) and every category selection, both encodings list the same notes in the same order, joined by single
   spaces; the basic one keeps exactly the duration-and-pitch part of each.  No note is lost, merged or moved.
   [note_subs_ok]: the sub-token texts hold no space, no separator byte, and the duration / pitch ones are not empty
   (true of everything the parser builds). *)
From KV Require Import BekernProofs.
Theorem C04_chord_basic_is_note_by_note : forall cats enc notes, notes <> [] -> forallb note_subs_ok notes = true ->
  ekern_tokenize cats (TChord enc notes) = Ok (join " " (map (fun n => note_text (note_pair (keep_of cats) n)) notes)) /\
  bekern_tokenize cats (TChord enc notes) = Ok (join " " (map (fun n => fst (note_pair (keep_of cats) n)) notes)).
Proof. exact chord_bekern_note_by_note. Qed.
Print Assumptions C04_chord_basic_is_note_by_note.

Theorem C04_note_basic : forall cats n, note_subs_ok n = true ->
  ekern_tokenize cats (TNoteRest n) = Ok (note_text (note_pair (keep_of cats) n)) /\
  bekern_tokenize cats (TNoteRest n) = Ok (fst (note_pair (keep_of cats) n)).
Proof. exact note_bekern. Qed.
Print Assumptions C04_note_basic.

(* string level: the reduction keeps the number of notes of ANY space-separated cell text *)
Theorem C04_no_note_lost : forall notes, Forall note_clean notes -> notes <> [] ->
  List.length (split_char space (bekern_of_ekern (join " " (map note_text notes)))) = List.length notes.
Proof. exact bekern_keeps_every_note. Qed.
Print Assumptions C04_no_note_lost.

(* obligation regenerated from the source on every run: the code this property runs through keeps exactly the state the
   model knows (no new attribute, class-level table, module-level binding or caching decorator), see proofs/State*Proofs.v *)
From KV Require Import StateGen StateBase StateExportProofs StateTokensProofs.
Theorem C04_state_as_modelled : state_export = modelled_state_export /\ state_tokens = modelled_state_tokens.
Proof. exact (conj state_export_as_modelled state_tokens_as_modelled). Qed.
Print Assumptions C04_state_as_modelled.
