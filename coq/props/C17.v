(* C17 - Token queries agree with the tree and with each other.  Property theorems only (every document). *)
From Coq Require Import List String Bool.
From KV Require Import Strings CatGen Cat CatProofs Token Importer Queries QueriesProofs.

Theorem C17_filtered_is_subsequence : forall d f,
  get_all_tokens d (Some f) = filter (fun t => mem (tok_cat t) (valid (Some f) None)) (get_all_tokens d None).
Proof. exact filtered_is_subsequence. Qed.
Print Assumptions C17_filtered_is_subsequence.

Theorem C17_filtered_membership : forall d f t,
  In t (get_all_tokens d (Some f)) <-> In t (full_listing d) /\ exists a, In a f /\ desc a (tok_cat t).
Proof. exact filtered_membership. Qed.
Print Assumptions C17_filtered_membership.

Theorem C17_unique_no_repeats : forall d f, NoDup (map tok_enc (get_unique_tokens d f)).
Proof. exact unique_no_repeats. Qed.
Print Assumptions C17_unique_no_repeats.

Theorem C17_unique_same_encodings : forall d f e,
  In e (map tok_enc (get_unique_tokens d f)) <-> In e (map tok_enc (get_all_tokens d f)).
Proof. exact unique_same_encodings. Qed.
Print Assumptions C17_unique_same_encodings.

Theorem C17_frequencies_sum : forall d f, total (frequencies d f) = List.length (get_all_tokens d f).
Proof. exact frequencies_sum. Qed.
Print Assumptions C17_frequencies_sum.

Theorem C17_frequencies_keys : forall d f k,
  In k (map fst (frequencies d f)) <-> In k (map tok_enc (get_all_tokens d f)).
Proof. exact frequencies_keys. Qed.
Print Assumptions C17_frequencies_keys.

Theorem C17_metacomments_key : forall d k c, In c (get_metacomments d (Some k) false) -> startswith ("!!!" ++ k) c = true.
Proof. exact metacomments_key. Qed.
Print Assumptions C17_metacomments_key.

(* the listing visits EVERY node of an imported document EXACTLY ONCE, in pre-order: the explicit-stack traversal of
   Node.dfs_iterative equals the structural pre-order (a node, then the sub-trees of its children left to right), which
   is a duplicate-free enumeration of all node ids *)
From Coq Require Import Permutation.
From KV Require Import DfsProofs.
Import ListNotations.
Theorem C17_listing_is_preorder_each_node_once : forall bad text d, loads bad text = IOk d ->
  dfs_order d = pre (List.length (d_nodes d)) d 0 /\
  Permutation (dfs_order d) (seq 0 (List.length (d_nodes d))) /\ NoDup (dfs_order d) /\
  (forall i, i < List.length (d_nodes d) ->
     pre (List.length (d_nodes d)) d i = i :: flat_map (pre (List.length (d_nodes d)) d) (n_children (get_node d i))).
Proof. exact listing_is_preorder. Qed.
Print Assumptions C17_listing_is_preorder_each_node_once.

(* obligation regenerated from the source on every run: the code this property runs through keeps exactly the state the
   model knows (no new attribute, class-level table, module-level binding or caching decorator), see proofs/State*Proofs.v *)
From KV Require Import StateGen StateBase StateDocumentProofs.
Theorem C17_state_as_modelled : state_document = modelled_state_document.
Proof. exact state_document_as_modelled. Qed.
Print Assumptions C17_state_as_modelled.
