(* C08 - A measure excerpt is a self-contained, equivalent score.  PARTIAL: theorems on the exporter model only.
   Proved: every excerpt ends with spine terminators (an existing terminator row, or a synthetic row sized by the
   spine operators of the row before it), out-of-range ranges are rejected, the body is C07's stage range.
   Not proved: header first / rectangular / re-imports without errors / same signatures in force (the composition
   import o export o import) - decided for the claimed core class by correspondence and monitors (DESIGN.md C08). *)
From Coq Require Import List String Ascii Bool ZArith.
From KV Require Import Strings Token Importer Exporter ExporterProofs.
Import ListNotations.

Theorem C08_excerpt_terminated_partial : forall d o r t,
  o_to o = Some t -> export_rows d o = Ok r ->
  match rev r with
  | [] => True
  | last :: before =>
    (exists rest, last = "*-"%string :: rest) \/
    (exists prev, before = prev :: tl before /\
                  last = repeat "*-"%string (List.length prev + count_str "*^" prev - count_str "*v" prev))
  end.
Proof. exact excerpt_ends_terminated. Qed.
Print Assumptions C08_excerpt_terminated_partial.

Theorem C08_body_is_stage_range_partial : forall d o n m a,
  main_rows d o a (n + m) =
  match main_rows d o a n, main_rows d o (a + n) m with
  | Ok r1, Ok r2 => Ok (r1 ++ r2)
  | Err x, _ => Err x
  | Ok _, Err x => Err x
  end.
Proof. exact main_rows_split. Qed.
Print Assumptions C08_body_is_stage_range_partial.

Theorem C08_out_of_range_rejected_partial : forall d o,
  (match o_from o with Some f => (f <? 0)%Z | None => false end = true \/
   match o_to o with Some t => (Z.of_nat (List.length (d_mst d)) <? t)%Z | None => false end = true \/
   match o_from o, o_to o with Some f, Some t => (t <? f)%Z | _, _ => false end = true) ->
  export_rows d o = Err "ValueError"%string.
Proof. exact range_validation. Qed.
Print Assumptions C08_out_of_range_rejected_partial.

(* obligation regenerated from the source on every run: the code this property runs through keeps exactly the state the
   model knows (no new attribute, class-level table, module-level binding or caching decorator), see proofs/State*Proofs.v *)
From KV Require Import StateGen StateBase StateExportProofs StateDocumentProofs.
Theorem C08_state_as_modelled : state_export = modelled_state_export /\ state_document = modelled_state_document.
Proof. exact (conj state_export_as_modelled state_document_as_modelled). Qed.
Print Assumptions C08_state_as_modelled.
