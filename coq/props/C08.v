(* C08 - A measure excerpt is a self-contained, equivalent score.  PARTIAL: theorems on the exporter model only.
   Proved: every excerpt ends with spine terminators (an existing terminator row, or a synthetic row sized by the
   spine operators of the row before it), out-of-range ranges are rejected, the body is C07's stage range.
   Not proved: header first / rectangular / re-imports without errors / same signatures in force (the composition
   import o export o import) - decided for the claimed core class by correspondence and monitors (DESIGN.md C08). *)
From Coq Require Import List String Ascii Bool ZArith.
From KV Require Import Strings Token Importer Exporter ExporterProofs.
Import ListNotations.

Theorem C08_excerpt_terminated_partial : forall d o r t,
  o_to o = Some t -> export_rows d o = Ok r ->
  match rev r with
  | [] => True
  | last :: before =>
    (exists rest, last = "*-"%string :: rest) \/
    (exists prev, before = prev :: tl before /\
                  last = repeat "*-"%string (List.length prev + count_str "*^" prev - count_str "*v" prev))
  end.
Proof. exact excerpt_ends_terminated. Qed.
Print Assumptions C08_excerpt_terminated_partial.

Theorem C08_body_is_stage_range_partial : forall d o n m a,
  main_rows d o a (n + m) =
  match main_rows d o a n, main_rows d o (a + n) m with
  | Ok r1, Ok r2 => Ok (r1 ++ r2)
  | Err x, _ => Err x
  | Ok _, Err x => Err x
  end.
Proof. exact main_rows_split. Qed.
Print Assumptions C08_body_is_stage_range_partial.

Theorem C08_out_of_range_rejected_partial : forall d o,
  (match o_from o with Some f => (f <? 0)%Z | None => false end = true \/
   match o_to o with Some t => (Z.of_nat (List.length (d_mst d)) <? t)%Z | None => false end = true \/
   match o_from o, o_to o with Some f, Some t => (t <? f)%Z | _, _ => false end = true) ->
  export_rows d o = Err "ValueError"%string.
Proof. exact range_validation. Qed.
Print Assumptions C08_out_of_range_rejected_partial.

(* obligation regenerated from the source on every run: the code this property runs through keeps exactly the state the
   model knows (no new attribute, class-level table, module-level binding or caching decorator), see proofs/State*Proofs.v *)
From KV Require Import StateGen StateBase StateExportProofs StateDocumentProofs.
Theorem C08_state_as_modelled : state_export = modelled_state_export /\ state_document = modelled_state_document.
Proof. exact (conj state_export_as_modelled state_document_as_modelled). Qed.
Print Assumptions C08_state_as_modelled.

(* "governed by the same clef, key signature and time signature as in the full score".
   (1) For EVERY text that imports, every node's signature dictionary reads, under each class name, exactly the nearest
       signature cell of that class on the way up its spine path (through splits and joins) to the header: there is an
       entry sid for class cls IFF sid is a cell above-or-at the node holding a signature token of class cls, with no
       other signature of that class, header or '!!' line in between. *)
From KV Require Import TreeProofs SigForceProofs.
Theorem C08_signatures_in_force_partial : forall bad text d, loads bad text = IOk d ->
  forall i, i < List.length (d_nodes d) -> forall cls sid,
  assoc_str cls (n_sigs (get_node d i)) = Some sid <->
  (0 < sid /\ clear_path d cls sid i /\ exists t, n_tok (get_node d sid) = Some t /\ is_sig_of cls t = true).
Proof. exact loads_sig_in_force. Qed.
Print Assumptions C08_signatures_in_force_partial.

(* (2) The signature block an excerpt starts with is made, column by column, of exactly these dictionaries: one column
       per node of the excerpt's first line that has any, holding the export of every entry in dictionary order, minus
       the entries replaced by a new signature of the same class before the first note; all columns have the same
       height (otherwise the export raises - the ragged-signature finding K10) and the block is written row by row. *)
Theorem C08_excerpt_signature_block_partial : forall d o fs ts rows, signature_rows d o fs ts = Ok rows ->
  exists cols,
    Forall2 (fun id col =>
      exists l, sig_column d o fs ts id = Ok col /\ col = l /\
        Forall2 (fun c kv => export_node d o (snd kv) = Ok c) l
          (filter (fun kv => negb (sig_cancelled (S (ts - fs)) d (node_class d (snd kv)) id fs ts)) (n_sigs (get_node d id))))
      (nth fs (d_stages d) []) cols /\
    let kept := filter nonempty cols in
    (forall c, In c kept -> List.length c = List.length (hd [] kept)) /\
    rows = map (fun irow => map (fun col => nth irow col ""%string) kept) (seq 0 (List.length (hd [] kept))).
Proof.
  intros d o fs ts rows H. destruct (signature_rows_spec d o fs ts rows H) as [cols [F R]]. exists cols. split; [|exact R].
  clear R H. induction F as [|id col ids cols Hc F IH]; constructor; [|exact IH].
  exists col. split; [exact Hc|]. split; [reflexivity|]. exact (sig_column_spec d o fs ts id _ _ Hc).
Qed.
Print Assumptions C08_excerpt_signature_block_partial.

(* (3) re-import, first half: the text of an excerpt is read back by the importer's line reader as exactly the rows of
       the excerpt (preamble, signature block, body, terminators), cell for cell *)
From KV Require Import LineReaderProofs ReadBackProofs.
Theorem C08_excerpt_read_back_partial : forall bad d o rows, export_rows d o = Ok rows ->
  (forall r c, In r rows -> In c r -> cell_ok c = true) ->
  exists text, dumps d o = Ok text /\
    load_file bad text = match run_rows bad init_state (filter (fun r => negb (empty_row r)) rows) with
                         | IOk s => IOk (i_doc s) | IErr e => IErr e | IOut => IOut end.
Proof. exact dumps_then_load. Qed.
Print Assumptions C08_excerpt_read_back_partial.
