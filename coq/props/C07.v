(* C07 - Measure ranges partition the score.  Property theorems only (stage-range arithmetic of the exporter
   model; which stages a measure spans is decided by correspondence and the generator's oracle). *)
From Coq Require Import List String Ascii Bool ZArith.
From KV Require Import Strings Token Importer Exporter ExporterProofs.
Import ListNotations.

(* consecutive stage ranges compose: exporting [a, a+n+m) yields the rows of [a, a+n) followed by those of
   [a+n, a+n+m), each row exactly once and unmodified *)
Theorem C07_ranges_compose : forall d o n m a,
  main_rows d o a (n + m) =
  match main_rows d o a n, main_rows d o (a + n) m with
  | Ok r1, Ok r2 => Ok (r1 ++ r2)
  | Err x, _ => Err x
  | Ok _, Err x => Err x
  end.
Proof. exact main_rows_split. Qed.
Print Assumptions C07_ranges_compose.

(* out-of-range measure numbers are rejected with ValueError, never clamped *)
Theorem C07_rejected : forall d o,
  (match o_from o with Some f => (f <? 0)%Z | None => false end = true \/
   match o_to o with Some t => (Z.of_nat (List.length (d_mst d)) <? t)%Z | None => false end = true \/
   match o_from o, o_to o with Some f, Some t => (t <? f)%Z | _, _ => false end = true) ->
  export_rows d o = Err "ValueError"%string.
Proof. exact range_validation. Qed.
Print Assumptions C07_rejected.

(* the measure index of every imported document is strictly increasing and addresses existing stages, so the
   stage ranges of consecutive measures are disjoint and ordered *)
From KV Require Import ImporterProofs.
From Coq Require Import Sorted.
Theorem C07_measure_index_sorted : forall bad text d, loads bad text = IOk d ->
  StronglySorted lt (d_mst d) /\ Forall (fun m => 1 <= m < List.length (d_stages d)) (d_mst d).
Proof. exact loads_measure_index. Qed.
Print Assumptions C07_measure_index_sorted.

(* obligation regenerated from the source on every run: the code this property runs through keeps exactly the state the
   model knows (no new attribute, class-level table, module-level binding or caching decorator), see proofs/State*Proofs.v *)
From KV Require Import StateGen StateBase StateExportProofs StateDocumentProofs.
Theorem C07_state_as_modelled : state_export = modelled_state_export /\ state_document = modelled_state_document.
Proof. exact (conj state_export_as_modelled state_document_as_modelled). Qed.
Print Assumptions C07_state_as_modelled.

(* partition: exporting the stage ranges between consecutive cut points (the measure starts of the index, which the
   theorem above shows to be strictly increasing) and concatenating them gives exactly the rows of the whole range -
   every data line once, in order, unmodified - for every document, option set and increasing list of cuts *)
Theorem C07_segments_partition : forall d o last cuts c1 rest, cuts = c1 :: rest -> StronglySorted lt cuts ->
  Forall (fun c => c <= last) cuts -> seg_rows d o cuts last = main_rows d o c1 (last - c1).
Proof. exact segments_partition. Qed.
Print Assumptions C07_segments_partition.

(* WHICH lines open a measure, for every state the importer can reach and every line: the measure index grows by the
   stage of the line exactly when one of its ordinary cells (no header, no spine operator) holds a token of category
   BARLINES - whatever the type of the spine the cell stands in - or a token under CORE while no measure is open yet;
   comment lines and blank lines never change it.  (The tokens are those of C02_tree_holds_the_source_grid.) *)
From KV Require Import Importer TreeProofs GridTokensProofs MeasureStartProofs.
Theorem C07_which_lines_open_a_measure : forall bad s row s', state_ok s -> hdr_ok (i_doc s) ->
  step_row bad s row = IOk s' -> measure_step_spec s row s'.
Proof. exact step_row_measure_spec. Qed.
Print Assumptions C07_which_lines_open_a_measure.
