(* C18 - Every spine type imports every token without loss.  Property theorems only.
   [recog] (the ANTLR recogniser) is universally quantified: any deterministic function will do. *)
From Coq Require Import List String Bool.
From KV Require Import Strings CatGen Cat CatProofs SpineImpGen SpineImp SpineImpProofs.

(* for **text, **dynam, **dyn, **harm, **mxhm, **fing and EVERY unknown header, and every non-empty cell text *)
Theorem C18_never_fails : forall (T : Type) (tcat : T -> cat) (recog : string -> option T) h s,
  claimed h = true -> s <> ""%string -> forall e, import_token T tcat recog h s <> RErr e.
Proof. exact import_total. Qed.
Print Assumptions C18_never_fails.

Theorem C18_shared_structure_kept : forall (T : Type) (tcat : T -> cat) (recog : string -> option T) h s t,
  claimed h = true -> s <> ""%string -> recog s = Some t -> shared (tcat t) ->
  import_token T tcat recog h s = RKept t.
Proof. exact import_shared. Qed.
Print Assumptions C18_shared_structure_kept.

Theorem C18_everything_else_verbatim : forall (T : Type) (tcat : T -> cat) (recog : string -> option T) h s,
  claimed h = true -> s <> ""%string ->
  (recog s = None \/ exists t, recog s = Some t /\ ~ shared (tcat t) /\ ~ desc (own_cat h) (tcat t)) ->
  import_token T tcat recog h s = RSimple s (own_cat h).
Proof. exact import_other. Qed.
Print Assumptions C18_everything_else_verbatim.

Theorem C18_same_under_every_header : forall (T : Type) (tcat : T -> cat) (recog : string -> option T) h1 h2 s t,
  claimed h1 = true -> claimed h2 = true -> s <> ""%string -> recog s = Some t -> shared (tcat t) ->
  import_token T tcat recog h1 s = import_token T tcat recog h2 s.
Proof. exact import_same_structure. Qed.
Print Assumptions C18_same_under_every_header.

(* obligation regenerated from the source on every run: the code this property runs through keeps exactly the state the
   model knows (no new attribute, class-level table, module-level binding or caching decorator), see proofs/State*Proofs.v *)
From KV Require Import StateGen StateBase StateImportProofs.
Theorem C18_state_as_modelled : state_import = modelled_state_import.
Proof. exact state_import_as_modelled. Qed.
Print Assumptions C18_state_as_modelled.

(* WHICH lines open a measure, for every state the importer can reach and every line: the measure index grows by the
   stage of the line exactly when one of its ordinary cells (no header, no spine operator) holds a token of category
   BARLINES - whatever the type of the spine the cell stands in - or a token under CORE while no measure is open yet;
   comment lines and blank lines never change it.  (The tokens are those of C02_tree_holds_the_source_grid.) *)
From KV Require Import Importer TreeProofs GridTokensProofs MeasureStartProofs.
Theorem C18_barlines_open_measures_under_every_spine_type : forall bad s row s', state_ok s -> hdr_ok (i_doc s) ->
  step_row bad s row = IOk s' -> measure_step_spec s row s'.
Proof. exact step_row_measure_spec. Qed.
Print Assumptions C18_barlines_open_measures_under_every_spine_type.
