(* C16 - Pitch spelling codec is lossless and side-effect free.  Property theorems only. *)
From Coq Require Import List String ZArith.
From KV Require Import Strings PitchGen Pitch PitchSpec TransposeProofs CodecProofs.
Open Scope Z_scope.

(* importing any spelling (7 letters, alterations -3..3, EVERY octave in Z) yields the right
   letter, alteration and octave *)
Theorem C16_import : forall l a o, In l letters_z -> In a alts7 ->
  import_pitch (spell l a o) = Some (spec_pitch l a o).
Proof. exact parse_spell. Qed.
Print Assumptions C16_import.

(* exporting that pitch returns the same spelling *)
Theorem C16_export : forall l a o, In l letters_z -> In a alts7 ->
  fst (export_pitch (spec_pitch l a o)) = spell l a o.
Proof. exact export_spell. Qed.
Print Assumptions C16_export.

Theorem C16_round_trip : forall l a o, In l letters_z -> In a alts7 ->
  option_map (fun p => fst (export_pitch p)) (import_pitch (spell l a o)) = Some (spell l a o).
Proof. exact codec_round_trip. Qed.
Print Assumptions C16_round_trip.

(* exporting never alters the pitch it is given, so exporting twice gives the same answer *)
Theorem C16_export_pure : forall p, snd (export_pitch p) = p.
Proof. exact export_pure. Qed.
Print Assumptions C16_export_pure.

Theorem C16_export_twice : forall p, let '(t1, p1) := export_pitch p in fst (export_pitch p1) = t1.
Proof. exact export_twice_same. Qed.
Print Assumptions C16_export_twice.

Theorem C16_name_idempotent : forall l a, In l letters_z -> In a alts7 ->
  forall n, set_name (lower_name l a) = Some n -> set_name n = Some n.
Proof. exact set_name_idempotent. Qed.
Print Assumptions C16_name_idempotent.

(* obligation regenerated from the source on every run: the code this property runs through keeps exactly the state the
   model knows (no new attribute, class-level table, module-level binding or caching decorator), see proofs/State*Proofs.v *)
From KV Require Import StateGen StateBase StatePitchProofs.
Theorem C16_state_as_modelled : state_pitch = modelled_state_pitch.
Proof. exact state_pitch_as_modelled. Qed.
Print Assumptions C16_state_as_modelled.
