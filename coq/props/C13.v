(* C13 - Export options act independently of one another.  Property theorems only. *)
From Coq Require Import List String Ascii Bool.
From KV Require Import Strings CatGen Cat CatProofs EncGen Token Tokenizers Importer Exporter ExporterProofs.
Import ListNotations.

(* spine selection is a gate in front of the cell; the cell depends on the category set and the encoding only *)
Theorem C13_selection_independent : forall d o id,
  append_row d o id =
  if spine_selected o (header_type d id)
  then match cell_of d (o_cats o) (o_enc o) id with Ok s => Ok (Some s) | Err x => Err x end
  else Ok None.
Proof. exact append_row_factor. Qed.
Print Assumptions C13_selection_independent.

Theorem C13_cells_independent_of_selection : forall d o o' ids,
  o_cats o = o_cats o' -> o_enc o = o_enc o' ->
  row_cells d (o_cats o) (o_enc o) ids = row_cells d (o_cats o') (o_enc o') ids.
Proof. exact cells_independent_of_selection. Qed.
Print Assumptions C13_cells_independent_of_selection.

(* the encoding is applied to the category-filtered extended text, cell by cell *)
Theorem C13_encoding_after_filter : forall cats clef t,
  tokenize E_normalizedKern cats clef t = map_res strip_separators (tokenize E_eKern cats clef t) /\
  tokenize E_bEkern cats clef t = map_res bekern_of_ekern (tokenize E_eKern cats clef t) /\
  tokenize E_bKern cats clef t = map_res strip_token_separator (tokenize E_bEkern cats clef t) /\
  tokenize E_agnosticKern cats clef t = map_res strip_separators (tokenize E_agnosticExtendedKern cats clef t).
Proof. exact encoding_after_filter. Qed.
Print Assumptions C13_encoding_after_filter.

(* passing the default category selection explicitly selects the same categories as omitting it *)
Theorem C13_explicit_default_categories : forall c,
  mem c (valid (Some all_cats) (Some [])) = mem c (valid None None).
Proof. exact explicit_all_categories_mem. Qed.
Print Assumptions C13_explicit_default_categories.

(* obligation regenerated from the source on every run: the code this property runs through keeps exactly the state the
   model knows (no new attribute, class-level table, module-level binding or caching decorator), see proofs/State*Proofs.v *)
From KV Require Import StateGen StateBase StateExportProofs StateTokensProofs.
Theorem C13_state_as_modelled : state_export = modelled_state_export /\ state_tokens = modelled_state_tokens.
Proof. exact (conj state_export_as_modelled state_tokens_as_modelled). Qed.
Print Assumptions C13_state_as_modelled.

(* DOCUMENT level, single-spine **kern documents of any length: under ANY option set without a measure range whose
   encoding is one of kern / ekern / bkern / bekern and whose spine selection keeps the spine, the export is the header
   cell followed, line by line, by a function of that line's TOKEN and of (categories, encoding) only - the options act
   cell by cell and independently of the document around the cell; lines whose cell is null are dropped *)
From KV Require Import EncGen Token Tokenizers Importer Exporter SingleSpineProofs.
Theorem C13_single_spine_document_under_options : forall o d toks outs h, sp1 toks d ->
  spine_selected o (Some ("**kern"%string, 0)) = true -> clef_free (o_enc o) -> o_from o = None -> o_to o = None ->
  header_cell o = Ok h ->
  Forall2 (fun t x => match t with THeader _ _ => False | _ => True end /\ cell_of_tok o t = Ok x) toks outs ->
  export_rows d o = Ok (kept_rows (h :: outs)).
Proof. exact export_one_spine_opts. Qed.
Print Assumptions C13_single_spine_document_under_options.

Theorem C13_plain_and_basic_encodings_ignore_the_clef :
  clef_free E_normalizedKern /\ clef_free E_eKern /\ clef_free E_bKern /\ clef_free E_bEkern.
Proof. exact (conj clef_free_kern (conj clef_free_ekern (conj clef_free_bkern clef_free_bekern))). Qed.
Print Assumptions C13_plain_and_basic_encodings_ignore_the_clef.

(* and such documents exist for every list of importable cells (the invariant sp1 is what the importer builds) *)
Theorem C13_single_spine_documents_are_built : forall bad cells toks,
  Forall2 (fun c t => plain_cell c /\ import_cell bad "**kern" c = RTok t) cells toks ->
  exists s, run_rows bad init_state (one_spine cells) = IOk s /\ sp1 (toks ++ [term_tok]) (i_doc s).
Proof. exact import_one_spine. Qed.
Print Assumptions C13_single_spine_documents_are_built.
