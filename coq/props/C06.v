(* C06 - Spine selection is column projection.  Property theorems only (every tree, every option set). *)
From Coq Require Import List String Ascii Bool.
From KV Require Import Strings CatGen Cat EncGen Token Tokenizers Importer Exporter ExporterProofs.
Import ListNotations.

(* a node's cell is decided in two independent steps: the spine gate, then the cell (categories + encoding only) *)
Theorem C06_gate_then_cell : forall d o id,
  append_row d o id =
  if spine_selected o (header_type d id)
  then match cell_of d (o_cats o) (o_enc o) id with Ok s => Ok (Some s) | Err x => Err x end
  else Ok None.
Proof. exact append_row_factor. Qed.
Print Assumptions C06_gate_then_cell.

(* the exported row of a stage is the row of the selected sub-list of its nodes: columns of unselected spines
   (all their sub-spines share the header) are deleted, remaining cells unchanged and in order *)
Theorem C06_row_is_projection : forall d o ids,
  (forall id, In id ids -> spine_selected o (header_type d id) = false -> exists s, cell_of d (o_cats o) (o_enc o) id = Ok s) ->
  row_of_stage d o ids = row_cells d (o_cats o) (o_enc o) (filter (fun id => spine_selected o (header_type d id)) ids).
Proof. exact row_is_projection. Qed.
Print Assumptions C06_row_is_projection.

Theorem C06_unselected_ignored : forall d o id ids,
  spine_selected o (header_type d id) = false -> row_of_stage d o (id :: ids) = row_of_stage d o ids.
Proof. exact row_ignores_unselected. Qed.
Print Assumptions C06_unselected_ignored.

Theorem C06_select_all : forall d o ids, (forall id, In id ids -> spine_selected o (header_type d id) = true) ->
  row_of_stage d o ids = row_cells d (o_cats o) (o_enc o) ids.
Proof. exact select_all_row. Qed.
Print Assumptions C06_select_all.

(* obligation regenerated from the source on every run: the code this property runs through keeps exactly the state the
   model knows (no new attribute, class-level table, module-level binding or caching decorator), see proofs/State*Proofs.v *)
From KV Require Import StateGen StateBase StateExportProofs.
Theorem C06_state_as_modelled : state_export = modelled_state_export.
Proof. exact state_export_as_modelled. Qed.
Print Assumptions C06_state_as_modelled.

(* all sub-spines of a spine share its header: in every imported document a node that is not a header itself has the
   header type (text and 0-based spine id) of the cell above it on its spine path, so under EVERY option set the two
   are selected or deleted together - selection keeps or removes whole spine paths through splits and joins *)
From KV Require Import TreeProofs HeaderSelfProofs.
Theorem C06_spine_path_shares_header : forall bad text d, loads bad text = IOk d ->
  forall i h, i < List.length (d_nodes d) -> n_header (get_node d i) = Some h -> h <> i ->
  exists p, n_parent (get_node d i) = Some p /\ header_type d i = header_type d p /\
            (forall o, spine_selected o (header_type d i) = spine_selected o (header_type d p)).
Proof. exact spine_path_shares_header. Qed.
Print Assumptions C06_spine_path_shares_header.
