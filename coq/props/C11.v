(* C11 - Category algebra follows the documented tree.  Property theorems only. *)
From Coq Require Import List String ZArith Bool Permutation.
From KV Require Import CatGen Cat CatProofs.
Import ListNotations.

(* the hierarchy literal of tokens.py IS the tree documented in README.md *)
Theorem C11_matches_documentation : hierarchy = documented.
Proof. exact hierarchy_documented. Qed.
Print Assumptions C11_matches_documentation.

(* a forest in which each category occurs exactly once *)
Theorem C11_forest : NoDup all_nodes /\ Permutation all_nodes all_cats.
Proof. exact (conj forest_nodup forest_perm). Qed.
Print Assumptions C11_forest.

Theorem C11_single_parent : forall p q c, In (p, c) edges -> In (q, c) edges -> p = q.
Proof. exact parent_unique. Qed.
Print Assumptions C11_single_parent.

(* descendant test, children, subtree nodes and leaves agree with the tree, for all a b *)
Theorem C11_is_child : forall p c, is_child p c = true <-> desc p c.
Proof. exact is_child_spec. Qed.
Print Assumptions C11_is_child.

Theorem C11_children : forall p c, In c (children p) <-> In (p, c) edges.
Proof. exact children_spec. Qed.
Print Assumptions C11_children.

Theorem C11_nodes : forall p c, In c (nodes p) <-> desc p c /\ c <> p.
Proof. exact nodes_spec. Qed.
Print Assumptions C11_nodes.

Theorem C11_leaves : forall p c, In c (leaves p) <-> desc p c /\ c <> p /\ is_leaf c.
Proof. exact leaves_spec. Qed.
Print Assumptions C11_leaves.

(* for ALL include / exclude collections (any length, any repetition):
   selected = include with descendants minus exclude with descendants *)
Theorem C11_valid : forall inc exc c, In c (valid (Some inc) (Some exc)) <-> selected inc exc c.
Proof. exact valid_spec. Qed.
Print Assumptions C11_valid.

Theorem C11_valid_defaults :
  (forall exc c, In c (valid None (Some exc)) <-> ~ (exists b, In b exc /\ desc b c)) /\
  (forall inc c, In c (valid (Some inc) None) <-> exists a, In a inc /\ desc a c) /\
  (forall c, In c (valid None None)).
Proof. exact (conj valid_none_include (conj valid_none_exclude valid_none_none)). Qed.
Print Assumptions C11_valid_defaults.

(* match is true exactly when the category or one of its descendants is selected *)
Theorem C11_match : forall c inc exc, matches c inc exc = true <-> exists d, desc c d /\ In d (valid inc exc).
Proof. exact matches_spec. Qed.
Print Assumptions C11_match.

(* list, tuple, set, repeated members: only the set of the arguments matters *)
Theorem C11_argument_shape : forall inc inc' exc exc', same_set inc inc' -> same_set exc exc' ->
  canon (valid (Some inc) (Some exc)) = canon (valid (Some inc') (Some exc')).
Proof. exact valid_same_set. Qed.
Print Assumptions C11_argument_shape.

(* obligation regenerated from the source on every run: the queries keep no state between calls and never write to
   their arguments (syntactic store-site analysis of TokenCategory / TokenCategoryHierarchyMapper, see DESIGN C14) *)
From KV Require Import EffectsGen PurityProofs.
Theorem C11_algebra_is_stateless : forallb ss_fresh category_store_sites = true /\ 3 <= List.length category_store_sites.
Proof. exact category_algebra_stateless. Qed.
Print Assumptions C11_algebra_is_stateless.

(* obligation regenerated from the source on every run: the code this property runs through keeps exactly the state the
   model knows (no new attribute, class-level table, module-level binding or caching decorator), see proofs/State*Proofs.v *)
From KV Require Import StateGen StateBase StateTokensProofs.
Theorem C11_state_as_modelled : state_tokens = modelled_state_tokens.
Proof. exact state_tokens_as_modelled. Qed.
Print Assumptions C11_state_as_modelled.
