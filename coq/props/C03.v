(* C03 - Export conserves the score content cell for cell.  Property theorems only (token level; the
   grid clauses are decided by correspondence + the generator's oracle, DESIGN.md C03). *)
From Coq Require Import List String Ascii Bool Permutation.
From KV Require Import Strings CatGen Cat CatProofs EncGen Token Tokenizers TokenProofs.
Import ListNotations.

(* a token that is not a note, rest or chord is exported as its own text, whatever the filter / callback *)
Theorem C03_non_note_verbatim : forall keep conv t,
  match t with TNoteRest _ | TChord _ _ => True | _ => export_token keep conv t = Ok (tok_enc t) end.
Proof. exact simple_export_verbatim. Qed.
Print Assumptions C03_non_note_verbatim.

(* with the default category set no sub-part of a note is deleted ... *)
Theorem C03_default_keeps_every_part : forall n, filter_note (keep_of (valid None None)) n = n.
Proof. exact keep_all_is_identity. Qed.
Print Assumptions C03_default_keeps_every_part.

(* ... and the exported sub-parts are a permutation of the note's sub-parts (nothing invented or dropped) *)
Theorem C03_parts_conserved : forall (l : list subtoken),
  Permutation (stable_sort sub_cat_leb l) l /\ Permutation (stable_sort sub_full_leb l) l.
Proof. intros l. split; apply stable_sort_perm. Qed.
Print Assumptions C03_parts_conserved.

(* text without separator characters is the same in every encoding *)
Theorem C03_same_in_all_encodings : forall e cats clef t,
  match t with TNoteRest _ | TChord _ _ => True
  | _ => strip_separators (tok_enc t) = tok_enc t -> bekern_of_ekern (tok_enc t) = tok_enc t ->
         strip_token_separator (tok_enc t) = tok_enc t ->
         (e = E_agnosticKern \/ e = E_agnosticExtendedKern -> match clef with Some ce => Gkern.create_clef ce <> None | None => True end) ->
         tokenize e cats clef t = Ok (tok_enc t)
  end.
Proof. exact non_note_same_in_all_encodings. Qed.
Print Assumptions C03_same_in_all_encodings.

(* a note written in canonical order is imported with exactly its duration marks, pitch letters, accidental (with
   display suffix) and signifiers - nothing invented, dropped or altered - and exported as the same text *)
From KV Require Import KernTok ScanProofs ExportFixedProofs.
Theorem C03_note_parts_conserved : forall n, note_ok n -> kern_recognise (str (print_note n)) = KTok (note_token n).
Proof. exact recognise_print. Qed.
Print Assumptions C03_note_parts_conserved.

Theorem C03_note_export_verbatim : forall n, note_ok n -> canonical_order n ->
  kern_tokenize all_cats (note_token n) = Ok (str (print_note n)).
Proof. exact kern_export_canonical. Qed.
Print Assumptions C03_note_export_verbatim.

(* obligation regenerated from the source on every run: the code this property runs through keeps exactly the state the
   model knows (no new attribute, class-level table, module-level binding or caching decorator), see proofs/State*Proofs.v *)
From KV Require Import StateGen StateBase StateImportProofs StateTokensProofs StateExportProofs.
Theorem C03_state_as_modelled : state_import = modelled_state_import /\ state_tokens = modelled_state_tokens /\ state_export = modelled_state_export.
Proof. exact (conj state_import_as_modelled (conj state_tokens_as_modelled state_export_as_modelled)). Qed.
Print Assumptions C03_state_as_modelled.

(* same grid: when every spine is selected, the body of the export is the grid of the stages - one cell per node of the
   stage, in order - with exactly the empty rows (global-comment stages) and the all-null rows removed; nothing is
   invented, dropped or moved to another line or column.  For every document, stage range and option set. *)
From KV Require Import Importer Exporter ExporterProofs.
Theorem C03_export_is_the_stage_grid : forall d o n a,
  (forall k id, k < n -> In id (nth (a + k) (d_stages d) []) -> spine_selected o (header_type d id) = true) ->
  forall rows, main_rows d o a n = Ok rows ->
  exists cells, (forall k, k < n -> row_cells d (o_cats o) (o_enc o) (nth (a + k) (d_stages d) []) = Ok (cells k)) /\
                rows = filter kept_row (map cells (seq 0 n)) /\
                (forall k, k < n -> List.length (cells k) = List.length (nth (a + k) (d_stages d) [])).
Proof. exact full_selection_grid. Qed.
Print Assumptions C03_export_is_the_stage_grid.

(* a rest keeps its duration marks, the rest letter and exactly its signifiers: import of the canonical text yields
   exactly these sub-parts, and the default export prints them back verbatim *)
From KV Require Import RestProofs RestFixedProofs Tokenizers.
Theorem C03_rest_export_verbatim : forall r, rest_ok r -> rest_canonical_order r ->
  kern_recognise (str (print_rest r)) = KTok (rest_token r) /\ kern_tokenize all_cats (rest_token r) = Ok (str (print_rest r)).
Proof. intros r H1 H2. exact (conj (recognise_print_rest r H1) (kern_export_canonical_rest r H1 H2)). Qed.
Print Assumptions C03_rest_export_verbatim.

(* no note of a chord is lost, merged or altered by the import: the canonical chord text is read back as exactly its
   notes (each with its duration marks, pitch letters, accidental and the chord's signifiers), for any number of notes *)
From KV Require Import ChordProofs.
Theorem C03_chord_notes_conserved : forall D notes, 2 <= List.length notes -> chord_ok D notes ->
  kern_recognise (str (print_chord notes)) = KTok (TChord (str (print_chord notes)) (map (chord_note D) notes)).
Proof. exact recognise_print_chord. Qed.
Print Assumptions C03_chord_notes_conserved.

(* the exported TEXT holds the exported grid: reading back what the exporter writes returns its rows cell for cell
   (rows made only of "", "*", "." are not written), whatever the cells hold besides tab / LF / CR *)
From KV Require Import Importer Exporter LineReaderProofs ReadBackProofs.
Theorem C03_export_text_is_the_exported_grid : forall rows, (forall r c, In r rows -> In c r -> cell_ok c = true) ->
  rows_of_file (render_rows rows) = filter (fun r => negb (empty_row r)) rows /\
  (plain (chars_of_string (render_rows rows)) = true ->
   rows_of_text (render_rows rows) = filter (fun r => negb (empty_row r)) rows).
Proof. intros rows H. exact (conj (export_read_back_file rows H) (export_read_back_text rows H)). Qed.
Print Assumptions C03_export_text_is_the_exported_grid.

(* and the canonical chord is exported verbatim: its notes joined by single blanks, each as a single note is exported *)
From KV Require Import ChordFixedProofs.
Theorem C03_chord_export_verbatim : forall D notes, notes <> [] -> chord_ok D notes -> Forall canonical_order notes ->
  kern_tokenize all_cats (TChord (str (print_chord notes)) (map (chord_note D) notes)) = Ok (str (print_chord notes)).
Proof. exact kern_export_canonical_chord. Qed.
Print Assumptions C03_chord_export_verbatim.

(* DOCUMENT level, single-spine **kern documents: whatever the cells are (notes, rests, chords, barlines,
   interpretations - any cell the importer accepts that is no header, spine operator or comment), the default export is
   the header, then for every line the export of the token of that line's cell, in order, then the terminator: nothing
   dropped, invented or moved (cells whose token is hidden or exports to a null are outside this statement) *)
From KV Require Import SingleSpineProofs.
Theorem C03_single_spine_export_is_cell_by_cell : forall bad cells toks outs,
  Forall2 (fun c t => plain_cell c /\ import_cell bad "**kern" c = RTok t) cells toks -> Forall2 good toks outs ->
  exists s, run_rows bad init_state (one_spine cells) = IOk s /\ export_rows (i_doc s) default_opts = Ok (one_spine outs).
Proof. exact one_spine_export. Qed.
Print Assumptions C03_single_spine_export_is_cell_by_cell.

(* the same statement read as C03: nothing dropped, invented or moved - for every imported document whose cells are in
   normal form under the headers that govern them, whatever its spine structure, the exported grid IS the source grid
   minus the '!!' lines and the all-null lines *)
From KV Require Import GridTokensProofs GridIdentityProofs.
Theorem C03_normal_document_exports_its_own_grid : forall bad text d, loads bad text = IOk d ->
  forall sts, d_stages d = [0] :: sts ->
  rows_normal bad d sts (filter nonempty_row (rows_of_text text)) ->
  export_rows d default_opts = Ok (filter keep_row (map row_text (filter nonempty_row (rows_of_text text)))).
Proof. exact export_of_normal_document. Qed.
Print Assumptions C03_normal_document_exports_its_own_grid.
