(* C09 - Transposition is exact interval arithmetic.  Property theorems only. *)
From Coq Require Import List String ZArith.
From KV Require Import Strings PitchGen IntervalGen Pitch PitchSpec TransposeProofs.
Open Scope Z_scope.

(* letter moved by the diatonic size, sounding pitch by the semitone size, whenever spellable
   with at most two accidentals: every letter, alteration -2..2, EVERY octave in Z, every
   interval of the table regenerated from transposer.py, both directions *)
Theorem C09_exact :
  forall l a o iv dsz ssz d,
    In l letters_z -> In a alts_z -> In iv intervals ->
    interval_spec (snd iv) = Some (dsz, ssz) ->
    let r := spec_transpose l a o dsz ssz d in
    spellable r = true ->
    to_transposed (spec_pitch l a o) (fst iv) d =
      Some (spec_pitch (sr_letter r) (sr_alt r) (sr_octave r)).
Proof. exact exact_all_octaves. Qed.
Print Assumptions C09_exact.

Theorem C09_every_interval_has_a_reading :
  forallb (fun iv => match interval_spec (snd iv) with Some _ => true | None => false end) intervals = true.
Proof. exact intervals_all_parse. Qed.
Print Assumptions C09_every_interval_has_a_reading.

Theorem C09_inverse : forall p k d q,
  to_transposed p k d = Some q -> to_transposed q k (opp_direction d) = Some p.
Proof. exact transpose_back. Qed.
Print Assumptions C09_inverse.

Theorem C09_unison : forall p d cp,
  assoc_str (ap_name p) chromas = Some cp -> to_transposed p (iv "P1") d = Some p.
Proof. intros p d cp H. rewrite iv_unison_is_zero. exact (unison_identity p d cp H). Qed.
Print Assumptions C09_unison.

Theorem C09_octave : forall p d cp,
  assoc_str (ap_name p) chromas = Some cp ->
  to_transposed p (iv "octave") d = Some {| ap_name := ap_name p; ap_octave := ap_octave p + sgn d |}.
Proof. intros p d cp H. rewrite iv_octave_is_base. exact (octave_keeps_name p d cp H). Qed.
Print Assumptions C09_octave.

Theorem C09_fourth_fifth : forall p d q r,
  to_transposed p (iv "P4") d = Some q -> to_transposed q (iv "P5") d = Some r ->
  to_transposed p (iv "octave") d = Some r.
Proof. exact fourth_then_fifth_is_octave. Qed.
Print Assumptions C09_fourth_fifth.

Theorem C09_fails_only_on_gap : forall p k d cp,
  assoc_str (ap_name p) chromas = Some cp ->
  (to_transposed p k d = None <-> (chroma_base * ap_octave p + cp + sgn d * k) mod chroma_base = 22).
Proof. exact fails_only_on_22. Qed.
Print Assumptions C09_fails_only_on_gap.

Theorem C09_available_intervals :
  List.length available_intervals = List.length intervals /\ names_distinct = true.
Proof. split; [exact available_intervals_count | exact interval_names_distinct]. Qed.
Print Assumptions C09_available_intervals.

(* obligation regenerated from the source on every run: the code this property runs through keeps exactly the state the
   model knows (no new attribute, class-level table, module-level binding or caching decorator), see proofs/State*Proofs.v *)
From KV Require Import StateGen StateBase StatePitchProofs.
Theorem C09_state_as_modelled : state_pitch = modelled_state_pitch.
Proof. exact state_pitch_as_modelled. Qed.
Print Assumptions C09_state_as_modelled.
