(* C02 - Import builds a spine tree that mirrors the text cell for cell.  Property theorems only.
   The theorems hold for every oracle [bad] about the recogniser and every text / list of rows. *)
From Coq Require Import List String Ascii Bool.
From KV Require Import Strings Token Importer ImporterProofs.
Import ListNotations.

(* one stage per non-empty line (after the root stage) and one node per tab-separated cell,
   a single node for a global-comment line: for EVERY text on which the import succeeds *)
Theorem C02_stage_per_line_node_per_cell : forall bad text d, loads bad text = IOk d ->
  List.length (d_stages d) = S (List.length (filter nonempty (rows_of_text text))) /\
  stage_lengths d = 1 :: map cell_count (filter nonempty (rows_of_text text)).
Proof. exact loads_stage_count. Qed.
Print Assumptions C02_stage_per_line_node_per_cell.

Theorem C02_rows : forall bad rows s, run_rows bad init_state rows = IOk s ->
  stage_lengths (i_doc s) = 1 :: map cell_count (filter nonempty rows).
Proof. exact stages_mirror_rows. Qed.
Print Assumptions C02_rows.

(* a cell beyond the live spine paths is rejected (the step raises), whatever the cell is *)
Theorem C02_surplus_cell_rejected : forall bad row s icol col prev,
  i_prev s = Some prev -> List.length prev <= icol -> startswith "**" col = false ->
  forall r, step_cell bad row s icol col <> IOk r.
Proof. exact surplus_cell_rejected. Qed.
Print Assumptions C02_surplus_cell_rejected.

(* every imported document is a tree whose node ids are creation order: a parent precedes its children, every
   node is listed in the children of exactly its parent, the root has no parent *)
From KV Require Import TreeProofs.
Theorem C02_tree : forall bad text d, loads bad text = IOk d -> tree_ok d.
Proof. exact loads_tree_ok. Qed.
Print Assumptions C02_tree.

(* what one cell does (creation spec of add_node): the new node gets the next id, the given parent / header /
   last spine operator, and no existing node changes its identity, stage, token, parent or header *)
Theorem C02_add_node : forall d st p t lo sg h d' id, tree_ok d -> p < List.length (d_nodes d) ->
  add_node d st p t lo sg h = IOk (d', id) ->
  id = List.length (d_nodes d) /\ List.length (d_nodes d') = S id /\ tree_ok d' /\
  n_parent (get_node d' id) = Some p /\ n_tok (get_node d' id) = Some t /\ n_header (get_node d' id) = h /\
  n_stage (get_node d' id) = st /\ n_lastop (get_node d' id) = lo /\
  (forall i, i < id -> core (get_node d' i) = core (get_node d i) /\ n_header (get_node d' i) = n_header (get_node d i)).
Proof. exact add_node_spec. Qed.
Print Assumptions C02_add_node.

(* headers: a node that has a header points to a HeaderToken node created no later than itself and either is that
   header or inherits it from its parent, so every cell of a spine path carries the header of its column *)
Theorem C02_headers : forall bad text d, loads bad text = IOk d -> hdr_ok d.
Proof. exact loads_headers. Qed.
Print Assumptions C02_headers.
