(* C14 - The read-only API is pure and history-independent.  Property theorems only.
   The first theorem is the obligation generated from the current source: no store site reachable from the
   read-only API writes to a shared object (syntactic may-alias classification, see DESIGN.md C14 - partial).
   The frame theorems are statements about the functional model; they hold by construction and are tied to kernpy
   by the history correspondence run. *)
From Coq Require Import List String Ascii Bool.
From KV Require Import Strings Token Importer Exporter Queries Purity EffectsGen PurityProofs.

Theorem C14_no_shared_store : forallb ss_fresh readonly_store_sites = true.
Proof. exact no_shared_store. Qed.
Print Assumptions C14_no_shared_store.

Theorem C14_analysis_not_vacuous : 20 <= List.length readonly_store_sites /\ 100 <= readonly_functions_analysed.
Proof. exact analysis_not_empty. Qed.
Print Assumptions C14_analysis_not_vacuous.

Theorem C14_history_frame : forall h w, fst (run w h) = w /\ snd (run w h) = map (eval w) h.
Proof. exact history_frame. Qed.
Print Assumptions C14_history_frame.

Theorem C14_two_imports_indistinguishable : forall bad text d1 d2 h,
  loads bad text = IOk d1 -> loads bad text = IOk d2 -> snd (run d1 h) = snd (run d2 h).
Proof. exact two_imports_indistinguishable. Qed.
Print Assumptions C14_two_imports_indistinguishable.

(* obligation regenerated from the source on every run: the code this property runs through keeps exactly the state the
   model knows (no new attribute, class-level table, module-level binding or caching decorator), see proofs/State*Proofs.v *)
From KV Require Import StateGen StateBase StateExportProofs StateTokensProofs StateDocumentProofs.
Theorem C14_state_as_modelled : state_export = modelled_state_export /\ state_tokens = modelled_state_tokens /\ state_document = modelled_state_document.
Proof. exact (conj state_export_as_modelled (conj state_tokens_as_modelled state_document_as_modelled)). Qed.
Print Assumptions C14_state_as_modelled.
