(* Extraction of the executable model.  Only ExtrOcamlBasic: Z, positive, nat, ascii and
   string stay the extracted inductive types; no Extract Constant / Extract Inductive of ours. *)
Require Extraction.
Require Import ExtrOcamlBasic.
From KV Require Import Run.
Extraction "modelrun_core.ml" Run.run_cmd.
