(* modelrun commands for M3 (gkern) *)
From Coq Require Import List String Ascii Bool ZArith.
From KV Require Import Strings Pitch PitchSpec Gkern GkernProofs.
Import ListNotations.
Open Scope string_scope.

Definition run_gkern (cmd : string) (args : list string) : option string :=
  if String.eqb cmd "gkern" then
    (* [pitch name; octave; clef encoding] -> class | text *)
    match args with
    | [name; o; clef] =>
      match parse_Z o with
      | Some o' =>
        Some (match create_clef clef with
              | None => "err:clef"
              | Some cls =>
                match mk_pitch name o' with
                | None => "err:pitch"
                | Some p => match pitch_to_gkern_text p cls with
                            | Some g => "ok:" ++ cls ++ "|" ++ g
                            | None => "err:raise" end
                end
              end)
      | None => Some "err:args"
      end
    | _ => Some "err:args"
    end
  else if String.eqb cmd "gkern_spec" then
    (* [letter 0..6; alteration; octave; clef class] -> the G2 spelling of the same staff position *)
    match args with
    | [l; a; o; cls] =>
      match parse_Z l, parse_Z a, parse_Z o, bottom_params cls with
      | Some l', Some a', Some o', Some (i, ob) => Some ("ok:" ++ spell_dia (dia l' o' - dia i ob + dia 2 4) a')
      | _, _, _, _ => Some "err:args"
      end
    | _ => Some "err:args"
    end
  else if String.eqb cmd "gkern_pos" then
    match args with
    | [s] => Some (match gkern_to_g_clef_pitch s with Some g => "ok:" ++ g | None => "err:raise" end)
    | _ => Some "err:args"
    end
  else if String.eqb cmd "create_clef" then
    match args with
    | [e] => Some (match create_clef e with Some c => "ok:" ++ c | None => "err:raise" end)
    | _ => Some "err:args"
    end
  else None.
