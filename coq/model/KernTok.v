(* M6 - CKL: a deterministic scanner + listener for the core sub-language of the kern token grammar
   (kern/kernSpineParser.g4 + base_antlr_spine_parser_listener.py).  Outside CKL the answer is KOut
   (no claim).  The single-character signifier tables below are checked exhaustively against the real
   ANTLR pipeline by the correspondence run (every character x every slot, every ordered pair). *)
From Coq Require Import List String Ascii Bool ZArith.
From KV Require Import Strings CatGen Cat Token.
Import ListNotations.
Open Scope string_scope.

Inductive kres := KTok (t : token) | KOut.

Definition chars := list ascii.
Definition str (l : chars) : string := string_of_chars l.

Fixpoint take_while (p : ascii -> bool) (l : chars) : chars * chars :=
  match l with
  | [] => ([], [])
  | c :: r => if p c then let '(a, b) := take_while p r in (c :: a, b) else ([], l)
  end.

Definition in_chars (s : string) (c : ascii) : bool := contains_char c s.

(* note signifiers that stand alone (never combine with a neighbour) *)
Definition note_deco_chars : string := "ijklmstwJKLMNOSTVXZ""$'()/:;[\]^_`{}~".
Definition is_note_deco (c : ascii) : bool := in_chars note_deco_chars c.
(* rest signifiers that stand alone *)
Definition rest_deco_chars : string := "X'();{}".
Definition is_rest_deco (c : ascii) : bool := in_chars rest_deco_chars c.
(* accidental display suffixes *)
Definition is_display (c : ascii) : bool := in_chars "xXiIjZyY" c.
Definition is_pitch_letter (c : ascii) : bool := in_chars "abcdefgABCDEFG" c.

(* number: digit+ *)
Definition scan_number (l : chars) : option (chars * chars) :=
  match take_while is_digit l with ([], _) => None | (d, r) => Some (d, r) end.

(* duration: number ('%' number)? '.'* (qq | q | p | P)?  ->  duration sub-token texts
   (character tests are written with Ascii.eqb rather than literal patterns: same function, simpler proofs) *)
Definition scan_duration (l : chars) : option (list string * chars) :=
  match scan_number l with
  | None => None
  | Some (d, r) =>
    let modern : option (chars * chars) :=
      match r with
      | c :: r1 => if Ascii.eqb c "%"
                   then match scan_number r1 with Some (d2, r2) => Some ((d ++ c :: d2)%list, r2) | None => None end
                   else Some (d, r)
      | [] => Some (d, r)
      end in
    match modern with
    | None => None
    | Some (m, r3) =>
      let '(dots, r4) := take_while (Ascii.eqb ".") r3 in
      let base := str m :: map (fun _ => ".") dots in
      match r4 with
      | c1 :: r5 =>
        if Ascii.eqb c1 "q" then
          match r5 with
          | c2 :: r6 => if Ascii.eqb c2 "q" then Some ((base ++ ["qq"])%list, r6) else Some ((base ++ ["q"])%list, r5)
          | [] => Some ((base ++ ["q"])%list, r5)
          end
        else if Ascii.eqb c1 "p" then Some ((base ++ ["p"])%list, r5)
        else if Ascii.eqb c1 "P" then Some ((base ++ ["P"])%list, r5)
        else Some (base, r4)
      | [] => Some (base, r4)
      end
    end
  end.

(* accidental: #{1,3} | -{1,3} | n, then an optional display suffix (yy / YY may be doubled) *)
Definition scan_acc_core (l : chars) : option (chars * chars) :=
  match l with
  | c :: r =>
    if Ascii.eqb c "#" then let '(a, r') := take_while (Ascii.eqb "#") l in
                            if Nat.leb (List.length a) 3 then Some (a, r') else None
    else if Ascii.eqb c "-" then let '(a, r') := take_while (Ascii.eqb "-") l in
                                 if Nat.leb (List.length a) 3 then Some (a, r') else None
    else if Ascii.eqb c "n" then Some ([c], r)
    else Some ([], l)
  | [] => Some ([], l)
  end.

Definition scan_acc_display (a r : chars) : chars * chars :=
  match r with
  | c :: r2 =>
    if is_display c then
      if Ascii.eqb c "y" || Ascii.eqb c "Y" then
        match r2 with
        | c2 :: r3 => if Ascii.eqb c2 c then ((a ++ [c; c2])%list, r3) else ((a ++ [c])%list, r2)
        | [] => ((a ++ [c])%list, r2)
        end
      else ((a ++ [c])%list, r2)
    else (a, r)
  | [] => (a, r)
  end.

Definition scan_accidental (l : chars) : option (chars * chars) :=
  match scan_acc_core l with
  | None => None
  | Some ([], r) => Some ([], r)
  | Some (a, r) => Some (scan_acc_display a r)
  end.

(* listener state carried through a chord: shared decoration list, last duration sub-tokens *)
Record lstate := { ls_deco : list subtoken; ls_dur : list subtoken }.

Fixpoint add_decos (acc : list subtoken) (l : chars) : list subtoken :=
  match l with
  | [] => acc
  | c :: r =>
    let e := String c "" in
    add_decos (if existsb (fun s => String.eqb (st_enc s) e) acc then acc
               else (acc ++ [{| st_enc := e; st_cat := DECORATION |}])%list) r
  end.

Definition mk_durs (l : list string) : list subtoken := map (fun e => {| st_enc := e; st_cat := DURATION |}) l.

(* one note: D* duration? D* pitch D* accidental? D*.  Returns the text consumed, the new listener state,
   the pitch/duration sub-tokens and the rest of the input. *)
(* the part of a note after its pitch letters: D* accidental? D* *)
Definition scan_note_tail (st : lstate) (d1 dtext d2 pitch : chars) (durs : option (list string)) (r4 : chars)
  : option (chars * lstate * list subtoken * chars) :=
  let '(d3, r5) := take_while is_note_deco r4 in
  match scan_accidental r5 with
  | None => None
  | Some (acc, r6) =>
    let '(d4, r7) := take_while is_note_deco r6 in
    let deco := add_decos (add_decos (add_decos (add_decos (ls_deco st) d1) d2) d3) d4 in
    let dur' := match durs with Some ds => mk_durs ds | None => ls_dur st end in
    let pd := (dur' ++ [{| st_enc := str pitch; st_cat := PITCH |}]
               ++ match acc with [] => [] | _ => [{| st_enc := str acc; st_cat := ALTERATION |}] end)%list in
    Some ((d1 ++ dtext ++ d2 ++ pitch ++ d3 ++ acc ++ d4)%list, {| ls_deco := deco; ls_dur := dur' |}, pd, r7)
  end.

Definition scan_note (st : lstate) (l : chars) : option (chars * lstate * list subtoken * chars) :=
  let '(d1, r1) := take_while is_note_deco l in
  let starts_digit := match r1 with c :: _ => is_digit c | [] => false end in
  let dur := scan_duration r1 in
  match dur, starts_digit with
  | None, true => None                     (* digits that do not form a duration: outside CKL *)
  | _, _ =>
    let '(durs, r2) := match dur with Some (ds, r) => (Some ds, r) | None => (None, r1) end in
    let dtext : chars := match durs with Some ds => chars_of_string (String.concat "" ds) | None => [] end in
    let '(d2, r3) := take_while is_note_deco r2 in
    match r3 with
    | [] => None
    | p :: _ =>
      if negb (is_pitch_letter p) then None else
      let '(pitch, r4) := take_while (Ascii.eqb p) r3 in
      let bad := match r4 with q :: _ => is_pitch_letter q | [] => false end in
      if bad then None else                (* two different pitch letters: a chord without space, outside CKL *)
      scan_note_tail st d1 dtext d2 pitch durs r4
    end
  end.

(* the rest letter: r or rr (character tests with Ascii.eqb: same function as literal patterns, simpler proofs) *)
Definition scan_rest_letter (r2 : chars) : option (chars * chars) :=
  match r2 with
  | c0 :: r3 =>
    if Ascii.eqb c0 "r" then
      match r3 with
      | c1 :: x => if Ascii.eqb c1 "r" then Some (["r"; "r"]%char, x) else Some (["r"%char], r3)
      | [] => Some (["r"%char], r3)
      end
    else None
  | [] => None
  end.

(* one rest: R* duration? r r? R* *)
Definition scan_rest (st : lstate) (l : chars) : option (chars * lstate * list subtoken * chars) :=
  let '(d1, r1) := take_while is_rest_deco l in
  let '(durs, r2) := match scan_duration r1 with
                     | Some (ds, r) => (Some ds, r)
                     | None => (None, r1) end in
  let started_digit := match r1 with c :: _ => is_digit c | [] => false end in
  match durs with
  | None => if started_digit then None else
    match scan_rest_letter r2 with
    | Some (rr, r4) =>
      let '(d2, r5) := take_while is_rest_deco r4 in
      let deco := add_decos (add_decos (ls_deco st) d1) d2 in
      Some ((d1 ++ rr ++ d2)%list, {| ls_deco := deco; ls_dur := ls_dur st |},
            (ls_dur st ++ [{| st_enc := "r"; st_cat := REST |}])%list, r5)
    | None => None
    end
  | Some ds =>
    match scan_rest_letter r2 with
    | Some (rr, r4) =>
      let '(d2, r5) := take_while is_rest_deco r4 in
      let deco := add_decos (add_decos (ls_deco st) d1) d2 in
      let dur := mk_durs ds in
      Some ((d1 ++ chars_of_string (String.concat "" ds) ++ rr ++ d2)%list, {| ls_deco := deco; ls_dur := dur |},
            (dur ++ [{| st_enc := "r"; st_cat := REST |}])%list, r5)
    | None => None
    end
  end.

Definition scan_note_or_rest (st : lstate) (l : chars) : option (chars * lstate * list subtoken * chars) :=
  match scan_note st l with
  | Some r => Some r
  | None => scan_rest st l
  end.

(* notes / rests separated by exactly one space; (text, pd) per element *)
Fixpoint scan_elements (fuel : nat) (st : lstate) (l : chars) : option (list (chars * list subtoken) * lstate) :=
  match fuel with
  | O => None
  | S f =>
    match scan_note_or_rest st l with
    | None => None
    | Some (text, st', pd, rest) =>
      match rest with
      | [] => Some ([(text, pd)], st')
      | " "%char :: rest' =>
        match scan_elements f st' rest' with
        | Some (more, st'') => Some ((text, pd) :: more, st'')
        | None => None
        end
      | _ => None
      end
    end
  end.

Definition scan_notes (s : string) : kres :=
  let l := chars_of_string s in
  match scan_elements (S (List.length l)) {| ls_deco := []; ls_dur := [] |} l with
  | None => KOut
  | Some (els, st) =>
    let mk := fun '(text, pd) => {| nr_enc := str text; nr_pd := pd; nr_deco := ls_deco st |} in
    match els with
    | [e] => KTok (TNoteRest (mk e))
    | _ => KTok (TChord s (map mk els))
    end
  end.

(* ------------------------------------------------------------------ barlines *)
Definition barline_types : list string :=
  ["||"; "|!:"; "|!"; "|:"; "!|:"; "=:|!"; ":|!|:"; ":||:"; ":|!"; ":!:"; ":!!:"; "="].

Definition scan_barline (s : string) : kres :=
  match chars_of_string s with
  | "="%char :: r0 =>
    let '(eq2, r1) := match r0 with "="%char :: x => (true, x) | _ => (false, r0) end in
    let '(_, r2) := take_while is_digit r1 in
    let r3 := match r2 with "a"%char :: x => x | _ => r2 end in
    let r4 := match r3 with "b"%char :: x => x | _ => r3 end in
    let r5 := match r4 with "-"%char :: x => x | _ => r4 end in
    let body := str r5 in
    let '(ty, ferm) := if endswith ";" body then (take (String.length body - 1) body, ";") else (body, "") in
    if String.eqb ty "" || mem_str ty barline_types
    then KTok (TBar ((if eq2 then "==" else "=") ++ ty ++ ferm) (contains_char "-" s))
    else KOut
  | _ => KOut
  end.

(* ------------------------------------------------------------------ interpretations *)
Fixpoint strip_prefix (p : string) (l : chars) : option chars :=
  match p, l with
  | EmptyString, _ => Some l
  | String a p', b :: l' => if Ascii.eqb a b then strip_prefix p' l' else None
  | _, [] => None
  end.

Definition all_digits_nonempty (l : chars) : bool :=
  match l with [] => false | _ => forallb is_digit l end.

Definition simple (s : string) (c : cat) (cls : string) : kres := KTok (TSimple s c cls).

Definition scan_clef (s : string) (l : chars) : kres :=   (* after "*clef" *)
  match l with
  | sign :: r =>
    if in_chars "CFGPT" sign then
      let r1 := match r with
                | "v"%char :: "v"%char :: x => x | "v"%char :: x => x
                | "^"%char :: "^"%char :: x => x | "^"%char :: x => x
                | _ => r end in
      match r1 with
      | [] => simple s CLEF "ClefToken"
      | [d] => if in_chars "12345" d then simple s CLEF "ClefToken" else KOut
      | _ => KOut
      end
    else KOut
  | [] => KOut
  end.

(* (lowerCasePitch accidental)* "]" "X"? *)
Fixpoint scan_keysig_body (fuel : nat) (l : chars) : bool :=
  match fuel with
  | O => false
  | S f =>
    match l with
    | ["]"%char] => true
    | ["]"%char; "X"%char] => true
    | p :: r =>
      if in_chars "abcdefg" p then
        match r with
        | "n"%char :: r' => scan_keysig_body f r'
        | "#"%char :: _ => let '(a, r') := take_while (Ascii.eqb "#") r in
                           Nat.leb (List.length a) 3 && scan_keysig_body f r'
        | "-"%char :: _ => let '(a, r') := take_while (Ascii.eqb "-") r in
                           Nat.leb (List.length a) 3 && scan_keysig_body f r'
        | _ => false
        end
      else false
    | [] => false
    end
  end.

Definition modes : list string := ["dor"; "phr"; "lyd"; "mix"; "aeo"; "ion"; "loc"].

(* key designation: letter accidental? ":" mode?   (after "*") *)
Definition scan_key (l : chars) : bool :=
  match l with
  | p :: r =>
    if in_chars "abcdefgABCDEFG" p then
      let r1 := match r with
                | "n"%char :: x => Some x
                | "#"%char :: _ => let '(a, x) := take_while (Ascii.eqb "#") r in if Nat.leb (List.length a) 3 then Some x else None
                | "-"%char :: _ => let '(a, x) := take_while (Ascii.eqb "-") r in if Nat.leb (List.length a) 3 then Some x else None
                | _ => Some r end in
      match r1 with
      | Some (":"%char :: m) => match m with [] => true | _ => mem_str (str m) modes end
      | _ => false
      end
    else false
  | [] => false
  end.

Definition engraved_words : list string :=
  ["*above"; "*below"; "*centered"; "*cue"; "*Xcue"; "*tremolo"; "*Xtremolo"; "*ped"; "*Xped"; "*ela";
   "*tuplet"; "*Xtuplet"; "*tstart"; "*tend"].
Definition other_words : list string := ["*solo"; "*accomp"; "*strophe"; "*lh"; "*rh"].
Definition octave_shift_words : list string := ["*8va"; "*X8va"; "*8ba"; "*X8ba"].

Definition scan_interpretation (s : string) : kres :=
  let l := chars_of_string s in
  if String.eqb s "*" then simple s EMPTY "SimpleToken"
  else if mem_str s engraved_words then simple s ENGRAVED_SYMBOLS "SimpleToken"
  else if mem_str s other_words then simple s OTHER "SimpleToken"
  else if mem_str s octave_shift_words then simple s OTHER_CONTEXTUAL "SimpleToken"
  else if String.eqb s "*kcancel" then simple s KEY_SIGNATURE "KeySignatureToken"
  else match strip_prefix "*clef" l with
  | Some r => scan_clef s r
  | None =>
  match strip_prefix "*k[" l with
  | Some r => if scan_keysig_body (S (List.length r)) r then simple s KEY_SIGNATURE "KeySignatureToken" else KOut
  | None =>
  match strip_prefix "*met(" l with
  | Some r => if mem_str (str r) ["c)"; "c|)"] then simple s METER_SYMBOL "MeterSymbolToken" else KOut
  | None =>
  match strip_prefix "*staff" l with
  | Some r => if all_digits_nonempty r then simple s STRUCTURAL "SimpleToken" else KOut
  | None =>
  match strip_prefix "*MM" l with
  | Some r => if all_digits_nonempty r then simple s OTHER_CONTEXTUAL "SimpleToken" else KOut
  | None =>
  match strip_prefix "*M" l with
  | Some r =>
    match scan_number r with
    | Some (_, "/"%char :: r1) => if all_digits_nonempty r1 then simple s TIME_SIGNATURE "TimeSignatureToken" else KOut
    | _ => KOut
    end
  | None =>
  match strip_prefix "*tb" l with
  | Some r => if all_digits_nonempty r then simple s OTHER "SimpleToken" else KOut
  | None =>
  match strip_prefix "*part" l with
  | Some r => if all_digits_nonempty r then simple s OTHER "SimpleToken" else KOut
  | None =>
  match strip_prefix "*group" l with
  | Some r => if all_digits_nonempty r then simple s OTHER "SimpleToken" else KOut
  | None =>
  match strip_prefix "*I" l with
  | Some r =>
    (* INSTRUMENT: star I, an optional double quote, then at least one character that is not a tab or line end *)
    let r' := match r with """"%char :: x => x | _ => r end in
    match r' with
    | [] => KOut
    | _ => if forallb (fun c => negb (in_chars (String (ascii_of_nat 9) (String (ascii_of_nat 10) (String (ascii_of_nat 13) ""))) c)) r'
           then simple s OTHER "SimpleToken" else KOut
    end
  | None =>
  match strip_prefix "*" l with
  | Some r => if scan_key r then simple s OTHER_CONTEXTUAL "SimpleToken" else KOut
  | None => KOut
  end end end end end end end end end end end.

(* ------------------------------------------------------------------ the recogniser on CKL *)
Definition kern_recognise (s : string) : kres :=
  match s with
  | EmptyString => KOut
  | String c _ =>
    if String.eqb s "." then simple s EMPTY "SimpleToken"
    else if Ascii.eqb c "*" then scan_interpretation s
    else if Ascii.eqb c "=" then scan_barline s
    else scan_notes s
  end.
