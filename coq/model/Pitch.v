(* M2 - pitch_models.py / transposer.py
   AgnosticPitch = (name, octave); name like "C", "D+", "E--".
   Python exceptions are modelled by [None]. *)
From Coq Require Import List String Ascii Bool ZArith Lia.
From KV Require Import Strings PitchGen IntervalGen.
Import ListNotations.
Open Scope string_scope.
Open Scope Z_scope.

Record apitch := { ap_name : string; ap_octave : Z }.

Definition is_pm (c : ascii) : bool := Ascii.eqb c "+" || Ascii.eqb c "-".
Definition is_sharp_flat (c : ascii) : bool := Ascii.eqb c "#" || Ascii.eqb c "-".

(* AgnosticPitch.name setter: returns the stored name or None (ValueError) *)
Definition set_name (name : string) : option string :=
  let accidentals := filter_string is_pm name in
  let name1 := upper name in
  let name2 := replace "b" "-" (replace "#" "+" name1) in
  let check := remove_char "-" (remove_char "+" name2) in
  if negb (mem_str check pitches) then None
  else if Nat.ltb 3 (String.length accidentals) then None
  else Some name2.

Definition mk_pitch (name : string) (octave : Z) : option apitch :=
  match set_name name with Some n => Some {| ap_name := n; ap_octave := octave |} | None => None end.

(* get_chroma: KeyError -> None *)
Definition get_chroma (p : apitch) : option Z :=
  match assoc_str (ap_name p) chromas with
  | Some c => Some (chroma_base * ap_octave p + c)
  | None => None
  end.

(* ChromasByValue = {v: k for k, v in Chromas.items()} : later keys win *)
Fixpoint by_value_aux (v : Z) (l : list (string * Z)) (acc : option string) : option string :=
  match l with
  | [] => acc
  | (k, v') :: l' => by_value_aux v l' (if Z.eqb v v' then Some k else acc)
  end.
Definition chroma_by_value (v : Z) : option string := by_value_aux v chromas None.

Inductive direction := Up | Down.
Definition direction_value (d : direction) : string := match d with Up => "up" | Down => "down" end.
Definition opp_direction (d : direction) := match d with Up => Down | Down => Up end.

(* AgnosticPitch.to_transposed *)
Definition to_transposed (p : apitch) (raw_interval : Z) (d : direction) : option apitch :=
  let delta := match d with Up => raw_interval | Down => - raw_interval end in
  match get_chroma p with
  | None => None
  | Some c0 =>
    let chroma := c0 + delta in
    match chroma_by_value (chroma mod chroma_base) with
    | None => None
    | Some name => mk_pitch name (chroma / chroma_base)
    end
  end.

(* AgnosticPitch.accidentals() *)
Definition accidentals (p : apitch) : string :=
  map_string (fun c => if Ascii.eqb c "+" then "#"%char else c) (filter_string is_pm (ap_name p)).

(* HumdrumPitchImporter._parse_pitch + AgnosticPitch(name, octave) *)
Definition parse_pitch (encoding : string) : option (string * Z) :=
  let acc := map_string (fun c => if Ascii.eqb c "#" then "+"%char else c) (filter_string is_sharp_flat encoding) in
  let enc := remove_char "-" (remove_char "#" encoding) in
  match enc with
  | EmptyString => None                                       (* IndexError *)
  | String c0 _ =>
    let pitch := String (to_lower c0) "" in
    let len := Z.of_nat (String.length enc) in
    if is_lower c0 then Some (pitch ++ acc, imp_c4_octave + (len - 1))
    else if is_upper c0 then Some (pitch ++ acc, imp_c3_octave - (len - 1))
    else None                                                  (* octave None -> ValueError in the setter *)
  end.

Definition import_pitch (encoding : string) : option apitch :=
  match parse_pitch encoding with
  | Some (name, octave) => mk_pitch name octave
  | None => None
  end.

(* HumdrumPitchExporter.export_pitch as a state transformer: (text, pitch afterwards). *)
Definition export_pitch (p : apitch) : string * apitch :=
  let acc := map_string (fun c => if Ascii.eqb c "+" then "#"%char else c) (filter_string is_pm (ap_name p)) in
  let acc_out := match acc with
                 | EmptyString => ""
                 | String a0 _ => repeat_char a0 (String.length acc)
                 end in
  let name := remove_char "-" (remove_char "+" (ap_name p)) in
  let text :=
    if Z.geb (ap_octave p) exp_c4_octave
    then repeat_string (lower name) (Z.to_nat (ap_octave p - exp_c4_octave + 1)) ++ acc_out
    else repeat_string (upper name) (Z.to_nat (exp_c3_octave - ap_octave p + 1)) ++ acc_out in
  (text, p).   (* the pitch object is left as it was (F2) *)

(* transposer.transpose(enc, interval, 'kern', 'kern', direction) *)
Definition transpose (encoding : string) (interval : Z) (d : direction) : option string :=
  match import_pitch encoding with
  | None => None
  | Some p =>
    match to_transposed p interval d with
    | None => None
    | Some q => Some (fst (export_pitch q))
    end
  end.

(* IntervalsByName[name] *)
Fixpoint interval_by_name_aux (n : string) (l : list (Z * string)) (acc : option Z) : option Z :=
  match l with
  | [] => acc
  | (k, v) :: l' => interval_by_name_aux n l' (if String.eqb n v then Some k else acc)
  end.
Definition interval_by_name (n : string) : option Z := interval_by_name_aux n intervals None.

(* AVAILABLE_INTERVALS = sorted(IntervalsByName.keys()) *)
Fixpoint dedup_str (l : list string) : list string :=
  match l with [] => [] | x :: l' => if mem_str x l' then dedup_str l' else x :: dedup_str l' end.
Definition available_intervals : list string :=
  stable_sort string_leb (dedup_str (map snd intervals)).

(* agnostic_distance *)
Definition count_char (c : ascii) (s : string) : Z := Z.of_nat (String.length (filter_string (Ascii.eqb c) s)).
Definition semitone_index (p : apitch) : option Z :=
  let letter := remove_char "-" (remove_char "+" (ap_name p)) in
  match assoc_str letter letter_to_semitones with
  | None => None
  | Some base => Some (ap_octave p * 12 + base + (count_char "+" (ap_name p) - count_char "-" (ap_name p)))
  end.
