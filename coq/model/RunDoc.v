(* modelrun commands at document level: import (tree dump), dumps, queries, spine_types, concat, transposed *)
From Coq Require Import List String Ascii Bool ZArith.
From KV Require Import Strings CatGen Cat EncGen Token Tokenizers KernTok Importer Exporter Queries Api RunCat RunTok.
Import ListNotations.
Open Scope string_scope.

Definition c6 : string := String (ascii_of_nat 6) "".
Definition c7 : string := String (ascii_of_nat 7) "".

Definition bad_arg (s : string) : list string := if String.eqb s "" then [] else split_str c1 s.

Fixpoint index_of (x : nat) (l : list nat) (i : nat) : nat :=
  match l with [] => i | y :: r => if Nat.eqb x y then i else index_of x r (S i) end.

(* address of a node: stage.position *)
Definition addr (d : doc) (id : nat) : string :=
  let nd := get_node d id in
  string_of_nat (n_stage nd) ++ "." ++ string_of_nat (index_of id (nth (n_stage nd) (d_stages d) []) 0).
Definition addr_opt (d : doc) (o : option nat) : string := match o with Some id => addr d id | None => "-" end.

Definition show_node (d : doc) (id : nat) : string :=
  let nd := get_node d id in
  join c4 [ match n_tok nd with Some t => show_token t | None => "ROOT" end;
            addr_opt d (n_parent nd); addr_opt d (n_header nd); addr_opt d (n_lastop nd);
            join "," (map (fun kv => fst kv ++ "=" ++ addr d (snd kv)) (n_sigs nd));
            join "," (map (addr d) (n_children nd));
            match cancelled_at d id with Some st => string_of_nat st | None => "-" end ].

(* show_token uses c1..c5 internally; nodes are separated by c6, stages by c7 *)
Definition show_tree (d : doc) : string :=
  join c7 (map (fun ids => join c6 (map (show_node d) ids)) (d_stages d)).

Definition show_doc (d : doc) : string :=
  "mst=" ++ join "," (map string_of_nat (d_mst d)) ++ ";hs=" ++ match d_header_stage d with Some s => string_of_nat s | None => "-" end
  ++ ";errors=" ++ join "," (map (fun id => addr d id ++ "@" ++ match node_tok d id with Some (TError _ ln) => string_of_nat ln | _ => "?" end) (d_errors d))
  ++ String (ascii_of_nat 8) "" ++ show_tree d.

Definition parse_nats (s : string) : option (list nat) :=
  fold_right (fun x acc => match parse_Z x, acc with Some z, Some l => Some (Z.to_nat z :: l) | _, _ => None end) (Some [])
             (split_char "," s).

(* options: types c1 cats c1 from c1 to c1 encoding c1 ids ; "-" = default *)
Definition parse_opts (s : string) : option opts :=
  match split_str c1 s with
  | [ty; cs; fr; to; ev; ids] =>
    let types := if String.eqb ty "-" then Some headers else if String.eqb ty "" then Some [] else Some (split_char "," ty) in
    let from := if String.eqb fr "-" then Some None else match parse_Z fr with Some z => Some (Some z) | None => None end in
    let to' := if String.eqb to "-" then Some None else match parse_Z to with Some z => Some (Some z) | None => None end in
    let enc := if String.eqb ev "-" then Some E_normalizedKern else encoding_of_value ev in
    let ids' := if String.eqb ids "-" then Some None else if String.eqb ids "" then Some (Some [])
                else match parse_nats ids with Some l => Some (Some l) | None => None end in
    match types, cats_arg cs, from, to', enc, ids' with
    | Some t, Some c, Some f, Some t2, Some e, Some i =>
      Some {| o_types := t; o_cats := c; o_from := f; o_to := t2; o_enc := e; o_ids := i |}
    | _, _, _, _, _, _ => None
    end
  | _ => None
  end.

(* include / exclude -> token_categories as parse_options_to_ExportOptions does *)
Definition cats_of_include_exclude (inc exc : string) : option (list cat) :=
  match parse_catset inc, parse_catset exc with
  | Some i, Some e => Some (valid i e)
  | _, _ => None
  end.

Definition with_doc (bad text : string) (file_mode : bool) (k : doc -> string) : string :=
  match (if file_mode then load_file else loads) (bad_arg bad) text with
  | IOk d => k d
  | IErr e => "raise:" ++ e
  | IOut => "out"
  end.

Definition show_tokens (l : list token) : string := join c2 (map tok_enc l).

Definition run_doc (cmd : string) (args : list string) : option string :=
  if String.eqb cmd "import" then
    match args with
    | [bad; text] => Some (with_doc bad text false (fun d => "ok:" ++ show_doc d))
    | _ => Some "err:args"
    end
  else if String.eqb cmd "import_file" then
    match args with
    | [bad; text] => Some (with_doc bad text true (fun d => "ok:" ++ show_doc d))
    | _ => Some "err:args"
    end
  else if String.eqb cmd "dumps" then
    (* [bad; text; options; include; exclude]  (include/exclude "-" -> omitted) *)
    match args with
    | [bad; text; os; inc; exc] =>
      match parse_opts os, cats_of_include_exclude inc exc with
      | Some o, Some cats =>
        let o' := {| o_types := o_types o; o_cats := cats; o_from := o_from o; o_to := o_to o; o_enc := o_enc o; o_ids := o_ids o |} in
        Some (with_doc bad text false (fun d => show_res (dumps d o')))
      | _, _ => Some "err:args"
      end
    | _ => Some "err:args"
    end
  else if String.eqb cmd "spine_types" then
    match args with
    | [bad; text; ty] =>
      let types := if String.eqb ty "-" then None else if String.eqb ty "" then Some [] else Some (split_char "," ty) in
      Some (with_doc bad text false (fun d => match get_spine_types d types with
                                              | Ok l => "ok:" ++ join (String (ascii_of_nat 9) "") l | Err e => "err:" ++ e end))
    | _ => Some "err:args"
    end
  else if String.eqb cmd "queries" then
    (* [bad; text; categories or "-"; metacomment key or "-"] *)
    match args with
    | [bad; text; cs; key] =>
      match parse_catset cs with
      | None => Some "err:args"
      | Some f =>
        Some (with_doc bad text false (fun d =>
          "ok:" ++ join c1 [
            show_tokens (get_all_tokens d f);
            show_tokens (get_unique_tokens d f);
            join c2 (map (fun e => fst e ++ c3 ++ string_of_nat (fst (snd e)) ++ c3 ++ cat_name (snd (snd e))) (frequencies d f));
            join c2 (get_metacomments d (if String.eqb key "-" then None else Some key) false);
            join "," (map string_of_nat (get_spine_ids d));
            match is_monophonic d with Ok true => "True" | Ok false => "False" | Err e => "err:" ++ e end;
            match measures_count d with Ok m => string_of_nat m | Err e => "err:" ++ e end ]))
      end
    | _ => Some "err:args"
    end
  else if String.eqb cmd "concat" then
    (* [bad; separator; fragments joined by c1] *)
    match args with
    | [bad; sep; fr] =>
      Some (match concat (bad_arg bad) (split_str c1 fr) sep with
            | IOk (d, idx) => "ok:" ++ join ";" (map (fun p => string_of_nat (fst p) ++ "," ++ string_of_nat (snd p)) idx)
                              ++ c1 ++ show_res (dumps d default_opts)
            | IErr e => "raise:" ++ e
            | IOut => "out" end)
    | _ => Some "err:args"
    end
  else if String.eqb cmd "transposed" then
    (* [bad; text; interval; direction] -> ekern export of the result and of the source afterwards *)
    match args with
    | [bad; text; iv; dir] =>
      let o := {| o_types := headers; o_cats := all_cats; o_from := None; o_to := None; o_enc := E_eKern; o_ids := None |} in
      Some (with_doc bad text false (fun d =>
        match to_transposed d iv dir with
        | Err e => "err:" ++ e
        | Ok (r, src) => "ok:" ++ show_res (dumps r o) ++ c1 ++ show_res (dumps src o)
        end))
    | _ => Some "err:args"
    end
  else if String.eqb cmd "kern_from_ekern" then
    match args with
    | [s] => Some ("ok:" ++ get_kern_from_ekern s)
    | _ => Some "err:args"
    end
  else None.
