(* modelrun commands for M1 (category algebra) *)
From Coq Require Import List String Ascii Bool ZArith.
From KV Require Import Strings CatGen Cat.
Import ListNotations.
Open Scope string_scope.

Definition cat_of_name (s : string) : option cat := find (fun c => String.eqb (cat_name c) s) all_cats.

Fixpoint cats_of_names (l : list string) : option (list cat) :=
  match l with
  | [] => Some []
  | x :: r => match cat_of_name x, cats_of_names r with Some c, Some cs => Some (c :: cs) | _, _ => None end
  end.

(* "-" = argument omitted (None); "" = empty collection; otherwise comma separated names *)
Definition parse_catset (s : string) : option (option (list cat)) :=
  if String.eqb s "-" then Some None
  else if String.eqb s "" then Some (Some [])
  else match cats_of_names (split_char "," s) with Some l => Some (Some l) | None => None end.

Definition bits (f : cat -> bool) : string :=
  string_of_chars (map (fun c => if f c then "1"%char else "0"%char) all_cats).
Definition show_set (l : list cat) : string := bits (fun c => mem c l).

(* all subsets of size <= 2 of the categories, in a fixed order: {} , {a}, {a,b} a<b *)
Fixpoint pairs_from (l : list cat) : list (list cat) :=
  match l with [] => [] | x :: r => map (fun y => [x; y]) r ++ pairs_from r end.
Definition small_sets : list (list cat) := [[]] ++ map (fun c => [c]) all_cats ++ pairs_from all_cats.

Definition run_cat (cmd : string) (args : list string) : option string :=
  if String.eqb cmd "cat_row" then
    match args with
    | [n] => match cat_of_name n with
             | Some c => Some ("ok:" ++ show_set (children c) ++ "|" ++ show_set (nodes c) ++ "|" ++ show_set (leaves c)
                               ++ "|" ++ bits (fun d => is_child c d))
             | None => Some "err:args" end
    | _ => Some "err:args"
    end
  else if String.eqb cmd "cat_all" then Some ("ok:" ++ show_set all_nodes ++ "|" ++ join "," (map cat_name all_cats))
  else if String.eqb cmd "cat_valid" then
    match args with
    | [i; e] => match parse_catset i, parse_catset e with
                | Some i', Some e' => Some ("ok:" ++ show_set (valid i' e') ++ "|" ++ bits (fun c => matches c i' e'))
                | _, _ => Some "err:args" end
    | _ => Some "err:args"
    end
  else if String.eqb cmd "cat_valid_row" then
    (* one include set against every exclude set of size <= 2 *)
    match args with
    | [i] => match parse_catset i with
             | Some i' => Some ("ok:" ++ join "," (map (fun e => show_set (valid i' (Some e))) small_sets))
             | None => Some "err:args" end
    | _ => Some "err:args"
    end
  else if String.eqb cmd "cat_small_sets" then
    Some ("ok:" ++ join ";" (map (fun s => join "," (map cat_name s)) small_sets))
  else None.
