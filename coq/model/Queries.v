(* M11 - Document queries (document.py) and the public helpers built on them (io/public.py). *)
From Coq Require Import List String Ascii Bool ZArith.
From KV Require Import Strings CatGen Cat Token Importer Exporter.
Import ListNotations.
Open Scope string_scope.

(* Node.dfs_iterative: pop, visit, push the children reversed  =  preorder, children left to right *)
Fixpoint dfs (fuel : nat) (d : doc) (stack : list nat) : list nat :=
  match fuel with
  | O => []
  | S f => match stack with
           | [] => []
           | id :: rest => id :: dfs f d (n_children (get_node d id) ++ rest)%list
           end
  end.
Definition dfs_order (d : doc) : list nat := dfs (S (List.length (d_nodes d))) d [0].

Definition node_tokens (d : doc) (ids : list nat) : list token :=
  flat_map (fun id => match node_tok d id with Some t => [t] | None => [] end) ids.

(* TokensTraversal(non_repeated = false, valid(include = filter)) *)
Definition get_all_tokens (d : doc) (filter_cats : option (list cat)) : list token :=
  let cats := valid filter_cats None in
  filter (fun t => mem (tok_cat t) cats) (node_tokens d (dfs_order d)).

(* TokensTraversal(non_repeated = true, ...): first occurrence of every encoding *)
Fixpoint first_occurrences (seen : list string) (l : list token) : list token :=
  match l with
  | [] => []
  | t :: r => if mem_str (tok_enc t) seen then first_occurrences seen r
              else t :: first_occurrences (tok_enc t :: seen) r
  end.
Definition get_unique_tokens (d : doc) (filter_cats : option (list cat)) : list token :=
  first_occurrences [] (get_all_tokens d filter_cats).

(* frequencies: encoding -> (occurrences, category of the first token), insertion ordered *)
Fixpoint freq_add (e : string) (c : cat) (l : list (string * (nat * cat))) : list (string * (nat * cat)) :=
  match l with
  | [] => [(e, (1, c))]
  | (e', (n, c')) :: r => if String.eqb e e' then (e', (S n, c')) :: r else (e', (n, c')) :: freq_add e c r
  end.
Definition frequencies (d : doc) (filter_cats : option (list cat)) : list (string * (nat * cat)) :=
  fold_left (fun acc t => freq_add (tok_enc t) (tok_cat t) acc) (get_all_tokens d filter_cats) [].

(* get_metacomments(KeyComment, clear) *)
Definition get_metacomments (d : doc) (key : option string) (clear : bool) : list string :=
  let metas := filter (fun t => String.eqb (tok_class t) "MetacommentToken") (node_tokens d (dfs_order d)) in
  flat_map (fun t =>
    match key with
    | None => [if clear then replace "!!!None: " "" (tok_enc t) else tok_enc t]
    | Some k => if startswith ("!!!" ++ k) (tok_enc t)
                then [if clear then replace ("!!!" ++ k ++ ": ") "" (tok_enc t) else tok_enc t] else []
    end) metas.

Definition get_spine_ids (d : doc) : list nat :=
  flat_map (fun t => match t with THeader _ sp => [sp] | _ => [] end) (get_all_tokens d None).

Definition measures_count (d : doc) : res nat :=
  match d_mst d with [] => Err "Exception" | l => Ok (List.length l) end.
Definition iter_measures (d : doc) : res (list nat) :=
  match measures_count d with Ok m => Ok (seq 1 m) | Err e => Err e end.

Definition is_monophonic (d : doc) : res bool :=
  match get_spine_types d (Some ["**kern"]) with
  | Err e => Err e
  | Ok kerns =>
    Ok (Nat.eqb (List.length kerns) 1
        && Nat.eqb (List.length (get_all_tokens d (Some [CHORD]))) 0
        && negb (Nat.eqb (List.length (get_all_tokens d (Some [NOTE_REST]))) 0))
  end.
