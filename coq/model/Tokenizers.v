(* M5 - tokenizers.py: the six tokenizers, the factory, Encoding.prefix, HeaderTokenGenerator.new *)
From Coq Require Import List String Ascii Bool ZArith.
From KV Require Import Strings CatGen Cat EncGen Pitch Gkern Token.
Import ListNotations.
Open Scope string_scope.

Definition keep_of (cats : list cat) : cat -> bool := fun c => mem c cats.

Definition ekern_tokenize (cats : list cat) (t : token) : res string := export_token (keep_of cats) None t.

Definition map_res {A B} (f : A -> B) (r : res A) : res B := match r with Ok a => Ok (f a) | Err e => Err e end.

Definition strip_separators (s : string) : string := replace decoration_separator "" (replace token_separator "" s).
Definition strip_token_separator (s : string) : string := replace token_separator "" s.

Definition kern_tokenize (cats : list cat) (t : token) : res string := map_res strip_separators (ekern_tokenize cats t).

(* one note of the ekern text without its decorations *)
Definition reduce_note (note : string) : string :=
  let r := match split_str decoration_separator note with x :: _ => x | [] => "" end in
  if endswith token_separator r then take (String.length r - 1) r else r.

Definition bekern_of_ekern (ekern : string) : string :=
  if negb (contains_str decoration_separator ekern) then ekern
  else join " " (map reduce_note (split_char " " ekern)).

Definition bekern_tokenize (cats : list cat) (t : token) : res string := map_res bekern_of_ekern (ekern_tokenize cats t).
Definition bkern_tokenize (cats : list cat) (t : token) : res string := map_res strip_token_separator (bekern_tokenize cats t).

(* the pitch callback of AEKernTokenizer; [clef] is the encoding of the last ClefToken, if any *)
Definition agnostic_callback (clef : option string) (pitch_text : string) : res string :=
  match clef with
  | None => Err "ValueError"
  | Some ce =>
    match create_clef ce with
    | None => Err "ValueError"
    | Some cls =>
      match import_pitch pitch_text with
      | None => Err "ValueError"
      | Some p => match pitch_to_gkern_text p cls with Some g => Ok g | None => Err "ValueError" end
      end
    end
  end.

(* ClefFactory.create_clef(self.last_clef) runs before the export, also for tokens without a pitch *)
Definition aekern_tokenize (cats : list cat) (clef : option string) (t : token) : res string :=
  match clef with
  | Some ce => match create_clef ce with
               | None => Err "ValueError"
               | Some _ => export_token (keep_of cats) (Some (agnostic_callback clef)) t
               end
  | None => export_token (keep_of cats) (Some (agnostic_callback None)) t
  end.
Definition akern_tokenize (cats : list cat) (clef : option string) (t : token) : res string :=
  map_res strip_separators (aekern_tokenize cats clef t).

Fixpoint assoc_enc {A} (e : encoding) (l : list (encoding * A)) : option A :=
  match l with [] => None | (k, v) :: r => if encoding_beq e k then Some v else assoc_enc e r end.

(* TokenizerFactory.create(...).tokenize(token) *)
Definition tokenize (e : encoding) (cats : list cat) (clef : option string) (t : token) : res string :=
  match assoc_enc e factory_table with
  | None => Err "ValueError"
  | Some cls =>
    if String.eqb cls "KernTokenizer" then kern_tokenize cats t
    else if String.eqb cls "EkernTokenizer" then ekern_tokenize cats t
    else if String.eqb cls "BkernTokenizer" then bkern_tokenize cats t
    else if String.eqb cls "BekernTokenizer" then bekern_tokenize cats t
    else if String.eqb cls "AKernTokenizer" then akern_tokenize cats clef t
    else if String.eqb cls "AEKernTokenizer" then aekern_tokenize cats clef t
    else Err "ValueError"
  end.

Definition encoding_prefix (e : encoding) : option string := assoc_enc e prefix_table.

(* HeaderTokenGenerator.new *)
Definition header_for (e : encoding) (t : token) : res token :=
  match t with
  | THeader enc sp => match encoding_prefix e with
                      | Some p => Ok (THeader ("**" ++ p ++ drop 2 enc) sp)
                      | None => Err "ValueError" end
  | _ => Ok t
  end.
