(* M10 - Exporter.export_string and friends (kernpy/core/exporter.py) over the tree of M9. *)
From Coq Require Import List String Ascii Bool ZArith.
From KV Require Import Strings CatGen Cat EncGen OptGen Token Tokenizers KernTok Importer.
Import ListNotations.
Open Scope string_scope.

Record opts := {
  o_types : list string;            (* spine_types *)
  o_cats : list cat;                (* token_categories *)
  o_from : option Z; o_to : option Z;
  o_enc : encoding;
  o_ids : option (list nat) }.

Definition default_opts : opts :=
  {| o_types := headers; o_cats := all_cats; o_from := None; o_to := None; o_enc := E_normalizedKern; o_ids := None |}.

Definition mem_nat (n : nat) (l : list nat) : bool := existsb (Nat.eqb n) l.

Definition node_tok (d : doc) (id : nat) : option token := n_tok (get_node d id).
Definition node_class (d : doc) (id : nat) : string :=
  match node_tok d id with Some t => tok_class t | None => "" end.

(* Exporter.export_token *)
Definition export_node (d : doc) (o : opts) (id : nat) : res string :=
  match node_tok d id with
  | None => Err "AttributeError"
  | Some t =>
    match header_for (o_enc o) t with
    | Err e => Err e
    | Ok t' =>
      let clef := match assoc_str "ClefToken" (n_sigs (get_node d id)) with
                  | Some cid => match node_tok d cid with Some ct => Some (tok_enc ct) | None => None end
                  | None => None end in
      tokenize (o_enc o) (o_cats o) clef t'
    end
  end.

(* compute_header_type: (encoding, spine id) of the header governing a node *)
Definition header_type (d : doc) (id : nat) : option (string * nat) :=
  match node_tok d id with
  | Some (THeader e sp) => Some (e, sp)
  | _ => match n_header (get_node d id) with
         | Some hid => match node_tok d hid with Some (THeader e sp) => Some (e, sp) | _ => None end
         | None => None end
  end.

Definition spine_selected (o : opts) (h : option (string * nat)) : bool :=
  match h with
  | None => false
  | Some (e, sp) => mem_str e (o_types o) && match o_ids o with None => true | Some ids => mem_nat sp ids end
  end.

(* _retrieve_empty_token *)
Definition placeholder (t : token) : string := if is_child SIGNATURES (tok_cat t) then "*" else ".".

(* append_row: None = the node's spine is filtered out; Some cell otherwise *)
Definition append_row (d : doc) (o : opts) (id : nat) : res (option string) :=
  if negb (spine_selected o (header_type d id)) then Ok None
  else match node_tok d id with
  | None => Err "AttributeError"
  | Some t =>
    if negb (negb (tok_hidden t) && (is_complex t || mem (tok_cat t) (o_cats o))) then Ok (Some (placeholder t))
    else match export_node d o id with
         | Err e => Err e
         | Ok s => Ok (Some (if String.eqb s "" then placeholder t else s))
         end
  end.

Fixpoint row_of_stage (d : doc) (o : opts) (ids : list nat) : res (list string) :=
  match ids with
  | [] => Ok []
  | id :: r =>
    match append_row d o id with
    | Err e => Err e
    | Ok c => match row_of_stage d o r with
              | Err e => Err e
              | Ok cells => Ok (match c with Some x => x :: cells | None => cells end)
              end
    end
  end.

Definition all_nullish (row : list string) : bool := forallb (fun c => mem_str c nullish_tokens) row.
Definition empty_row (row : list string) : bool := forallb (fun c => mem_str c empty_row_tokens) row.

Fixpoint main_rows (d : doc) (o : opts) (stage : nat) (count : nat) : res (list (list string)) :=
  match count with
  | O => Ok []
  | S k =>
    match row_of_stage d o (nth stage (d_stages d) []) with
    | Err e => Err e
    | Ok row =>
      match main_rows d o (S stage) k with
      | Err e => Err e
      | Ok rows => Ok (match row with [] => rows | _ => if all_nullish row then rows else row :: rows end)
      end
    end
  end.

(* is_signature_cancelled (None counts as False) *)
Fixpoint sig_cancelled (fuel : nat) (d : doc) (sig_cls : string) (id : nat) (from_stage to_stage : nat) : bool :=
  if String.eqb (node_class d id) sig_cls then true
  else if String.eqb (node_class d id) "NoteRestToken" then false
  else match fuel with
       | O => false
       | S f => if Nat.ltb from_stage to_stage
                then existsb (fun c => sig_cancelled f d sig_cls c (S from_stage) to_stage) (n_children (get_node d id))
                else false
       end.

(* one step of the upward walk that rebuilds the header / spine-operator preamble *)
Definition preamble_row (d : doc) (o : opts) (from_stage : nat) (ids : list nat) : res (list string * bool) :=
  let spine_op_row := existsb (fun id => String.eqb (node_class d id) "SpineOperationToken") ids in
  fold_left (fun (acc : res (list string * bool)) id =>
    match acc with
    | Err e => Err e
    | Ok (row, nonph) =>
      let is_hdr := match node_tok d id with Some (THeader e _) => mem_str e (o_types o) | _ => false end in
      if is_hdr then
        match export_node d o id with Err e => Err e
        | Ok c => Ok ((if String.eqb c "" then row else row ++ [c])%list, true) end
      else if spine_op_row then
        let nd := get_node d id in
        let is_op := String.eqb (node_class d id) "SpineOperationToken" in
        let cancelled_before := match cancelled_at d id with Some st => Nat.ltb st from_stage | None => false end in
        let lastop_cancelled_here := match n_lastop nd with
                                     | Some op => match cancelled_at d op with Some st => Nat.eqb st (n_stage nd) | None => false end
                                     | None => false end in
        if is_op && (cancelled_before || lastop_cancelled_here) then Ok ((row ++ ["*"])%list, nonph)
        else match export_node d o id with Err e => Err e
             | Ok c => Ok ((if String.eqb c "" then row else row ++ [c])%list, true) end
      else Ok (row, nonph)
    end) ids (Ok ([], false)).

Fixpoint preamble_walk (fuel : nat) (d : doc) (o : opts) (from_stage : nat) (ids : list nat) (rows : list (list string))
  : res (list (list string)) :=
  match fuel with
  | O => Err "fuel"
  | S f =>
    match ids with
    | [] => Ok rows
    | first :: _ =>
      if Nat.eqb first 0 then Ok rows
      else match preamble_row d o from_stage ids with
           | Err e => Err e
           | Ok (row, nonph) =>
             (* node.parent of a non-root node always exists *)
             let parents := map (fun id => match n_parent (get_node d id) with Some p => p | None => 0 end) ids in
             preamble_walk f d o from_stage parents (if nonph then row :: rows else rows)
           end
    end
  end.

Definition signature_rows (d : doc) (o : opts) (from_stage to_stage : nat) : res (list (list string)) :=
  let per_node := fun id =>
    fold_left (fun (acc : res (list string)) (kv : string * nat) =>
      match acc with
      | Err e => Err e
      | Ok l =>
        let sid := snd kv in
        if sig_cancelled (S (to_stage - from_stage)) d (node_class d sid) id from_stage to_stage then Ok l
        else match export_node d o sid with Err e => Err e | Ok c => Ok (l ++ [c])%list end
      end) (n_sigs (get_node d id)) (Ok []) in
  let cols : res (list (list string)) :=
    fold_left (fun (acc : res (list (list string))) id =>
      match acc with
      | Err e => Err e
      | Ok cs =>
        match per_node id with
        | Err e => Err e
        | Ok [] => Ok cs
        | Ok l => match cs with
                  | [] => Ok [l]
                  | c0 :: _ => if Nat.eqb (List.length c0) (List.length l) then Ok (cs ++ [l])%list
                               else Err "Exception:signature-mismatch"
                  end
        end
      end) (nth from_stage (d_stages d) []) (Ok []) in
  match cols with
  | Err e => Err e
  | Ok [] => Ok []
  | Ok (c0 :: cs) =>
    Ok (map (fun irow => map (fun col => nth irow col "") (c0 :: cs)) (seq 0 (List.length c0)))
  end.

Definition count_str (x : string) (l : list string) : nat := List.length (filter (String.eqb x) l).

Definition nth_z {A} (l : list A) (i : Z) : option A :=      (* python list indexing, negative indices included *)
  let n := Z.of_nat (List.length l) in
  let j := if (i <? 0)%Z then (n + i)%Z else i in
  if ((j <? 0) || (n <=? j))%Z then None else nth_error l (Z.to_nat j).

(* the synthetic terminator row appended to an excerpt (to_measure given) whose last row does not start with '*-' *)
Definition add_terminator (has_to : bool) (rows : list (list string)) : option (list (list string)) :=
  match has_to, rev rows with
  | true, last :: _ =>
    match last with
    | [] => None                                  (* rows[-1][0] -> IndexError; cannot happen: rows are non-empty *)
    | c0 :: _ =>
      if String.eqb c0 "*-" then Some rows
      else let n := List.length last + count_str "*^" last - count_str "*v" last in
           Some (rows ++ [repeat "*-" n])%list
    end
  | _, _ => Some rows
  end.

(* everything export_string collects before the terminator row *)
Definition export_body (d : doc) (o : opts) : res (list (list string)) :=
  let m := Z.of_nat (List.length (d_mst d)) in
  (* export_options_validator *)
  if match o_from o with Some f => (f <? 0)%Z | None => false end then Err "ValueError"
  else if match o_to o with Some t => (m <? t)%Z | None => false end then Err "ValueError"
  else if match o_from o, o_to o with Some f, Some t => (t <? f)%Z | _, _ => false end then Err "ValueError"
  else
  let last_stage := List.length (d_stages d) - 1 in
  let to_stage_r : res nat :=
    match o_to o with
    | Some t => if (t <? m)%Z then match nth_z (d_mst d) t with Some s => Ok s | None => Err "IndexError" end
                else Ok last_stage
    | None => Ok last_stage
    end in
  match to_stage_r with
  | Err e => Err e
  | Ok to_stage =>
    let from_truthy := match o_from o with Some f => negb (f =? 0)%Z | None => false end in
    let pre : res (nat * list (list string)) :=
      if from_truthy then
        match o_from o with
        | Some f =>
          match nth_z (d_mst d) (f - 1) with
          | None => Err "IndexError"
          | Some from_stage =>
            match preamble_walk (S (S from_stage)) d o from_stage (nth from_stage (d_stages d) []) [] with
            | Err e => Err e
            | Ok rows1 =>
              match signature_rows d o from_stage to_stage with
              | Err e => Err e
              | Ok rows2 => Ok (from_stage, (rows1 ++ rows2)%list)
              end
            end
          end
        | None => Ok (0, [])
        end
      else Ok (0, []) in
    match pre with
    | Err e => Err e
    | Ok (from_stage, rows0) =>
      match main_rows d o from_stage (S to_stage - from_stage) with
      | Err e => Err e
      | Ok rows1 => Ok (rows0 ++ rows1)%list
      end
    end
  end.

Definition export_rows (d : doc) (o : opts) : res (list (list string)) :=
  match export_body d o with
  | Err e => Err e
  | Ok rows => match add_terminator (match o_to o with Some _ => true | None => false end) rows with
               | None => Err "IndexError"
               | Some r => Ok r
               end
  end.

Definition tab : string := String (ascii_of_nat 9) "".
Definition nl : string := String (ascii_of_nat 10) "".

Definition render_rows (rows : list (list string)) : string :=
  String.concat "" (map (fun r => join tab r ++ nl) (filter (fun r => negb (empty_row r)) rows)).

Definition dumps (d : doc) (o : opts) : res string :=
  match export_rows d o with Ok rows => Ok (render_rows rows) | Err e => Err e end.

(* Exporter.get_spine_types *)
Definition get_spine_types (d : doc) (types : option (list string)) : res (list string) :=
  match types with
  | Some [] => Ok []
  | _ =>
    let o := {| o_types := match types with Some t => t | None => headers end; o_cats := [HEADER];
                o_from := None; o_to := None; o_enc := E_normalizedKern; o_ids := None |} in
    match dumps d o with
    | Err e => Err e
    | Ok content =>
      match split_char (ascii_of_nat 10) content with
      | first :: _ => let toks := split_char (ascii_of_nat 9) first in
                      Ok (match toks with [] => [] | [""] => [] | _ => toks end)
      | [] => Ok []
      end
    end
  end.

(* get_kern_from_ekern *)
Definition get_kern_from_ekern (s : string) : string :=
  let s1 := fold_left (fun acc h => replace ("**e" ++ drop 2 h) h acc) headers s in
  replace decoration_separator "" (replace token_separator "" s1).
