(* M4 - token classes of kernpy/core/tokens.py and their export(). *)
From Coq Require Import List String Ascii Bool ZArith.
From KV Require Import Strings CatGen Cat.
Import ListNotations.
Open Scope string_scope.

Record subtoken := { st_enc : string; st_cat : cat }.

(* NoteRestToken *)
Record noterest := { nr_enc : string; nr_pd : list subtoken; nr_deco : list subtoken }.

(* [cls] is the python class name: it keys last_signature_nodes and decides isinstance tests *)
Inductive token :=
| TSimple (enc : string) (c : cat) (cls : string)       (* SimpleToken and its subclasses whose export is the encoding *)
| TBar (enc : string) (hidden : bool)                    (* BarToken *)
| THeader (enc : string) (spine : nat)                   (* HeaderToken *)
| TError (enc : string) (line : nat)                     (* ErrorToken *)
| TNoteRest (n : noterest)                               (* NoteRestToken (the only ComplexToken in use) *)
| TChord (enc : string) (notes : list noterest).         (* ChordToken, a SimpleToken *)

Definition tok_enc (t : token) : string :=
  match t with
  | TSimple e _ _ | TBar e _ | THeader e _ | TError e _ | TChord e _ => e
  | TNoteRest n => nr_enc n
  end.
Definition tok_cat (t : token) : cat :=
  match t with
  | TSimple _ c _ => c
  | TBar _ _ => BARLINES
  | THeader _ _ => HEADER
  | TError _ _ => ERROR
  | TNoteRest _ => NOTE_REST
  | TChord _ _ => CHORD
  end.
Definition tok_hidden (t : token) : bool := match t with TBar _ h => h | _ => false end.
Definition tok_class (t : token) : string :=
  match t with
  | TSimple _ _ cls => cls
  | TBar _ _ => "BarToken"
  | THeader _ _ => "HeaderToken"
  | TError _ _ => "ErrorToken"
  | TNoteRest _ => "NoteRestToken"
  | TChord _ _ => "ChordToken"
  end.
Definition is_complex (t : token) : bool := match t with TNoteRest _ => true | _ => false end.
Definition signature_classes : list string :=
  ["SignatureToken"; "ClefToken"; "TimeSignatureToken"; "MeterSymbolToken"; "KeySignatureToken"; "KeyToken"].
Definition is_signature_token (t : token) : bool := mem_str (tok_class t) signature_classes.
Definition is_spine_op_token (t : token) : bool := String.eqb (tok_class t) "SpineOperationToken".

(* sorted(key = category value): stable *)
Definition sub_cat_leb (a b : subtoken) : bool := Z.leb (cat_value (st_cat a)) (cat_value (st_cat b)).
(* sorted(key = (category value, encoding)) *)
Definition sub_full_leb (a b : subtoken) : bool :=
  let va := cat_value (st_cat a) in let vb := cat_value (st_cat b) in
  if Z.ltb va vb then true else if Z.ltb vb va then false else string_leb (st_enc a) (st_enc b).

Definition is_pitch_or_alteration (s : subtoken) : bool :=
  match st_cat s with PITCH | ALTERATION => true | _ => false end.
Definition is_duration (s : subtoken) : bool := match st_cat s with DURATION => true | _ => false end.

Inductive res (A : Type) := Ok (a : A) | Err (e : string).
Arguments Ok {A}. Arguments Err {A}.

(* NoteRestToken.export(filter_categories=keep, convert_pitch_to_agnostic=conv) *)
Definition export_noterest (keep : cat -> bool) (conv : option (string -> res string)) (n : noterest) : res string :=
  let pd := stable_sort sub_cat_leb (filter (fun s => keep (st_cat s)) (nr_pd n)) in
  let deco := stable_sort sub_full_leb (filter (fun s => keep (st_cat s)) (nr_deco n)) in
  let agnostic : res (option string) :=
    match conv with
    | None => Ok None
    | Some f =>
      match filter is_pitch_or_alteration pd with
      | [] => Ok None
      | ps => match f (String.concat "" (map st_enc ps)) with Ok g => Ok (Some g) | Err e => Err e end
      end
    end in
  match agnostic with
  | Err e => Err e
  | Ok ag =>
    let pd_part :=
      match ag with
      | Some g =>
        let durs := map st_enc (filter is_duration pd) in
        match durs with
        | [] => g
        | _ => let dp := join token_separator durs in
               if String.eqb dp "" then g else dp ++ token_separator ++ g
        end
      | None => join token_separator (map st_enc pd)
      end in
    let deco_part := join decoration_separator (map st_enc deco) in
    let content := if String.eqb deco_part "" then pd_part else pd_part ++ decoration_separator ++ deco_part in
    Ok (if String.eqb content "" then empty_token else content)
  end.

(* ChordToken.export: notes joined by one space (no separator before an empty first part) *)
Fixpoint export_chord_notes (keep : cat -> bool) (conv : option (string -> res string)) (acc : string)
         (l : list noterest) : res string :=
  match l with
  | [] => Ok acc
  | n :: r =>
    match export_noterest keep conv n with
    | Err e => Err e
    | Ok s => export_chord_notes keep conv ((if String.eqb acc "" then acc else acc ++ " ") ++ s) r
    end
  end.

Definition export_token (keep : cat -> bool) (conv : option (string -> res string)) (t : token) : res string :=
  match t with
  | TNoteRest n => export_noterest keep conv n
  | TChord _ notes => export_chord_notes keep conv "" notes
  | _ => Ok (tok_enc t)
  end.
