(* Command dispatcher of the executable model: bin/modelrun calls [run_cmd] and nothing else.
   All formatting of results is done here, in Gallina, so the OCaml glue stays trivial. *)
From Coq Require Import List String Ascii Bool ZArith.
From KV Require Import Strings PitchGen IntervalGen Pitch PitchSpec RunCat RunGkern RunSpine RunTok RunDoc.
Import ListNotations.
Open Scope string_scope.

Definition sep : string := "|".
Definition ok (s : string) : string := "ok:" ++ s.
Definition err (s : string) : string := "err:" ++ s.

Definition parse_dir (s : string) : option direction :=
  if String.eqb s "up" then Some Up else if String.eqb s "down" then Some Down else None.

Definition show_pitch (p : apitch) : string := ap_name p ++ sep ++ string_of_Z (ap_octave p).

Definition run_pitch (cmd : string) (args : list string) : option string :=
  if String.eqb cmd "transpose" then
    match args with
    | [enc; k; d] =>
      match parse_Z k, parse_dir d with
      | Some k', Some d' => Some (match transpose enc k' d' with Some t => ok t | None => err "raise" end)
      | _, _ => Some (err "args")
      end
    | _ => Some (err "args")
    end
  else if String.eqb cmd "to_transposed" then
    match args with
    | [name; o; k; d] =>
      match parse_Z o, parse_Z k, parse_dir d with
      | Some o', Some k', Some d' =>
        Some (match mk_pitch name o' with
              | None => err "raise"
              | Some p => match to_transposed p k' d' with Some q => ok (show_pitch q) | None => err "raise" end
              end)
      | _, _, _ => Some (err "args")
      end
    | _ => Some (err "args")
    end
  else if String.eqb cmd "pitch_import" then
    match args with
    | [enc] => Some (match import_pitch enc with Some p => ok (show_pitch p) | None => err "raise" end)
    | _ => Some (err "args")
    end
  else if String.eqb cmd "pitch_export2" then
    match args with
    | [name; o] =>
      match parse_Z o with
      | Some o' =>
        Some (match mk_pitch name o' with
              | None => err "raise"
              | Some p => let '(t1, p1) := export_pitch p in let '(t2, p2) := export_pitch p1 in
                          ok (t1 ++ sep ++ t2 ++ sep ++ show_pitch p2)
              end)
      | None => Some (err "args")
      end
    | _ => Some (err "args")
    end
  else if String.eqb cmd "spec_transpose" then
    (* [letter 0..6; alteration; octave; interval name; direction] -> expected Humdrum spelling *)
    match args with
    | [l; a; o; n; d] =>
      match parse_Z l, parse_Z a, parse_Z o, parse_dir d, interval_spec n with
      | Some l', Some a', Some o', Some d', Some (dsz, ssz) =>
        let r := spec_transpose l' a' o' dsz ssz d' in
        Some (if spellable r then ok (spell (sr_letter r) (sr_alt r) (sr_octave r)) else "unspellable")
      | _, _, _, _, _ => Some (err "args")
      end
    | _ => Some (err "args")
    end
  else if String.eqb cmd "spell" then
    match args with
    | [l; a; o] =>
      match parse_Z l, parse_Z a, parse_Z o with
      | Some l', Some a', Some o' => Some (ok (spell l' a' o' ++ sep ++ spec_name l' a'))
      | _, _, _ => Some (err "args")
      end
    | _ => Some (err "args")
    end
  else if String.eqb cmd "available_intervals" then
    Some (ok (join "," available_intervals))
  else if String.eqb cmd "interval_by_name" then
    match args with
    | [n] => Some (match interval_by_name n with Some k => ok (string_of_Z k) | None => err "raise" end)
    | _ => Some (err "args")
    end
  else None.

Definition run_cmd (cmd : string) (args : list string) : string :=
  match run_pitch cmd args with
  | Some r => r
  | None =>
  match run_cat cmd args with
  | Some r => r
  | None =>
  match run_gkern cmd args with
  | Some r => r
  | None =>
  match run_spine cmd args with
  | Some r => r
  | None =>
  match run_tok cmd args with
  | Some r => r
  | None =>
  match run_doc cmd args with
  | Some r => r
  | None => err "unknown-command"
  end end end end end end.
