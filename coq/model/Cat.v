(* M1 - TokenCategoryHierarchyMapper (kernpy/core/tokens.py), function by function.
   Python sets are modelled as lists (order = dict insertion order); every observation
   is canonicalised (sorted by enum value) before it is compared with the implementation. *)
From Coq Require Import List String ZArith Bool.
From KV Require Import CatGen.
Import ListNotations.
Open Scope list_scope.

Definition ct_cat (t : ctree) : cat := match t with CT c _ => c end.
Definition ct_sub (t : ctree) : list ctree := match t with CT _ s => s end.

Definition mem (c : cat) (l : list cat) : bool := existsb (cat_beq c) l.

(* `parent in tree` / `tree[parent]` on one dictionary level *)
Fixpoint lookup (p : cat) (tr : list ctree) : option (list ctree) :=
  match tr with
  | [] => None
  | CT c ch :: r => if cat_beq c p then Some ch else lookup p r
  end.

(* _find_subtree: look at this level first, then depth-first in dictionary order *)
Fixpoint find_in (p : cat) (t : ctree) {struct t} : option (list ctree) :=
  match t with
  | CT _ ch =>
    match lookup p ch with
    | Some s => Some s
    | None =>
      (fix first (l : list ctree) : option (list ctree) :=
         match l with
         | [] => None
         | x :: r => match find_in p x with Some s => Some s | None => first r end
         end) ch
    end
  end.

Definition find_subtree (tree : list ctree) (p : cat) : option (list ctree) :=
  find_in p (CT ROOT tree).   (* the label of the artificial top node is never inspected *)

(* _nodes: keys of this level, then (update) the nodes of every child *)
Fixpoint nodes_t (t : ctree) : list cat :=
  match t with
  | CT _ ch => map ct_cat ch ++ (fix go (l : list ctree) := match l with [] => [] | x :: r => nodes_t x ++ go r end) ch
  end.
Definition nodes_of (tree : list ctree) : list cat := nodes_t (CT ROOT tree).

Definition all_nodes : list cat := nodes_of hierarchy.                       (* all() *)

Definition nodes (p : cat) : list cat :=                                      (* nodes(parent) *)
  match find_subtree hierarchy p with Some s => nodes_of s | None => [] end.

Definition children (p : cat) : list cat :=                                   (* children(parent) *)
  match find_subtree hierarchy p with Some s => map ct_cat s | None => [] end.

(* _leaves *)
Fixpoint leaves_t (t : ctree) : list cat :=
  match t with
  | CT _ ch =>
    map ct_cat (filter (fun x => match ct_sub x with [] => true | _ => false end) ch)
    ++ (fix go (l : list ctree) := match l with [] => [] | x :: r => leaves_t x ++ go r end) ch
  end.
(* leaves(target): _leaves(None) would raise in python; every category is in the tree, so
   the None branch is answered with the empty list and the theorem excludes it *)
Definition leaves (p : cat) : list cat :=
  match find_subtree hierarchy p with Some s => leaves_t (CT ROOT s) | None => [] end.

(* _is_child(parent, child, tree): fuel = nesting depth still available *)
Fixpoint is_child_rec (fuel : nat) (tree : list ctree) (parent child : cat) : bool :=
  match fuel with
  | O => false
  | S n =>
    match find_subtree tree parent with
    | None => false
    | Some [] => false
    | Some sub => existsb (fun d => cat_beq (ct_cat d) child || is_child_rec n sub (ct_cat d) child) sub
    end
  end.

Definition is_child (parent child : cat) : bool :=
  if cat_beq parent child then true else is_child_rec 40 hierarchy parent child.

(* valid(include, exclude); None = argument omitted *)
Definition closure1 (c : cat) : list cat := nodes c ++ [c].
Definition closure (l : list cat) : list cat := flat_map closure1 l.

Definition valid (inc exc : option (list cat)) : list cat :=
  let i := match inc with None => all_nodes | Some l => l end in
  let e := match exc with None => [] | Some l => l end in
  let included := closure i in
  let excluded := closure e in
  filter (fun c => negb (mem c excluded)) included.

Definition matches (c : cat) (inc exc : option (list cat)) : bool :=
  let target := closure1 c in
  let v := valid inc exc in
  existsb (fun x => mem x v) target.

(* canonical observation of a set: members of all_cats (enum order) that are in l *)
Definition canon (l : list cat) : list cat := filter (fun c => mem c l) all_cats.
