(* Specification side of C09 / C16 / C10: letter + semitone arithmetic and Humdrum spelling,
   written without reference to the base-40 tables or to kernpy's code. *)
From Coq Require Import List String Ascii Bool ZArith Lia.
From KV Require Import Strings Pitch.
Import ListNotations.
Open Scope string_scope.
Open Scope Z_scope.

(* ------------------------------------------------------------------ *)
(* Independent letter/semitone specification (no base-40 table)       *)
(* ------------------------------------------------------------------ *)
Definition nat_semi (l : Z) : Z :=
  match l with 0 => 0 | 1 => 2 | 2 => 4 | 3 => 5 | 4 => 7 | 5 => 9 | 6 => 11 | _ => 0 end.
Definition letter_name (l : Z) : string :=
  match l with 0 => "C" | 1 => "D" | 2 => "E" | 3 => "F" | 4 => "G" | 5 => "A" | 6 => "B" | _ => "?" end.
Definition alt_string (a : Z) : string :=
  if a >=? 0 then repeat_char "+" (Z.to_nat a) else repeat_char "-" (Z.to_nat (- a)).
Definition spec_name (l a : Z) : string := letter_name l ++ alt_string a.
Definition spec_pitch (l a o : Z) : apitch := {| ap_name := spec_name l a; ap_octave := o |}.

(* interval name -> (diatonic steps, semitones), from quality and number *)
Definition quality_offset (perfect : bool) (q : string) : option Z :=
  if perfect then
    if String.eqb q "P" then Some 0 else if String.eqb q "A" then Some 1 else if String.eqb q "AA" then Some 2
    else if String.eqb q "d" then Some (-1) else if String.eqb q "dd" then Some (-2) else None
  else
    if String.eqb q "M" then Some 0 else if String.eqb q "m" then Some (-1) else if String.eqb q "d" then Some (-2)
    else if String.eqb q "dd" then Some (-3) else if String.eqb q "A" then Some 1 else if String.eqb q "AA" then Some 2
    else None.

Definition interval_spec (name : string) : option (Z * Z) :=
  if String.eqb name "octave" then Some (7, 12) else
  let n := String.length name in
  match parse_Z (drop (n - 1) name) with
  | None => None
  | Some num =>
    if (1 <=? num) && (num <=? 7) then
      let perfect := (num =? 1) || (num =? 4) || (num =? 5) in
      match quality_offset perfect (take (n - 1) name) with
      | None => None
      | Some off => Some (num - 1, nat_semi (num - 1) + off)
      end
    else None
  end.

Definition sgn (d : direction) : Z := match d with Up => 1 | Down => -1 end.

Record spec_result := { sr_letter : Z; sr_alt : Z; sr_octave : Z }.
Definition spec_transpose (l a o dsz ssz : Z) (d : direction) : spec_result :=
  let dia := 7 * o + l + sgn d * dsz in
  let semi := 12 * o + nat_semi l + a + sgn d * ssz in
  let l' := dia mod 7 in
  let o' := dia / 7 in
  {| sr_letter := l'; sr_octave := o'; sr_alt := semi - 12 * o' - nat_semi l' |}.

Definition spellable (r : spec_result) : bool := (-2 <=? sr_alt r) && (sr_alt r <=? 2).

Definition letters_z : list Z := [0; 1; 2; 3; 4; 5; 6].
Definition alts_z : list Z := [-2; -1; 0; 1; 2].
Definition dirs : list direction := [Up; Down].

(* ---------- the spelling function (specification side) ---------- *)
Definition letter_char (l : Z) : ascii :=
  match l with 0 => "c" | 1 => "d" | 2 => "e" | 3 => "f" | 4 => "g" | 5 => "a" | 6 => "b" | _ => "?" end%char.

Definition kern_acc (a : Z) : string :=
  if a >=? 0 then repeat_char "#" (Z.to_nat a) else repeat_char "-" (Z.to_nat (- a)).

(* Humdrum spelling of letter l (0 = c), alteration a, octave o *)
Definition spell (l a o : Z) : string :=
  (if o >=? 4 then repeat_char (letter_char l) (Z.to_nat (o - 4 + 1))
   else repeat_char (to_upper (letter_char l)) (Z.to_nat (3 - o + 1))) ++ kern_acc a.

Definition alts7 : list Z := [-3; -2; -1; 0; 1; 2; 3].

