(* M7 - the spine importers (importer_factory.py, *_spine_importer.py), driven by the generated
   SpineImpGen tables.  The ANTLR recogniser is a Section variable: a deterministic function from
   the cell text to a token (Some) or a lexer/parser failure (None); nothing else is assumed. *)
From Coq Require Import List String Ascii Bool ZArith.
From KV Require Import Strings CatGen Cat SpineImpGen.
Import ListNotations.
Open Scope string_scope.

(* createImporter(spine_type) -> class name *)
Definition create_importer (h : string) : string :=
  match assoc_str h importer_dispatch with Some c => c | None => importer_default end.

(* follow `return OtherImporter().import_token(encoding)` delegations *)
Fixpoint resolve_kind (fuel : nat) (cls : string) : imp_kind :=
  match assoc_str cls importer_shapes with
  | Some (KDelegate c) => match fuel with O => KNotImplemented | S n => resolve_kind n c end
  | Some k => k
  | None => KNotImplemented
  end.
Definition kind_of_header (h : string) : imp_kind := resolve_kind 8 (create_importer h).

Section Import.
  Variable T : Type.
  Variable tcat : T -> cat.
  Variable recog : string -> option T.

  Inductive imp_result :=
  | RErr (exn : string)                 (* the call raised *)
  | RKept (t : T)                       (* the kern token itself *)
  | RSimple (s : string) (c : cat).     (* SimpleToken(encoding, category) *)

  Definition accepted_by (acc : list cat) (c : cat) : bool := existsb (fun p => is_child p c) acc.

  Definition import_kind (k : imp_kind) (s : string) : imp_result :=
    match k with
    | KNotImplemented => RErr "NotImplementedError"
    | KDelegate _ => RErr "unresolved"
    | KKern _ | KKernLike =>
      if String.eqb s "" then RErr "ValueError"
      else match recog s with Some t => RKept t | None => RErr "Exception" end
    | KWrap fe acc neg fr =>
      if String.eqb s "" then RErr "ValueError"
      else match recog s with
           | None => RSimple s fe
           | Some t =>
             let a := accepted_by acc (tcat t) in
             if (if neg then negb a else a) then RSimple s fr else RKept t
           end
    end.

  Definition import_token (h s : string) : imp_result := import_kind (kind_of_header h) s.
End Import.
Arguments RErr {T}. Arguments RKept {T}. Arguments RSimple {T}.

(* the structure every spine type shares with **kern, and each type's own category *)
Definition shared_cats : list cat := [STRUCTURAL; SIGNATURES; EMPTY; BARLINES; IMAGE_ANNOTATIONS; COMMENTS].

Definition own_cat (h : string) : cat :=
  if String.eqb h "**text" then LYRICS
  else if String.eqb h "**dynam" then DYNAMICS
  else if String.eqb h "**dyn" then DYNAMICS
  else if String.eqb h "**harm" then HARMONY
  else if String.eqb h "**mxhm" then HARMONY
  else if String.eqb h "**fing" then FINGERING
  else OTHER.

(* headers the property speaks about: everything except the three with a parser of their own *)
Definition claimed (h : string) : bool := negb (mem_str h ["**kern"; "**root"; "**mens"]).

(* ------------------------------------------------------------------ C12: one KernSpineImporter over a history.
   The recogniser answers (parse result, number of syntax errors it reported to the error listener); the importer's
   state is the number of errors its listener holds.  [fresh] = the listener is replaced at every call (generated
   flag KKern fresh). *)
Section KernHistory.
  Variable T : Type.
  Variable recog : string -> option T * nat.

  Definition kern_import (fresh : bool) (st : nat) (s : string) : imp_result T * nat :=
    if String.eqb s "" then (RErr "ValueError", st)       (* _raise_error_if_wrong_input, before anything else *)
    else
      let st0 := if fresh then 0 else st in
      let '(parsed, errs) := recog s in
      let st1 := st0 + errs in
      match parsed with
      | None => (RErr "Exception", st1)                   (* BailErrorStrategy: the parser raises *)
      | Some t => if Nat.ltb 0 st1 then (RErr "Exception", st1) else (RKept t, st1)
      end.

  Fixpoint run_history (fresh : bool) (st : nat) (h : list string) : list (imp_result T) :=
    match h with
    | [] => []
    | s :: r => let '(o, st') := kern_import fresh st s in o :: run_history fresh st' r
    end.

  Definition kern_fresh_flag : option bool :=
    match assoc_str "KernSpineImporter" importer_shapes with Some (KKern f) => Some f | _ => None end.
End KernHistory.
