(* modelrun commands for M4/M5/M6: kern token recogniser (CKL), token dump, tokenizers *)
From Coq Require Import List String Ascii Bool ZArith.
From KV Require Import Strings CatGen Cat EncGen Token Tokenizers KernTok RunCat.
Import ListNotations.
Open Scope string_scope.

Definition c1 : string := String (ascii_of_nat 1) "".   (* top-level fields *)
Definition c2 : string := String (ascii_of_nat 2) "".   (* notes of a chord *)
Definition c3 : string := String (ascii_of_nat 3) "".   (* fields of a note *)
Definition c4 : string := String (ascii_of_nat 4) "".   (* sub-tokens *)
Definition c5 : string := String (ascii_of_nat 5) "".   (* fields of a sub-token *)

Definition show_sub (s : subtoken) : string := st_enc s ++ c5 ++ cat_name (st_cat s).
Definition show_subs (l : list subtoken) : string := join c4 (map show_sub l).
Definition show_note (n : noterest) : string := nr_enc n ++ c3 ++ show_subs (nr_pd n) ++ c3 ++ show_subs (nr_deco n).

Definition show_token (t : token) : string :=
  tok_class t ++ c1 ++ cat_name (tok_cat t) ++ c1 ++ tok_enc t ++ c1 ++ (if tok_hidden t then "1" else "0") ++ c1 ++
  match t with
  | TNoteRest n => show_note n
  | TChord _ notes => join c2 (map show_note notes)
  | _ => ""
  end.

Definition encoding_of_value (v : string) : option encoding :=
  find (fun e => String.eqb (encoding_value e) v) all_encodings.

Definition cats_arg (s : string) : option (list cat) :=
  if String.eqb s "-" then Some all_cats
  else if String.eqb s "" then Some []
  else cats_of_names (split_char "," s).

Definition show_res (r : res string) : string := match r with Ok s => "ok:" ++ s | Err e => "err:" ++ e end.

Definition run_tok (cmd : string) (args : list string) : option string :=
  if String.eqb cmd "kparse" then
    match args with
    | [s] => Some (match kern_recognise s with KTok t => "tok:" ++ show_token t | KOut => "out" end)
    | _ => Some "err:args"
    end
  else if String.eqb cmd "tokenize" then
    (* [encoding value; categories; clef encoding or "-"; cell] *)
    match args with
    | [ev; cs; clef; s] =>
      match encoding_of_value ev, cats_arg cs with
      | Some e, Some cats =>
        Some (match kern_recognise s with
              | KOut => "out"
              | KTok t => show_res (tokenize e cats (if String.eqb clef "-" then None else Some clef) t)
              end)
      | _, _ => Some "err:args"
      end
    | _ => Some "err:args"
    end
  else if String.eqb cmd "deco_tables" then
    Some ("ok:" ++ note_deco_chars ++ c1 ++ rest_deco_chars)
  else None.
