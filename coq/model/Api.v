(* M12 - Generic.concat and Document.to_transposed with the sharing of nodes made explicit. *)
From Coq Require Import List String Ascii Bool ZArith.
From KV Require Import Strings CatGen Cat IntervalGen Pitch Token Importer Exporter Queries.
Import ListNotations.
Open Scope string_scope.

(* Generic.concat(contents, separator): document of the whole text, one (low, high) pair per fragment *)
Fixpoint concat_loop (bad : list string) (sep raw : string) (low : nat) (frags : list string)
         (last : option doc) (acc : list (nat * nat)) : ires (option doc * list (nat * nat)) :=
  match frags with
  | [] => IOk (last, acc)
  | f :: r =>
    let raw' := raw ++ sep ++ f in
    match loads bad raw' with
    | IErr e => IErr e | IOut => IOut
    | IOk d =>
      (* high_index = len(measure_start_tree_stages): 0 while no measure has started *)
      let high := List.length (d_mst d) in
      concat_loop bad sep raw' (S high) r (Some d) (acc ++ [(low, high)])%list
    end
  end.

Definition concat (bad : list string) (frags : list string) (sep : string) : ires (doc * list (nat * nat)) :=
  match frags with
  | [] => IErr "ValueError"
  | _ => match concat_loop bad sep "" 0 frags None [] with
         | IOk (Some d, idx) => IOk (d, idx)
         | IOk (None, _) => IErr "Exception"
         | IErr e => IErr e | IOut => IOut
         end
  end.

(* Document.to_transposed: clone() copies the tree record but SHARES the nodes, so assigning
   node.token changes the source as well: the function returns (result, source afterwards). *)
Definition transpose_noterest (k : Z) (dir : direction) (n : noterest) : option noterest :=
  let step := fun (acc : option (list subtoken * string)) (s : subtoken) =>
    match acc with
    | None => None
    | Some (l, enc) =>
      match st_cat s with
      | PITCH => match transpose (st_enc s) k dir with
                 | Some tp => Some ((l ++ [{| st_enc := tp; st_cat := PITCH |}])%list, tp)
                 | None => None end
      | _ => Some ((l ++ [s])%list, enc)
      end
    end in
  match fold_left step (nr_pd n) (Some ([], "")) with     (* encoding None for a rest is rendered as "" *)
  | Some (pd, enc) => Some {| nr_enc := enc; nr_pd := pd; nr_deco := nr_deco n |}
  | None => None
  end.

Definition parse_direction (s : string) : option direction :=
  if String.eqb s "up" then Some Up else if String.eqb s "down" then Some Down else None.

Definition to_transposed (d : doc) (interval dir : string) : res (doc * doc) :=
  if negb (mem_str interval available_intervals) then Err "ValueError" else
  match parse_direction dir, interval_by_name interval with
  | Some dr, Some k =>
    let step := fun (acc : option (list node)) (nd : node) =>
      match acc with
      | None => None
      | Some l =>
        match n_tok nd with
        | Some (TNoteRest n) =>
          match transpose_noterest k dr n with
          | Some n' => Some (l ++ [{| n_id := n_id nd; n_stage := n_stage nd; n_tok := Some (TNoteRest n');
                                       n_parent := n_parent nd; n_header := n_header nd; n_lastop := n_lastop nd;
                                       n_sigs := n_sigs nd; n_children := n_children nd |}])%list
          | None => None
          end
        | _ => Some (l ++ [nd])%list
        end
      end in
    match fold_left step (d_nodes d) (Some []) with
    | Some ns => let d' := set_nodes d ns in Ok (d', d')
    | None => Err "raise"
    end
  | _, _ => Err "ValueError"
  end.
