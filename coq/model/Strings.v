(* M0 - string/list utilities mirroring the Python str / list operations kernpy uses.
   Coq [string] = sequence of bytes (UTF-8 of the Python str). *)
From Coq Require Import List String Ascii Bool Arith ZArith Lia.
Import ListNotations.
Open Scope string_scope.

(* ---------- basic ---------- *)
Fixpoint rev_string_aux (s acc : string) : string :=
  match s with EmptyString => acc | String c s' => rev_string_aux s' (String c acc) end.

Fixpoint string_of_chars (l : list ascii) : string :=
  match l with [] => EmptyString | c :: l' => String c (string_of_chars l') end.
Fixpoint chars_of_string (s : string) : list ascii :=
  match s with EmptyString => [] | String c s' => c :: chars_of_string s' end.

Lemma string_of_chars_of_string s : string_of_chars (chars_of_string s) = s.
Proof. induction s as [|c s IH]; cbn; congruence. Qed.
Lemma chars_of_string_of_chars l : chars_of_string (string_of_chars l) = l.
Proof. induction l as [|c l IH]; cbn; congruence. Qed.
Lemma chars_of_string_app a b : chars_of_string (a ++ b) = (chars_of_string a ++ chars_of_string b)%list.
Proof. induction a as [|c a IH]; cbn; congruence. Qed.
Lemma string_of_chars_app a b : string_of_chars (a ++ b)%list = string_of_chars a ++ string_of_chars b.
Proof. induction a as [|c a IH]; cbn; congruence. Qed.

(* str * n *)
Fixpoint repeat_string (s : string) (n : nat) : string :=
  match n with O => "" | S n' => s ++ repeat_string s n' end.

(* c * n for one character *)
Fixpoint repeat_char (c : ascii) (n : nat) : string :=
  match n with O => "" | S n' => String c (repeat_char c n') end.

Definition filter_string (p : ascii -> bool) (s : string) : string :=
  string_of_chars (filter p (chars_of_string s)).

Definition map_string (f : ascii -> ascii) (s : string) : string :=
  string_of_chars (map f (chars_of_string s)).

(* s.startswith(p) *)
Fixpoint startswith (p s : string) : bool :=
  match p, s with
  | EmptyString, _ => true
  | String a p', String b s' => Ascii.eqb a b && startswith p' s'
  | _, EmptyString => false
  end.

Fixpoint drop (n : nat) (s : string) : string :=
  match n, s with O, _ => s | S n', String _ s' => drop n' s' | S _, EmptyString => "" end.

Fixpoint take (n : nat) (s : string) : string :=
  match n, s with O, _ => "" | S n', String c s' => String c (take n' s') | S _, EmptyString => "" end.

Definition endswith (p s : string) : bool :=
  let lp := String.length p in let ls := String.length s in
  Nat.leb lp ls && String.eqb (drop (ls - lp) s) p.

(* s.replace(pat, rep) for non-empty pat (left to right, non overlapping) *)
Fixpoint replace_fuel (fuel : nat) (pat rep s : string) : string :=
  match fuel with
  | O => s
  | S f =>
    match s with
    | EmptyString => ""
    | String c s' =>
      if startswith pat s then rep ++ replace_fuel f pat rep (drop (String.length pat) s)
      else String c (replace_fuel f pat rep s')
    end
  end.
Definition replace (pat rep s : string) : string :=
  match pat with EmptyString => s | _ => replace_fuel (S (String.length s)) pat rep s end.

(* remove every occurrence of one character: s.replace(c, '') *)
Definition remove_char (c : ascii) (s : string) : string :=
  filter_string (fun x => negb (Ascii.eqb x c)) s.

(* s.split(sep) for a single-character separator *)
Fixpoint split_char_aux (sep : ascii) (s cur : string) : list string :=
  match s with
  | EmptyString => [rev_string_aux cur ""]
  | String c s' => if Ascii.eqb c sep then rev_string_aux cur "" :: split_char_aux sep s' ""
                   else split_char_aux sep s' (String c cur)
  end.
Definition split_char (sep : ascii) (s : string) : list string := split_char_aux sep s "".

(* s.split(sep) for non-empty string separator *)
Fixpoint split_str_fuel (fuel : nat) (sep s cur : string) : list string :=
  match fuel with
  | O => [rev_string_aux cur s]
  | S f =>
    match s with
    | EmptyString => [rev_string_aux cur ""]
    | String c s' =>
      if startswith sep s then rev_string_aux cur "" :: split_str_fuel f sep (drop (String.length sep) s) ""
      else split_str_fuel f sep s' (String c cur)
    end
  end.
Definition split_str (sep s : string) : list string := split_str_fuel (S (String.length s)) sep s "".

(* sep.join(parts) *)
Fixpoint join (sep : string) (l : list string) : string :=
  match l with
  | [] => ""
  | [x] => x
  | x :: l' => x ++ sep ++ join sep l'
  end.

Definition contains_str (pat s : string) : bool :=
  match pat with
  | EmptyString => true
  | _ => negb (Nat.eqb (List.length (split_str pat s)) 1)
  end.

Fixpoint contains_char (c : ascii) (s : string) : bool :=
  match s with EmptyString => false | String x s' => Ascii.eqb x c || contains_char c s' end.

(* ---------- ascii classes ---------- *)
Definition ascii_nat (c : ascii) : nat := nat_of_ascii c.
Definition is_digit (c : ascii) : bool := let n := ascii_nat c in Nat.leb 48 n && Nat.leb n 57.
Definition is_lower (c : ascii) : bool := let n := ascii_nat c in Nat.leb 97 n && Nat.leb n 122.
Definition is_upper (c : ascii) : bool := let n := ascii_nat c in Nat.leb 65 n && Nat.leb n 90.
Definition to_lower (c : ascii) : ascii := if is_upper c then ascii_of_nat (ascii_nat c + 32) else c.
Definition to_upper (c : ascii) : ascii := if is_lower c then ascii_of_nat (ascii_nat c - 32) else c.
Definition lower (s : string) : string := map_string to_lower s.
Definition upper (s : string) : string := map_string to_upper s.

(* ---------- ordering (byte-wise lexicographic = code point order on UTF-8) ---------- *)
Fixpoint string_ltb (a b : string) : bool :=
  match a, b with
  | EmptyString, EmptyString => false
  | EmptyString, String _ _ => true
  | String _ _, EmptyString => false
  | String x a', String y b' =>
    if Nat.ltb (ascii_nat x) (ascii_nat y) then true
    else if Nat.ltb (ascii_nat y) (ascii_nat x) then false
    else string_ltb a' b'
  end.
Definition string_leb (a b : string) : bool := negb (string_ltb b a).

(* ---------- association lists ---------- *)
Fixpoint assoc_str {A} (k : string) (l : list (string * A)) : option A :=
  match l with [] => None | (k', v) :: l' => if String.eqb k k' then Some v else assoc_str k l' end.
Fixpoint assoc_z {A} (k : Z) (l : list (Z * A)) : option A :=
  match l with [] => None | (k', v) :: l' => if Z.eqb k k' then Some v else assoc_z k l' end.
Fixpoint mem_str (k : string) (l : list string) : bool :=
  match l with [] => false | x :: l' => String.eqb k x || mem_str k l' end.

(* ---------- stable insertion sort by a comparison (Python sorted(key=...)) ---------- *)
Section Sort.
  Context {A : Type} (leb : A -> A -> bool).
  (* insert x AFTER all elements that are <= x : stable *)
  Fixpoint insert_sorted (x : A) (l : list A) : list A :=
    match l with
    | [] => [x]
    | y :: l' => if leb y x then y :: insert_sorted x l' else x :: l
    end.
  (* fold from the right inserts later elements first; to keep stability we insert
     each element before equal elements already placed -- so use a left fold. *)
  Fixpoint insertion_sort_acc (acc l : list A) : list A :=
    match l with [] => acc | x :: l' => insertion_sort_acc (insert_sorted x acc) l' end.
  Definition stable_sort (l : list A) : list A := insertion_sort_acc [] l.
End Sort.

(* decimal printing of Z / nat *)
Fixpoint nat_digits (fuel n : nat) (acc : string) : string :=
  match fuel with
  | O => acc
  | S f => let d := Nat.modulo n 10 in let q := Nat.div n 10 in
           let acc' := String (ascii_of_nat (48 + d)) acc in
           if Nat.eqb q 0 then acc' else nat_digits f q acc'
  end.
Definition string_of_nat (n : nat) : string := nat_digits (S n) n "".
Definition string_of_Z (z : Z) : string :=
  match z with
  | Z0 => "0"
  | Zpos p => string_of_nat (Pos.to_nat p)
  | Zneg p => "-" ++ string_of_nat (Pos.to_nat p)
  end.

(* int(s) for an optional '-' followed by digits *)
Fixpoint parse_nat_aux (s : string) (acc : Z) : option Z :=
  match s with
  | EmptyString => Some acc
  | String c s' => if is_digit c then parse_nat_aux s' (10 * acc + Z.of_nat (ascii_nat c - 48))%Z else None
  end.
Definition parse_Z (s : string) : option Z :=
  match s with
  | EmptyString => None
  | String "-"%char EmptyString => None
  | String "-"%char s' => option_map Z.opp (parse_nat_aux s' 0%Z)
  | _ => parse_nat_aux s 0%Z
  end.
