(* M8 + M9 - the line reader and Importer.run (kernpy/core/importer.py, document.py), row by row.
   Nodes live in a store indexed by their id (creation order, root = 0); python object identity is
   replaced by these ids.  Page bounding boxes (Document.page_bounding_boxes) are not modelled. *)
From Coq Require Import List String Ascii Bool ZArith.
From KV Require Import Strings CatGen Cat SpineImpGen SpineImp Token KernTok.
Import ListNotations.
Open Scope string_scope.

(* ------------------------------------------------------------------ M8: line reader *)
Definition byte (n : nat) : ascii := ascii_of_nat n.
Definition is_byte (n : nat) (c : ascii) : bool := Nat.eqb (nat_of_ascii c) n.

(* str.splitlines(): \n \r \r\n \v \f \x1c \x1d \x1e \x85     (UTF-8 bytes) *)
Fixpoint splitlines_aux (l : list ascii) (cur : list ascii) : list string :=
  match l with
  | [] => match cur with [] => [] | _ => [string_of_chars (rev cur)] end
  | c :: r =>
    let flush := string_of_chars (rev cur) in
    if is_byte 13 c then
      match r with
      | d :: r' => if is_byte 10 d then flush :: splitlines_aux r' [] else flush :: splitlines_aux r []
      | [] => [flush]
      end
    else if is_byte 10 c || is_byte 11 c || is_byte 12 c || is_byte 28 c || is_byte 29 c || is_byte 30 c
    then flush :: splitlines_aux r []
    else if is_byte 194 c then
      match r with
      | d :: r' => if is_byte 133 d then flush :: splitlines_aux r' [] else splitlines_aux r (c :: cur)
      | [] => splitlines_aux r (c :: cur)
      end
    else if is_byte 226 c then
      match r with
      | d :: e :: r' => if is_byte 128 d && (is_byte 168 e || is_byte 169 e) then flush :: splitlines_aux r' []
                        else splitlines_aux r (c :: cur)
      | _ => splitlines_aux r (c :: cur)
      end
    else splitlines_aux r (c :: cur)
  end.
Definition splitlines (s : string) : list string := splitlines_aux (chars_of_string s) [].

(* file mode (open(newline='') + csv.reader): only \n, \r and \r\n end a line *)
Fixpoint filelines_aux (l : list ascii) (cur : list ascii) : list string :=
  match l with
  | [] => match cur with [] => [] | _ => [string_of_chars (rev cur)] end
  | c :: r =>
    let flush := string_of_chars (rev cur) in
    if is_byte 13 c then
      match r with
      | d :: r' => if is_byte 10 d then flush :: filelines_aux r' [] else flush :: filelines_aux r []
      | [] => [flush]
      end
    else if is_byte 10 c then flush :: filelines_aux r []
    else filelines_aux r (c :: cur)
  end.
Definition filelines (s : string) : list string := filelines_aux (chars_of_string s) [].

(* csv.reader(delimiter='\t', quoting=QUOTE_NONE): a line is its tab separated fields; '' -> [] *)
Definition row_of_line (line : string) : list string :=
  match line with EmptyString => [] | _ => split_char (byte 9) line end.
Definition rows_of_text (s : string) : list (list string) := map row_of_line (splitlines s).
Definition rows_of_file (s : string) : list (list string) := map row_of_line (filelines s).

(* ------------------------------------------------------------------ M9: the tree *)
Record node := {
  n_id : nat; n_stage : nat; n_tok : option token; n_parent : option nat;
  n_header : option nat; n_lastop : option nat;
  n_sigs : list (string * nat);          (* SignatureNodes.nodes: class name -> node id, insertion ordered *)
  n_children : list nat }.

Record doc := {
  d_nodes : list node;                    (* index = id; root first *)
  d_stages : list (list nat);
  d_mst : list nat;                       (* measure_start_tree_stages *)
  d_header_stage : option nat;
  d_cancelled : list (nat * nat);         (* spine operator node id -> cancelled_at_stage (last write wins: first entry) *)
  d_errors : list nat }.                  (* node ids of the ErrorTokens, in order *)

Record istate := {
  i_doc : doc;
  i_row : nat;                            (* _row_number *)
  i_stage : nat;                          (* _tree_stage *)
  i_next : list nat;                      (* _next_stage_parents *)
  i_prev : option (list nat);             (* _prev_stage_parents *)
  i_prehdr : nat }.                       (* _last_node_previous_to_header *)

Inductive ires (A : Type) := IOk (a : A) | IErr (exn : string) | IOut.
Arguments IOk {A}. Arguments IErr {A}. Arguments IOut {A}.

Definition root_node : node :=
  {| n_id := 0; n_stage := 0; n_tok := None; n_parent := None; n_header := None; n_lastop := None;
     n_sigs := []; n_children := [] |}.
Definition empty_doc : doc :=
  {| d_nodes := [root_node]; d_stages := [[0]]; d_mst := []; d_header_stage := None; d_cancelled := []; d_errors := [] |}.
Definition init_state : istate :=
  {| i_doc := empty_doc; i_row := 1; i_stage := 0; i_next := []; i_prev := None; i_prehdr := 0 |}.

Fixpoint update_nth {A} (n : nat) (f : A -> A) (l : list A) : list A :=
  match l, n with
  | [], _ => []
  | x :: r, O => f x :: r
  | x :: r, S k => x :: update_nth k f r
  end.

Definition get_node (d : doc) (id : nat) : node := nth id (d_nodes d) root_node.

Definition set_nodes (d : doc) (ns : list node) : doc :=
  {| d_nodes := ns; d_stages := d_stages d; d_mst := d_mst d; d_header_stage := d_header_stage d;
     d_cancelled := d_cancelled d; d_errors := d_errors d |}.
Definition set_stages (d : doc) (st : list (list nat)) : doc :=
  {| d_nodes := d_nodes d; d_stages := st; d_mst := d_mst d; d_header_stage := d_header_stage d;
     d_cancelled := d_cancelled d; d_errors := d_errors d |}.

(* MultistageTree.add_node; returns the new document and the id of the node *)
Definition add_node (d : doc) (stage : nat) (parent : nat) (tok : token) (lastop : option nat)
           (sigs : list (string * nat)) (header : option nat) : ires (doc * nat) :=
  let id := List.length (d_nodes d) in
  let nd := {| n_id := id; n_stage := stage; n_tok := Some tok; n_parent := Some parent; n_header := header;
               n_lastop := lastop; n_sigs := sigs; n_children := [] |} in
  let nstages := List.length (d_stages d) in
  if Nat.ltb nstages stage then IErr "ValueError"
  else
    let stages' := if Nat.eqb stage nstages then (d_stages d ++ [[id]])%list
                   else update_nth stage (fun l => (l ++ [id])%list) (d_stages d) in
    let nodes' := (update_nth parent (fun p =>
                     {| n_id := n_id p; n_stage := n_stage p; n_tok := n_tok p; n_parent := n_parent p;
                        n_header := n_header p; n_lastop := n_lastop p; n_sigs := n_sigs p;
                        n_children := (n_children p ++ [id])%list |}) (d_nodes d) ++ [nd])%list in
    IOk (set_stages (set_nodes d nodes') stages', id).

Definition set_header_self (d : doc) (id : nat) : doc :=
  set_nodes d (update_nth id (fun p =>
    {| n_id := n_id p; n_stage := n_stage p; n_tok := n_tok p; n_parent := n_parent p;
       n_header := Some id; n_lastop := n_lastop p; n_sigs := n_sigs p; n_children := n_children p |}) (d_nodes d)).

(* SignatureNodes.update on the node's own dictionary *)
Fixpoint dict_set (k : string) (v : nat) (l : list (string * nat)) : list (string * nat) :=
  match l with
  | [] => [(k, v)]
  | (k', v') :: r => if String.eqb k k' then (k, v) :: r else (k', v') :: dict_set k v r
  end.
Definition sig_update (d : doc) (id : nat) (cls : string) : doc :=
  set_nodes d (update_nth id (fun p =>
    {| n_id := n_id p; n_stage := n_stage p; n_tok := n_tok p; n_parent := n_parent p;
       n_header := n_header p; n_lastop := n_lastop p; n_sigs := dict_set cls id (n_sigs p);
       n_children := n_children p |}) (d_nodes d)).

Definition set_cancelled (d : doc) (op : nat) (stage : nat) : doc :=
  {| d_nodes := d_nodes d; d_stages := d_stages d; d_mst := d_mst d; d_header_stage := d_header_stage d;
     d_cancelled := (op, stage) :: d_cancelled d; d_errors := d_errors d |}.
Fixpoint assoc_nat (k : nat) (l : list (nat * nat)) : option nat :=
  match l with [] => None | (k', v) :: r => if Nat.eqb k k' then Some v else assoc_nat k r end.
Definition cancelled_at (d : doc) (op : nat) : option nat := assoc_nat op (d_cancelled d).

Definition node_is_spine_op (d : doc) (id : nat) : bool :=
  match n_tok (get_node d id) with Some t => is_spine_op_token t | None => false end.

(* Importer.get_last_spine_operator *)
Definition get_last_spine_operator (d : doc) (parent : nat) : option nat :=
  if node_is_spine_op d parent then Some parent else n_lastop (get_node d parent).

Definition header_text (d : doc) (hid : nat) : string :=
  match n_tok (get_node d hid) with Some t => tok_enc t | None => "" end.

(* the recogniser used at document level.  [bad] is an oracle supplied by the caller about the real
   recogniser: an entry "text" says the cell is rejected; an entry "text<2>CATEGORY" says it is accepted
   with that category although it lies outside CKL (enough to decide the non-kern wrappers).  Otherwise CKL
   decides; outside CKL the model has no answer. *)
Inductive rec3 := RTok (t : token) | RFail | ROut.
Definition sep2 : string := String (ascii_of_nat 2) "".
Definition cat_by_name (n : string) : option cat := find (fun c => String.eqb (cat_name c) n) all_cats.

Definition oracle_cat (bad : list string) (s : string) : option cat :=
  match find (fun e => startswith (s ++ sep2) e) bad with
  | Some e => cat_by_name (drop (String.length s + 1) e)
  | None => None
  end.

(* importer.import_token(column) for the header [h] : token, error (-> ErrorToken) or out-of-model *)
Definition import_cell (bad : list string) (h s : string) : rec3 :=
  if String.eqb s "" then RFail else
  let outcome : option (option (cat * option token)) :=      (* None = no answer *)
    if mem_str s bad then Some None
    else match kern_recognise s with
         | KTok t => Some (Some (tok_cat t, Some t))
         | KOut => match oracle_cat bad s with Some c => Some (Some (c, None)) | None => None end
         end in
  match outcome with
  | None => ROut
  | Some r =>
    match import_token (cat * option token) fst (fun _ => r) h s with
    | RErr _ => RFail
    | RKept (_, Some t) => RTok t
    | RKept (_, None) => ROut
    | RSimple txt c => RTok (TSimple txt c "SimpleToken")
    end
  end.

Definition set_doc (s : istate) (d : doc) : istate :=
  {| i_doc := d; i_row := i_row s; i_stage := i_stage s; i_next := i_next s; i_prev := i_prev s; i_prehdr := i_prehdr s |}.
Definition push_next (s : istate) (ids : list nat) : istate :=
  {| i_doc := i_doc s; i_row := i_row s; i_stage := i_stage s; i_next := (i_next s ++ ids)%list; i_prev := i_prev s;
     i_prehdr := i_prehdr s |}.

Definition add_error (d : doc) (id : nat) : doc :=
  {| d_nodes := d_nodes d; d_stages := d_stages d; d_mst := d_mst d; d_header_stage := d_header_stage d;
     d_cancelled := d_cancelled d; d_errors := (d_errors d ++ [id])%list |}.
Definition set_header_stage (d : doc) (st : nat) : doc :=
  {| d_nodes := d_nodes d; d_stages := d_stages d; d_mst := d_mst d; d_header_stage := Some st;
     d_cancelled := d_cancelled d; d_errors := d_errors d |}.
Definition push_mst (d : doc) (st : nat) : doc :=
  {| d_nodes := d_nodes d; d_stages := d_stages d; d_mst := (d_mst d ++ [st])%list; d_header_stage := d_header_stage d;
     d_cancelled := d_cancelled d; d_errors := d_errors d |}.

(* one cell of a non-'!!' row; returns the state and whether the cell opens / is a barline *)
Definition step_cell (bad : list string) (row : list string) (s : istate) (icol : nat) (col : string)
  : ires (istate * bool) :=
  let d := i_doc s in
  if startswith "**" col then
    (* _compute_header_token *)
    match add_node (set_header_stage d (i_stage s)) (i_stage s) (i_prehdr s) (THeader col icol) None [] None with
    | IOk (d1, id) => IOk (push_next (set_doc s (set_header_self d1 id)) [id], false)
    | IErr e => IErr e | IOut => IOut
    end
  else if mem_str col spine_operations then
    (* _compute_spine_operator_token *)
    match i_prev s with
    | None => IErr "TypeError"
    | Some prev =>
      if Nat.leb (List.length prev) icol then IErr "Exception" else
      let parent := nth icol prev 0 in
      let pn := get_node d parent in
      match add_node d (i_stage s) parent (TSimple col SPINE_OPERATION "SpineOperationToken")
                     (get_last_spine_operator d parent) (n_sigs pn) (n_header pn) with
      | IErr e => IErr e | IOut => IOut
      | IOk (d1, id) =>
        let lastop := n_lastop (get_node d1 id) in
        let cancel := fun dd => match lastop with Some op => set_cancelled dd op (i_stage s) | None => dd end in
        if String.eqb col "*-" then IOk (set_doc s (cancel d1), false)
        else if String.eqb col "*+" || String.eqb col "*^" then IOk (push_next (set_doc s d1) [id; id], false)
        else if String.eqb col "*v" then
          let d2 := cancel d1 in
          let keep :=
            match icol with
            | O => true
            | S k => negb (String.eqb (nth k row "") "*v")
                     || negb (match n_header (get_node d (nth k prev 0)), n_header (get_node d (nth icol prev 0)) with
                              | Some a, Some b => Nat.eqb a b | None, None => true | _, _ => false end)
            end in
          IOk ((if keep then push_next (set_doc s d2) [id] else set_doc s d2), false)
        else IErr "Exception"
      end
    end
  else
    let tok_r : ires (token * bool) :=       (* token, is it an ErrorToken *)
      if startswith "!" col then IOk (TSimple col FIELD_COMMENTS "FieldCommentToken", false)
      else
        match i_prev s with
        | None => IErr "ValueError"
        | Some prev =>
          if Nat.leb (List.length prev) icol then IErr "ValueError" else
          match n_header (get_node d (nth icol prev 0)) with
          | None => IErr "Exception"
          | Some hid =>
            match import_cell bad (header_text d hid) col with
            | RTok t => IOk (t, false)
            | RFail => IOk (TError col (i_row s), true)
            | ROut => IOut
            end
          end
        end in
    match tok_r with
    | IErr e => IErr e | IOut => IOut
    | IOk (tok, is_err) =>
      match i_prev s with
      | None => IErr "TypeError"
      | Some prev =>
        if Nat.leb (List.length prev) icol then IErr "IndexError" else
        let parent := nth icol prev 0 in
        let pn := get_node d parent in
        match add_node d (i_stage s) parent tok (get_last_spine_operator d parent) (n_sigs pn) (n_header pn) with
        | IErr e => IErr e | IOut => IOut
        | IOk (d1, id) =>
          let d2 := if is_err then add_error d1 id else d1 in
          let opens := cat_beq (tok_cat tok) BARLINES
                       || (is_child CORE (tok_cat tok) && Nat.eqb (List.length (d_mst d2)) 0) in
          let d3 := if opens then d2
                    else if String.eqb (tok_class tok) "BoundingBoxToken" then d2
                    else if is_signature_token tok then sig_update d2 id (tok_class tok) else d2 in
          IOk (push_next (set_doc s d3) [id], opens)
        end
      end
    end.

Fixpoint step_cells (bad : list string) (row : list string) (s : istate) (icol : nat) (cols : list string) (bar : bool)
  : ires (istate * bool) :=
  match cols with
  | [] => IOk (s, bar)
  | c :: r =>
    match step_cell bad row s icol c with
    | IOk (s', b) => step_cells bad row s' (S icol) r (bar || b)
    | IErr e => IErr e
    | IOut => IOut
    end
  end.

(* str.strip() of the first field of a '!!' line (ASCII whitespace) *)
Definition is_space (c : ascii) : bool :=
  let n := nat_of_ascii c in Nat.eqb n 32 || (Nat.leb 9 n && Nat.leb n 13) || (Nat.leb 28 n && Nat.leb n 31).
Fixpoint lstrip (l : list ascii) : list ascii := match l with c :: r => if is_space c then lstrip r else l | [] => [] end.
Definition strip (s : string) : string := string_of_chars (rev (lstrip (rev (lstrip (chars_of_string s))))).

Definition step_row (bad : list string) (s : istate) (row : list string) : ires istate :=
  match row with
  | [] => IOk s
  | first :: _ =>
    let stage := S (i_stage s) in
    let prev := match i_next s with [] => i_prev s | l => Some l end in
    let s0 := {| i_doc := i_doc s; i_row := i_row s; i_stage := stage; i_next := []; i_prev := prev; i_prehdr := i_prehdr s |} in
    let r :=
      if startswith "!!" first then
        (* _compute_metacomment_token: _header_row_number is never assigned, so always the pre-header chain *)
        match add_node (i_doc s0) stage (i_prehdr s0) (TSimple (strip first) LINE_COMMENTS "MetacommentToken") None [] None with
        | IOk (d1, id) => IOk ({| i_doc := d1; i_row := i_row s0; i_stage := stage; i_next := []; i_prev := prev; i_prehdr := id |}, false)
        | IErr e => IErr e | IOut => IOut
        end
      else match step_cells bad row s0 0 row false with
           | IOk (s1, b) =>
             (* every spine path has ended: a later cell has no parent to attach to *)
             let prev' := match i_next s1, i_prev s1 with
                          | [], Some (_ :: _) => Some []
                          | _, p => p end in
             IOk ({| i_doc := i_doc s1; i_row := i_row s1; i_stage := i_stage s1; i_next := i_next s1; i_prev := prev';
                     i_prehdr := i_prehdr s1 |}, b)
           | other => other
           end in
    match r with
    | IErr e => IErr e | IOut => IOut
    | IOk (s1, bar) =>
      let d := if bar then push_mst (i_doc s1) stage else i_doc s1 in
      IOk {| i_doc := d; i_row := S (i_row s1); i_stage := i_stage s1; i_next := i_next s1; i_prev := i_prev s1;
             i_prehdr := i_prehdr s1 |}
    end
  end.

Fixpoint run_rows (bad : list string) (s : istate) (rows : list (list string)) : ires istate :=
  match rows with
  | [] => IOk s
  | r :: rest => match step_row bad s r with IOk s' => run_rows bad s' rest | IErr e => IErr e | IOut => IOut end
  end.

Definition loads (bad : list string) (text : string) : ires doc :=
  match run_rows bad init_state (rows_of_text text) with IOk s => IOk (i_doc s) | IErr e => IErr e | IOut => IOut end.
Definition load_file (bad : list string) (bytes : string) : ires doc :=
  match run_rows bad init_state (rows_of_file bytes) with IOk s => IOk (i_doc s) | IErr e => IErr e | IOut => IOut end.
