(* M3 - gkern.py: staff positions and the agnostic (G-clef relative) spelling of a pitch. *)
From Coq Require Import List String Ascii Bool ZArith.
From KV Require Import Strings CatGen PitchGen ClefGen Pitch.
Import ListNotations.
Open Scope string_scope.
Open Scope Z_scope.

(* letter(p) inside compute_position: strip accidentals, rebuild through the name setter *)
Definition gk_letter (p : apitch) : option string :=
  set_name (remove_char "-" (remove_char "+" (ap_name p))).

(* PitchPositionReferenceSystem.compute_position -> PositionInStaff.line_space (KeyError/ValueError -> None) *)
Definition compute_position (base p : apitch) : option Z :=
  match gk_letter base, gk_letter p with
  | Some lb, Some lp =>
    match assoc_str lb letter_to_index, assoc_str lp letter_to_index with
    | Some bi, Some ti => Some ((ap_octave p - ap_octave base) * steps_per_octave + (ti - bi))
    | _, _ => None
    end
  | _, _ => None
  end.

(* PositionInStaff.__str__ as a structured value: (is_line, number) *)
Definition position_repr (ls : Z) : bool * Z :=
  if ls mod 2 =? 0 then (true, ls / 2 + 1) else (false, (ls - 1) / 2 + 1).

Definition position_str (ls : Z) : string :=
  let '(isl, n) := position_repr ls in
  (if isl then "T" else "S") ++ token_separator ++ string_of_Z n.

Fixpoint nth_str (n : nat) (l : list string) : option string :=
  match l, n with
  | [], _ => None
  | x :: _, O => Some x
  | _ :: r, S k => nth_str k r
  end.

(* gkern_to_g_clef_pitch after the token has been split and the integer read *)
Definition gkern_of_repr (r : bool * Z) : option string :=
  let '(isl, n) := r in
  let distance := 2 * n + (if isl then 0 else 1) in
  let idx := distance mod 7 in
  let octs := distance / 7 in
  match nth_str (Z.to_nat idx) gk_letters with
  | None => None
  | Some l =>
    if distance >? 0 then Some (repeat_string l (Z.to_nat (octs + 1)))
    else if distance <? 0 then Some (repeat_string (upper l) (Z.to_nat (- octs)))
    else Some "c"
  end.

(* gkern_to_g_clef_pitch on text: 'T@N' / 'S@N' *)
Definition gkern_to_g_clef_pitch (s : string) : option string :=
  match split_str token_separator s with
  | [k; num] =>
    if String.eqb k "T" then match parse_Z num with Some n => gkern_of_repr (true, n) | None => None end
    else if String.eqb k "S" then match parse_Z num with Some n => gkern_of_repr (false, n) | None => None end
    else None
  | _ => None
  end.

Definition clef_bottom (cls : string) : option apitch :=
  match assoc_str cls clef_bottoms with
  | Some (n, o) => mk_pitch n o
  | None => None
  end.

(* pitch_to_gkern_string, structured path (theorems) and text path (what python does) *)
Definition pitch_to_gkern (p : apitch) (cls : string) : option string :=
  match clef_bottom cls with
  | None => None
  | Some base =>
    match compute_position base p with
    | None => None
    | Some ls => match gkern_of_repr (position_repr ls) with
                 | Some g => Some (g ++ accidentals p)
                 | None => None end
    end
  end.

Definition pitch_to_gkern_text (p : apitch) (cls : string) : option string :=
  match clef_bottom cls with
  | None => None
  | Some base =>
    match compute_position base p with
    | None => None
    | Some ls => match gkern_to_g_clef_pitch (position_str ls) with
                 | Some g => Some (g ++ accidentals p)
                 | None => None end
    end
  end.

(* ClefFactory.create_clef: class name, None = exception *)
Definition opt_str_matches (c : option string) (v : string) : bool :=
  match c with None => true | Some x => String.eqb x v end.
Definition opt_z_matches (c : option Z) (v : Z) : bool :=
  match c with None => true | Some x => Z.eqb x v end.

Fixpoint dispatch_clef (name : string) (line : Z) (rows : list (option string * option Z * option string)) : option string :=
  match rows with
  | [] => None
  | (cn, cl, res) :: r => if opt_str_matches cn name && opt_z_matches cl line then res else dispatch_clef name line r
  end.

Definition create_clef_core (e : string) : option string :=
  let names := filter (fun c => mem_str (String c "") clef_names) (chars_of_string e) in
  let digits := filter is_digit (chars_of_string e) in
  match names, digits with
  | n :: _, d :: _ => dispatch_clef (String n "") (Z.of_nat (ascii_nat d - 48)) clef_dispatch
  | _, _ => None                                         (* IndexError *)
  end.

Definition create_clef (encoding : string) : option string :=
  create_clef_core (replace "*clef" "" encoding).
