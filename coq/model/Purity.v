(* The read-only API over the model: a history of read-only operations as an explicit state machine.
   In Gallina the queries are functions of the document, so the frame property holds by construction; what ties
   it to kernpy is (1) the generated obligation over every store site the read-only code can execute
   (gen/EffectsGen.v) and (2) the history correspondence run (harness/c14.py). *)
From Coq Require Import List String Ascii Bool ZArith.
From KV Require Import Strings CatGen Cat EncGen Token Tokenizers Importer Exporter Queries.
Import ListNotations.
Open Scope string_scope.

Inductive rop :=
| ODumps (o : opts)
| OAllTokens (f : option (list cat))
| OUniqueTokens (f : option (list cat))
| OFrequencies (f : option (list cat))
| OMetacomments (k : option string)
| OSpineTypes (t : option (list string))
| OMonophonic
| OMeasuresCount
| OIterate.

Definition show_list (l : list string) : string := join (String (ascii_of_nat 2) "") l.

Definition eval (d : doc) (op : rop) : string :=
  match op with
  | ODumps o => match dumps d o with Ok s => "ok:" ++ s | Err e => "err:" ++ e end
  | OAllTokens f => show_list (map tok_enc (get_all_tokens d f))
  | OUniqueTokens f => show_list (map tok_enc (get_unique_tokens d f))
  | OFrequencies f => show_list (map (fun e => fst e ++ "=" ++ string_of_nat (fst (snd e))) (frequencies d f))
  | OMetacomments k => show_list (get_metacomments d k false)
  | OSpineTypes t => match get_spine_types d t with Ok l => show_list l | Err e => "err:" ++ e end
  | OMonophonic => match is_monophonic d with Ok true => "True" | Ok false => "False" | Err e => "err:" ++ e end
  | OMeasuresCount => match measures_count d with Ok n => string_of_nat n | Err e => "err:" ++ e end
  | OIterate => match iter_measures d with Ok l => show_list (map string_of_nat l) | Err e => "err:" ++ e end
  end.

(* world = the document (module constants are Gallina constants); one step returns the world and the output *)
Definition step (w : doc) (op : rop) : doc * string := (w, eval w op).

Fixpoint run (w : doc) (h : list rop) : doc * list string :=
  match h with
  | [] => (w, [])
  | op :: r => let '(w1, out) := step w op in let '(w2, outs) := run w1 r in (w2, out :: outs)
  end.
