(* modelrun commands for M7 (spine importers).  The kern recogniser's outcome for the cell is an
   argument (category name of the kern token, or ERR): the wrapper logic is what is compared here. *)
From Coq Require Import List String Ascii Bool ZArith.
From KV Require Import Strings CatGen Cat SpineImpGen SpineImp RunCat.
Import ListNotations.
Open Scope string_scope.

Definition show_imp (r : imp_result cat) : string :=
  match r with
  | RErr e => "err:" ++ e
  | RKept c => "kept:" ++ cat_name c
  | RSimple s c => "simple:" ++ cat_name c ++ "|" ++ s
  end.

Definition run_spine (cmd : string) (args : list string) : option string :=
  if String.eqb cmd "spine_import" then
    match args with
    | [h; s; outcome] =>
      let recog := fun _ : string => if String.eqb outcome "ERR" then None else cat_of_name outcome in
      if negb (String.eqb outcome "ERR") && match cat_of_name outcome with None => true | Some _ => false end
      then Some "err:args"
      else Some (show_imp (import_token cat (fun c => c) recog h s))
    | _ => Some "err:args"
    end
  else if String.eqb cmd "create_importer" then
    match args with
    | [h] => Some ("ok:" ++ create_importer h)
    | _ => Some "err:args"
    end
  else None.
