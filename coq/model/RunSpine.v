(* modelrun commands for M7 (spine importers).  The kern recogniser's outcome for the cell is an
   argument (category name of the kern token, or ERR): the wrapper logic is what is compared here. *)
From Coq Require Import List String Ascii Bool ZArith.
From KV Require Import Strings CatGen Cat SpineImpGen SpineImp RunCat.
Import ListNotations.
Open Scope string_scope.

Definition show_imp (r : imp_result cat) : string :=
  match r with
  | RErr e => "err:" ++ e
  | RKept c => "kept:" ++ cat_name c
  | RSimple s c => "simple:" ++ cat_name c ++ "|" ++ s
  end.

Definition run_spine (cmd : string) (args : list string) : option string :=
  if String.eqb cmd "spine_import" then
    match args with
    | [h; s; outcome] =>
      let recog := fun _ : string => if String.eqb outcome "ERR" then None else cat_of_name outcome in
      if negb (String.eqb outcome "ERR") && match cat_of_name outcome with None => true | Some _ => false end
      then Some "err:args"
      else Some (show_imp (import_token cat (fun c => c) recog h s))
    | _ => Some "err:args"
    end
  else if String.eqb cmd "kern_history" then
    (* one verdict of the real recogniser per cell ("T" = token, no syntax error; "N" = rejected), comma separated;
       answers the outcome of each call on ONE importer whose listener policy is the regenerated flag *)
    match args with
    | [vs] =>
      match kern_fresh_flag with
      | None => Some "err:flag"
      | Some fresh =>
        let verdicts := split_char "," vs in
        let recog := fun v : string => if String.eqb v "T" then (Some tt, 0) else (None, 1) in
        Some ("ok:" ++ join "," (map (fun r => match r with RKept _ => "kept" | RErr _ => "raise" | RSimple _ _ => "simple" end)
                                      (run_history unit recog fresh 0 verdicts)))
      end
    | _ => Some "err:args"
    end
  else if String.eqb cmd "create_importer" then
    match args with
    | [h] => Some ("ok:" ++ create_importer h)
    | _ => Some "err:args"
    end
  else None.
