(* Proofs about the exporter model (M10): the per-node factorisation that C06 and C13 rest on, and the
   stage-range arithmetic of C07 - for every document tree and every option set. *)
From Coq Require Import List String Ascii Bool ZArith Lia.
From KV Require Import Strings CatGen Cat CatProofs EncGen OptGen Token Tokenizers TokenProofs KernTok Importer Exporter.
Import ListNotations.
Open Scope list_scope.

(* the cell a node contributes once its spine is selected: depends on the category set and the encoding only *)
Definition cell_of (d : doc) (cats : list cat) (e : encoding) (id : nat) : res string :=
  let o := {| o_types := []; o_cats := cats; o_from := None; o_to := None; o_enc := e; o_ids := None |} in
  match node_tok d id with
  | None => Err "AttributeError"
  | Some t =>
    if negb (negb (tok_hidden t) && (is_complex t || mem (tok_cat t) cats)) then Ok (placeholder t)
    else match export_node d o id with
         | Err x => Err x
         | Ok s => Ok (if String.eqb s "" then placeholder t else s)
         end
  end.

Lemma export_node_view d o o' id : o_cats o = o_cats o' -> o_enc o = o_enc o' -> export_node d o id = export_node d o' id.
Proof. intros Hc He. unfold export_node. now rewrite Hc, He. Qed.

(* append_row = spine gate, then the cell *)
Theorem append_row_factor d o id :
  append_row d o id =
  if spine_selected o (header_type d id)
  then match cell_of d (o_cats o) (o_enc o) id with Ok s => Ok (Some s) | Err x => Err x end
  else Ok None.
Proof.
  unfold append_row, cell_of. destruct (spine_selected o (header_type d id)); [|reflexivity]. cbn [negb].
  destruct (node_tok d id) as [t|]; [|reflexivity].
  destruct (negb (negb (tok_hidden t) && (is_complex t || mem (tok_cat t) (o_cats o)))); [reflexivity|].
  rewrite (export_node_view d o {| o_types := []; o_cats := o_cats o; o_from := None; o_to := None; o_enc := o_enc o; o_ids := None |} id)
    by reflexivity.
  destruct (export_node _ _ id); reflexivity.
Qed.

(* the cells of a list of nodes, no gate *)
Fixpoint row_cells (d : doc) (cats : list cat) (e : encoding) (ids : list nat) : res (list string) :=
  match ids with
  | [] => Ok []
  | id :: r => match cell_of d cats e id with
               | Err x => Err x
               | Ok c => match row_cells d cats e r with Err x => Err x | Ok cs => Ok (c :: cs) end
               end
  end.

(* C06: the row exported under a spine selection is the row of the selected sub-list of nodes - the cells are
   those of the unrestricted export, in the same order *)
Theorem row_is_projection d o : forall ids,
  (forall id, In id ids -> spine_selected o (header_type d id) = false -> exists s, cell_of d (o_cats o) (o_enc o) id = Ok s) ->
  row_of_stage d o ids = row_cells d (o_cats o) (o_enc o) (filter (fun id => spine_selected o (header_type d id)) ids).
Proof.
  induction ids as [|id r IH]; intros Hok; [reflexivity|]. cbn [row_of_stage filter].
  rewrite append_row_factor. destruct (spine_selected o (header_type d id)) eqn:E.
  - cbn [row_cells]. destruct (cell_of d (o_cats o) (o_enc o) id); [|reflexivity].
    rewrite IH by (intros i Hi; apply Hok; now right). reflexivity.
  - rewrite IH by (intros i Hi; apply Hok; now right). destruct (row_cells _ _ _ _); reflexivity.
Qed.

(* without the side condition: errors apart, the selected row never depends on unselected nodes *)
Theorem row_ignores_unselected d o id ids :
  spine_selected o (header_type d id) = false -> row_of_stage d o (id :: ids) = row_of_stage d o ids.
Proof.
  intros E. cbn [row_of_stage]. rewrite append_row_factor, E. destruct (row_of_stage d o ids); reflexivity.
Qed.

(* two option sets with the same category set and encoding produce the same cells (selection is independent) *)
Theorem cells_independent_of_selection d o o' ids :
  o_cats o = o_cats o' -> o_enc o = o_enc o' ->
  row_cells d (o_cats o) (o_enc o) ids = row_cells d (o_cats o') (o_enc o') ids.
Proof. intros -> ->. reflexivity. Qed.

(* selecting everything is the identity gate *)
Theorem select_all_row d o ids : (forall id, In id ids -> spine_selected o (header_type d id) = true) ->
  row_of_stage d o ids = row_cells d (o_cats o) (o_enc o) ids.
Proof.
  induction ids as [|id r IH]; intros H; [reflexivity|]. cbn [row_of_stage row_cells].
  rewrite append_row_factor, (H id (or_introl eq_refl)).
  destruct (cell_of d (o_cats o) (o_enc o) id); [|reflexivity].
  rewrite IH by (intros i Hi; apply H; now right). reflexivity.
Qed.

(* ---- C13: the encoding acts after the category filter, cell by cell *)
Theorem encoding_after_filter cats clef t :
  tokenize E_normalizedKern cats clef t = map_res strip_separators (tokenize E_eKern cats clef t) /\
  tokenize E_bEkern cats clef t = map_res bekern_of_ekern (tokenize E_eKern cats clef t) /\
  tokenize E_bKern cats clef t = map_res strip_token_separator (tokenize E_bEkern cats clef t) /\
  tokenize E_agnosticKern cats clef t = map_res strip_separators (tokenize E_agnosticExtendedKern cats clef t).
Proof. rewrite !tokenize_dispatch. repeat split. Qed.

(* explicit defaults = omitted options *)
Lemma explicit_all_categories : canon (valid (Some all_cats) (Some [])) = canon (valid None None).
Proof. vm_compute. reflexivity. Qed.
Lemma explicit_all_categories_mem c : mem c (valid (Some all_cats) (Some [])) = mem c (valid None None).
Proof.
  apply eqb_prop. revert c. apply lift1. vm_compute. reflexivity.
Qed.

(* ---- C07: stage ranges compose: [a .. a+n+m) = [a .. a+n) ++ [a+n .. a+n+m) *)
Theorem main_rows_split d o : forall n m a,
  main_rows d o a (n + m) =
  match main_rows d o a n, main_rows d o (a + n) m with
  | Ok r1, Ok r2 => Ok (r1 ++ r2)
  | Err x, _ => Err x
  | Ok _, Err x => Err x
  end.
Proof.
  induction n as [|n IH]; intros m a; cbn [main_rows Nat.add].
  - rewrite Nat.add_0_r. destruct (main_rows d o a m); reflexivity.
  - destruct (row_of_stage d o (nth a (d_stages d) [])) as [row|x]; [|reflexivity].
    rewrite IH. replace (S a + n) with (a + S n) by lia.
    destruct (main_rows d o (S a) n) as [r1|x1]; [|reflexivity].
    destruct (main_rows d o (a + S n) m) as [r2|x2]; [|reflexivity].
    destruct row; [reflexivity|]. destruct (all_nullish _); reflexivity.
Qed.

(* the validator: a negative start, an end beyond M, an end before the start are rejected, never clamped *)
Theorem range_validation d o :
  (match o_from o with Some f => (f <? 0)%Z | None => false end = true \/
   match o_to o with Some t => (Z.of_nat (List.length (d_mst d)) <? t)%Z | None => false end = true \/
   match o_from o, o_to o with Some f, Some t => (t <? f)%Z | _, _ => false end = true) ->
  export_rows d o = Err "ValueError".
Proof.
  unfold export_rows, export_body. intros [H|[H|H]].
  - rewrite H. reflexivity.
  - destruct (match o_from o with Some f => (f <? 0)%Z | None => false end); [reflexivity|]. rewrite H. reflexivity.
  - destruct (match o_from o with Some f => (f <? 0)%Z | None => false end); [reflexivity|].
    destruct (match o_to o with Some t => (Z.of_nat (List.length (d_mst d)) <? t)%Z | None => false end); [reflexivity|].
    rewrite H. reflexivity.
Qed.

(* ---- C08 (partial): an export with to_measure ends with a row that starts with a spine terminator, or
   with the synthetic terminator row sized by the spine operators of the row before it *)
Lemma add_terminator_spec rows r : add_terminator true rows = Some r ->
  match rev r with
  | [] => True
  | last :: before =>
    (exists rest, last = "*-"%string :: rest) \/
    (exists prev, before = prev :: tl before /\
                  last = repeat "*-"%string (List.length prev + count_str "*^" prev - count_str "*v" prev))
  end.
Proof.
  unfold add_terminator. destruct (rev rows) as [|last before] eqn:Er.
  - intros H. injection H as <-. rewrite Er. exact I.
  - destruct last as [|c0 rest]; [discriminate|]. destruct (String.eqb c0 "*-") eqn:Ec.
    + intros H. injection H as <-. rewrite Er. left. apply String.eqb_eq in Ec. subst. now exists rest.
    + intros H. injection H as <-. rewrite rev_app_distr. simpl. right. exists (c0 :: rest). rewrite Er. simpl. split; reflexivity.
Qed.

Theorem excerpt_ends_terminated d o r t :
  o_to o = Some t -> export_rows d o = Ok r ->
  match rev r with
  | [] => True
  | last :: before =>
    (exists rest, last = "*-"%string :: rest) \/
    (exists prev, before = prev :: tl before /\
                  last = repeat "*-"%string (List.length prev + count_str "*^" prev - count_str "*v" prev))
  end.
Proof.
  intros Ht. unfold export_rows. rewrite Ht. destruct (export_body d o) as [rows|]; [|discriminate].
  destruct (add_terminator true rows) as [r'|] eqn:E; [|discriminate].
  intros H. injection H as <-. exact (add_terminator_spec _ _ E).
Qed.

(* ---- C07: cutting a stage range at any increasing list of cut points (the measure starts) and concatenating the
   pieces gives the rows of the whole range: every line once, in order *)
From Coq Require Import Sorted Lia.
Fixpoint seg_rows (d : doc) (o : opts) (cuts : list nat) (last : nat) : res (list (list string)) :=
  match cuts with
  | [] => Ok []
  | c :: rest =>
    let nxt := match rest with c' :: _ => c' | [] => last end in
    match main_rows d o c (nxt - c), seg_rows d o rest last with
    | Ok r1, Ok r2 => Ok (r1 ++ r2)%list
    | Err x, _ => Err x
    | Ok _, Err x => Err x
    end
  end.

Theorem segments_partition d o last : forall cuts c1 rest, cuts = c1 :: rest -> StronglySorted lt cuts ->
  Forall (fun c => c <= last) cuts -> seg_rows d o cuts last = main_rows d o c1 (last - c1).
Proof.
  induction cuts as [|c cuts IH]; intros c1 rest E S F; [discriminate|]. injection E as -> ->.
  destruct rest as [|c2 rest'].
  - cbn [seg_rows]. destruct (main_rows d o c1 (last - c1)); [now rewrite app_nil_r | reflexivity].
  - inversion S as [|? ? S' Hlt]; subst. inversion F as [|? ? Hc1 F']; subst.
    assert (H12 : c1 < c2) by (inversion Hlt; assumption).
    assert (Hc2 : c2 <= last) by (inversion F'; assumption).
    change (seg_rows d o (c1 :: c2 :: rest') last) with
      (match main_rows d o c1 (c2 - c1), seg_rows d o (c2 :: rest') last with
       | Ok r1, Ok r2 => Ok (r1 ++ r2)%list | Err x, _ => Err x | Ok _, Err x => Err x end).
    rewrite (IH c2 rest' eq_refl S' F').
    replace (last - c1) with ((c2 - c1) + (last - c2)) by lia.
    rewrite (main_rows_split d o (c2 - c1) (last - c2) c1). replace (c1 + (c2 - c1)) with c2 by lia. reflexivity.
Qed.

(* ---- C03: the body of an export is the grid of the stages, minus empty and all-null rows, in order *)
Definition kept_row (row : list string) : bool := match row with [] => false | _ => negb (all_nullish row) end.

Theorem main_rows_filter_map d o : forall n a rows,
  (forall k, k < n -> row_of_stage d o (nth (a + k) (d_stages d) []) = Ok (rows k)) ->
  main_rows d o a n = Ok (filter kept_row (map rows (seq 0 n))).
Proof.
  induction n as [|n IH]; intros a rows H; [reflexivity|].
  cbn [main_rows]. pose proof (H 0 ltac:(lia)) as H0. rewrite Nat.add_0_r in H0. rewrite H0.
  rewrite (IH (S a) (fun k => rows (S k))).
  - cbn [seq map filter]. rewrite <- seq_shift, map_map. unfold kept_row. destruct (rows 0) as [|c r] eqn:E; [reflexivity|].
    destruct (all_nullish (c :: r)); reflexivity.
  - intros k Hk. replace (S a + k) with (a + S k) by lia. apply H. lia.
Qed.

(* with every spine selected each stage contributes one cell per node: the exported grid has the widths of the stages *)
Theorem full_selection_grid d o n a :
  (forall k id, k < n -> In id (nth (a + k) (d_stages d) []) -> spine_selected o (header_type d id) = true) ->
  forall rows, main_rows d o a n = Ok rows ->
  exists cells, (forall k, k < n -> row_cells d (o_cats o) (o_enc o) (nth (a + k) (d_stages d) []) = Ok (cells k)) /\
                rows = filter kept_row (map cells (seq 0 n)) /\
                (forall k, k < n -> List.length (cells k) = List.length (nth (a + k) (d_stages d) [])).
Proof.
  revert a. induction n as [|n IH]; intros a Hsel rows Hm.
  - exists (fun _ => []). cbn in Hm. injection Hm as <-. repeat split; intros; lia.
  - cbn [main_rows] in Hm.
    assert (H0 : row_of_stage d o (nth a (d_stages d) []) = row_cells d (o_cats o) (o_enc o) (nth a (d_stages d) [])).
    { apply select_all_row. intros id Hin. apply (Hsel 0 id ltac:(lia)). now rewrite Nat.add_0_r. }
    rewrite H0 in Hm. destruct (row_cells d (o_cats o) (o_enc o) (nth a (d_stages d) [])) as [c0|] eqn:E0; [|discriminate].
    destruct (main_rows d o (S a) n) as [rest|] eqn:Er; [|discriminate].
    assert (Hsel' : forall k id, k < n -> In id (nth (S a + k) (d_stages d) []) -> spine_selected o (header_type d id) = true).
    { intros k id Hk Hin. apply (Hsel (S k) id ltac:(lia)). now replace (a + S k) with (S a + k) by lia. }
    destruct (IH (S a) Hsel' rest Er) as [cells [Hc [Hr Hl]]].
    exists (fun k => match k with O => c0 | S k' => cells k' end). split; [|split].
    + intros [|k] Hk; [now rewrite Nat.add_0_r | replace (a + S k) with (S a + k) by lia; apply Hc; lia].
    + injection Hm as <-. cbn [seq map filter]. rewrite <- seq_shift, map_map.
      change (filter kept_row (map (fun x => cells x) (seq 0 n))) with (filter kept_row (map cells (seq 0 n))). rewrite <- Hr. unfold kept_row.
      destruct c0; [reflexivity|]. destruct (all_nullish _); reflexivity.
    + assert (Len : forall ids cs, row_cells d (o_cats o) (o_enc o) ids = Ok cs -> List.length cs = List.length ids).
      { induction ids as [|i ids IHi]; intros cs Hcs; cbn [row_cells] in Hcs; [injection Hcs as <-; reflexivity|].
        destruct (cell_of _ _ _ i); [|discriminate]. destruct (row_cells _ _ _ ids) eqn:Ei; [|discriminate]. injection Hcs as <-.
        cbn. f_equal. apply IHi. reflexivity. }
      intros [|k] Hk; [rewrite Nat.add_0_r; apply Len, E0 | replace (a + S k) with (S a + k) by lia; apply Hl; lia].
Qed.
