(* Proofs about Generic.concat and Document.to_transposed on the model (M12). *)
From Coq Require Import List String Ascii Bool ZArith Lia.
From KV Require Import Strings CatGen Cat Pitch Token Importer Exporter Queries Api.
Import ListNotations.
Open Scope list_scope.

Fixpoint consecutive (low : nat) (l : list (nat * nat)) : Prop :=
  match l with
  | [] => True
  | (a, b) :: r => a = low /\ consecutive (S b) r
  end.

Lemma consecutive_app low l1 l2 : consecutive low (l1 ++ l2) <->
  consecutive low l1 /\ consecutive (match rev l1 with [] => low | (_, b) :: _ => S b end) l2.
Proof.
  revert low. induction l1 as [|[a b] l1 IH]; intros low; simpl; [tauto|].
  rewrite IH. destruct (rev l1) as [|[a' b'] r'] eqn:E; simpl.
  - assert (l1 = []) by (apply (f_equal (@rev _)) in E; rewrite rev_involutive in E; exact E). subst. simpl. tauto.
  - destruct (r' ++ [(a, b)]) eqn:E2; [destruct r'; discriminate|]. tauto.
Qed.

(* the pairs concat returns are consecutive, start at 0, and the last 'to' is the measure count of the result *)
Lemma concat_loop_spec bad sep : forall frags raw low last acc d idx,
  concat_loop bad sep raw low frags last acc = IOk (Some d, idx) ->
  frags <> [] ->
  exists new, idx = acc ++ new /\ consecutive low new /\ new <> [] /\
              match rev new with (_, b) :: _ => b = List.length (d_mst d) | [] => False end.
Proof.
  induction frags as [|f frags IH]; intros raw low last acc d idx H Hne; [contradiction|].
  simpl in H. destruct (loads bad (raw ++ sep ++ f)) as [d1| |] eqn:Hl; try discriminate.
  destruct frags as [|f2 frags].
  - simpl in H. injection H as <- <-. exists [(low, List.length (d_mst d1))]. simpl. repeat split; auto. discriminate.
  - destruct (IH _ _ _ _ _ _ H ltac:(discriminate)) as [new [He [Hc [Hn Hl2]]]].
    exists ((low, List.length (d_mst d1)) :: new). split; [rewrite He, <- app_assoc; reflexivity|].
    split; [simpl; split; [reflexivity | exact Hc]|]. split; [discriminate|].
    simpl. destruct (rev new) as [|[a b] r] eqn:E; [contradiction|]. simpl. exact Hl2.
Qed.

Lemma concat_loop_len bad sep : forall frags raw low last acc r idx,
  concat_loop bad sep raw low frags last acc = IOk (r, idx) -> List.length idx = (List.length acc + List.length frags)%nat.
Proof.
  induction frags as [|f frags IH]; intros raw low last acc r idx H; simpl in H.
  - injection H as _ <-. simpl. lia.
  - destruct (loads bad (raw ++ sep ++ f)); try discriminate. apply IH in H. rewrite app_length in H. simpl in *. lia.
Qed.

Theorem concat_indexes bad frags sep d idx :
  concat bad frags sep = IOk (d, idx) ->
  consecutive 0 idx /\ List.length idx = List.length frags /\
  match rev idx with (_, b) :: _ => b = List.length (d_mst d) | [] => False end.
Proof.
  unfold concat. destruct frags as [|f frags]; [discriminate|].
  destruct (concat_loop bad sep "" 0 (f :: frags) None []) as [[[d'|] idx']| |] eqn:H; try discriminate.
  intros E. injection E as <- <-.
  destruct (concat_loop_spec _ _ _ _ _ _ _ _ _ H ltac:(discriminate)) as [new [He [Hc [Hn Hl]]]].
  simpl in He. subst idx'. split; [exact Hc|]. split; [|exact Hl].
  apply concat_loop_len in H. simpl in H. exact H.
Qed.

(* the document concat returns is the import of the text it accumulated: separator + fragment, repeatedly *)
Fixpoint joined (sep : string) (frags : list string) : string :=
  match frags with [] => ""%string | f :: r => (sep ++ f ++ joined sep r)%string end.

Lemma append_assoc (a b c : string) : ((a ++ b) ++ c = a ++ (b ++ c))%string.
Proof. induction a as [|x a IH]; simpl; [reflexivity | now rewrite IH]. Qed.
Lemma append_nil_r (a : string) : (a ++ "" = a)%string.
Proof. induction a as [|x a IH]; simpl; [reflexivity | now rewrite IH]. Qed.

Lemma concat_loop_doc bad sep : forall frags raw low last acc d idx,
  concat_loop bad sep raw low frags last acc = IOk (Some d, idx) -> frags <> [] ->
  loads bad (raw ++ joined sep frags) = IOk d.
Proof.
  induction frags as [|f frags IH]; intros raw low last acc d idx H Hne; [contradiction|].
  simpl in H. destruct (loads bad (raw ++ sep ++ f)) as [d1| |] eqn:Hl; try discriminate.
  destruct frags as [|f2 frags].
  - simpl in H. injection H as <- _. simpl. rewrite append_nil_r. exact Hl.
  - apply IH in H; [|discriminate]. cbn [joined]. cbn [joined] in H. rewrite <- H. f_equal.
    rewrite !append_assoc. reflexivity.
Qed.

Theorem concat_is_import_of_joined bad frags sep d idx :
  concat bad frags sep = IOk (d, idx) -> loads bad (joined sep frags) = IOk d.
Proof.
  unfold concat. destruct frags as [|f frags]; [discriminate|].
  destruct (concat_loop bad sep "" 0 (f :: frags) None []) as [[[d'|] idx']| |] eqn:H; try discriminate.
  intros E. injection E as <- <-. apply (concat_loop_doc _ _ _ _ _ _ _ _ _ H). discriminate.
Qed.

(* ------------------------------------------------------------------ C15: to_transposed *)
(* the tree keeps its shape: stages, measure index, header stage and the number of nodes are untouched *)
Lemma fold_nodes_shape k dr : forall ns acc res,
  fold_left (fun (acc : option (list node)) (nd : node) =>
    match acc with
    | None => None
    | Some l =>
      match n_tok nd with
      | Some (TNoteRest n) =>
        match transpose_noterest k dr n with
        | Some n' => Some (l ++ [{| n_id := n_id nd; n_stage := n_stage nd; n_tok := Some (TNoteRest n');
                                     n_parent := n_parent nd; n_header := n_header nd; n_lastop := n_lastop nd;
                                     n_sigs := n_sigs nd; n_children := n_children nd |}])
        | None => None
        end
      | _ => Some (l ++ [nd])
      end
    end) ns (Some acc) = Some res ->
  exists new, res = acc ++ new /\ List.length new = List.length ns /\
    Forall2 (fun a b => n_id b = n_id a /\ n_stage b = n_stage a /\ n_parent b = n_parent a /\ n_header b = n_header a /\
                        n_lastop b = n_lastop a /\ n_sigs b = n_sigs a /\ n_children b = n_children a /\
                        match n_tok a with
                        | Some (TNoteRest n) => exists n', transpose_noterest k dr n = Some n' /\ n_tok b = Some (TNoteRest n')
                        | other => n_tok b = other
                        end) ns new.
Proof.
  induction ns as [|nd ns IH]; intros acc res; simpl.
  - intros H. injection H as <-. exists []. rewrite app_nil_r. repeat split; constructor.
  - destruct (n_tok nd) as [t|] eqn:Et.
    + destruct t as [e c cls|e h|e sp|e ln|n|e notes];
        try (intros H; apply IH in H; destruct H as [new [He [Hl Hf]]]; exists (nd :: new);
             split; [rewrite He, <- app_assoc; reflexivity|]; split; [simpl; lia|];
             constructor; [repeat split; try reflexivity; rewrite Et; reflexivity | exact Hf]).
      destruct (transpose_noterest k dr n) as [n'|] eqn:En.
      * intros H. apply IH in H. destruct H as [new [He [Hl Hf]]].
        eexists (_ :: new). split; [rewrite He, <- app_assoc; reflexivity|]. split; [simpl; lia|].
        constructor; [|exact Hf]. cbn [n_id n_stage n_parent n_header n_lastop n_sigs n_children n_tok]. repeat split; try reflexivity.
        rewrite Et. exists n'. split; [exact En | reflexivity].
      * intros H. exfalso. clear -H. induction ns as [|x ns IHn]; simpl in H; [discriminate | apply IHn; exact H].
    + intros H; apply IH in H; destruct H as [new [He [Hl Hf]]]; exists (nd :: new).
      split; [rewrite He, <- app_assoc; reflexivity|]. split; [simpl; lia|].
      constructor; [repeat split; try reflexivity; rewrite Et; reflexivity | exact Hf].
Qed.

(* what to_transposed does to one note: durations, rests, accidental sub-tokens and signifiers are kept,
   every PITCH sub-token becomes its transposition (the arithmetic of C09) *)
Lemma transpose_noterest_spec k dr n n' : transpose_noterest k dr n = Some n' ->
  nr_deco n' = nr_deco n /\ List.length (nr_pd n') = List.length (nr_pd n) /\
  Forall2 (fun a b => match st_cat a with
                      | PITCH => st_cat b = PITCH /\ transpose (st_enc a) k dr = Some (st_enc b)
                      | _ => b = a end) (nr_pd n) (nr_pd n').
Proof.
  unfold transpose_noterest.
  set (step := fun (acc : option (list subtoken * string)) (s : subtoken) => _).
  assert (G : forall l acc enc res e', fold_left step l (Some (acc, enc)) = Some (res, e') ->
              exists new, res = acc ++ new /\ List.length new = List.length l /\
                Forall2 (fun a b => match st_cat a with
                                    | PITCH => st_cat b = PITCH /\ transpose (st_enc a) k dr = Some (st_enc b)
                                    | _ => b = a end) l new).
  { induction l as [|s l IH]; intros acc enc res e'; simpl.
    - intros H. injection H as <- <-. exists []. rewrite app_nil_r. repeat split; constructor.
    - destruct (st_cat s) eqn:Ec;
        try (intros H; apply IH in H; destruct H as [new [He [Hl Hf]]]; exists (s :: new);
             split; [rewrite He, <- app_assoc; reflexivity|]; split; [simpl; lia|]; constructor; [rewrite Ec; reflexivity | exact Hf]).
      destruct (transpose (st_enc s) k dr) as [tp|] eqn:Et.
      + intros H; apply IH in H; destruct H as [new [He [Hl Hf]]]. eexists (_ :: new).
        split; [rewrite He, <- app_assoc; reflexivity|]. split; [simpl; lia|]. constructor; [|exact Hf].
        rewrite Ec. simpl. split; [reflexivity | exact Et].
      + intros H. exfalso. clear -H. induction l as [|x l IHl]; simpl in H; [discriminate | apply IHl; exact H]. }
  destruct (fold_left step (nr_pd n) (Some ([], ""%string))) as [[pd enc]|] eqn:E; [|discriminate].
  intros H. injection H as <-. cbn [nr_deco nr_pd]. destruct (G _ _ _ _ _ E) as [new [He [Hl Hf]]]. simpl in He. subst pd.
  split; [reflexivity|]. split; [exact Hl | exact Hf].
Qed.

Theorem to_transposed_shape d iv dir r src : to_transposed d iv dir = Ok (r, src) ->
  d_stages r = d_stages d /\ d_mst r = d_mst d /\ d_header_stage r = d_header_stage d /\
  List.length (d_nodes r) = List.length (d_nodes d) /\ src = r.
Proof.
  unfold to_transposed. destruct (negb (mem_str iv available_intervals)); [discriminate|].
  destruct (parse_direction dir) as [dr|]; [|discriminate]. destruct (interval_by_name iv) as [k|]; [|discriminate].
  match goal with |- context [fold_left ?f (d_nodes d) (Some [])] => destruct (fold_left f (d_nodes d) (Some [])) as [ns|] eqn:E end;
    [|discriminate].
  intros H. injection H as <- <-. repeat split; try reflexivity.
  destruct (fold_nodes_shape _ _ _ _ _ E) as [new [He [Hl _]]]. simpl in He. subst ns. exact Hl.
Qed.

Theorem to_transposed_nodes d iv dir r src : to_transposed d iv dir = Ok (r, src) ->
  exists k dr, interval_by_name iv = Some k /\ parse_direction dir = Some dr /\
  Forall2 (fun a b => n_id b = n_id a /\ n_stage b = n_stage a /\ n_parent b = n_parent a /\ n_header b = n_header a /\
                      n_lastop b = n_lastop a /\ n_sigs b = n_sigs a /\ n_children b = n_children a /\
                      match n_tok a with
                      | Some (TNoteRest n) => exists n', transpose_noterest k dr n = Some n' /\ n_tok b = Some (TNoteRest n')
                      | other => n_tok b = other
                      end) (d_nodes d) (d_nodes r).
Proof.
  unfold to_transposed. destruct (negb (mem_str iv available_intervals)); [discriminate|].
  destruct (parse_direction dir) as [dr|]; [|discriminate]. destruct (interval_by_name iv) as [k|]; [|discriminate].
  match goal with |- context [fold_left ?f (d_nodes d) (Some [])] => destruct (fold_left f (d_nodes d) (Some [])) as [ns|] eqn:E end;
    [|discriminate].
  intros H. injection H as <- <-. exists k, dr. repeat split.
  destruct (fold_nodes_shape _ _ _ _ _ E) as [new [He [_ Hf]]]. simpl in He. subst ns. exact Hf.
Qed.
