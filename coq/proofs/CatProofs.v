(* Proofs for C11: the query functions of M1 (Cat.v) against an independent inductive
   description of the documented forest. *)
From Coq Require Import List String ZArith Bool Lia Permutation.
From KV Require Import CatGen Cat.
Import ListNotations.
Open Scope list_scope.

(* ------------------------------------------------------------------ spec: edges and descent *)

Fixpoint edges_t (t : ctree) : list (cat * cat) :=
  match t with
  | CT c ch => map (fun x => (c, ct_cat x)) ch
               ++ (fix go (l : list ctree) := match l with [] => [] | x :: r => edges_t x ++ go r end) ch
  end.
Definition edges_of (tr : list ctree) : list (cat * cat) := flat_map edges_t tr.
Definition edges : list (cat * cat) := edges_of documented.     (* (parent, child) pairs of README.md *)

(* desc a c : c is a itself or lies below a in the documented forest *)
Inductive desc : cat -> cat -> Prop :=
| desc_refl : forall a, desc a a
| desc_step : forall a p c, desc a p -> In (p, c) edges -> desc a c.

Definition is_leaf (c : cat) : Prop := forall k, ~ In (c, k) edges.

(* ------------------------------------------------------------------ boolean reflections *)

Lemma cat_beq_true a b : cat_beq a b = true <-> a = b.
Proof. split; [apply internal_cat_dec_bl | apply internal_cat_dec_lb]. Qed.

Lemma cat_beq_refl a : cat_beq a a = true.
Proof. apply cat_beq_true; reflexivity. Qed.

Lemma mem_In c l : mem c l = true <-> In c l.
Proof.
  unfold mem. rewrite existsb_exists. split.
  - intros [x [Hx He]]. apply cat_beq_true in He. subst. exact Hx.
  - intros H. exists c. split; [exact H | apply cat_beq_refl].
Qed.

Lemma mem_false c l : mem c l = false <-> ~ In c l.
Proof.
  rewrite <- mem_In. destruct (mem c l); split; intros H.
  - discriminate.
  - exfalso. apply H. reflexivity.
  - discriminate.
  - reflexivity.
Qed.

Lemma all_cats_complete : forall c, In c all_cats.
Proof. intros c. apply mem_In. destruct c; vm_compute; reflexivity. Qed.

Lemma lift1 (f : cat -> bool) : forallb f all_cats = true -> forall a, f a = true.
Proof. intros H a. rewrite forallb_forall in H. apply H, all_cats_complete. Qed.

Lemma lift2 (f : cat -> cat -> bool) :
  forallb (fun a => forallb (f a) all_cats) all_cats = true -> forall a b, f a b = true.
Proof. intros H a b. apply (lift1 (f a)). apply (lift1 (fun a => forallb (f a) all_cats) H). Qed.

Definition pair_beq (x y : cat * cat) : bool := cat_beq (fst x) (fst y) && cat_beq (snd x) (snd y).
Definition edge_b (p c : cat) : bool := existsb (pair_beq (p, c)) edges.

Lemma edge_b_In p c : edge_b p c = true <-> In (p, c) edges.
Proof.
  unfold edge_b. rewrite existsb_exists. split.
  - intros [[x y] [Hx He]]. unfold pair_beq in He. simpl in He. apply andb_true_iff in He.
    destruct He as [H1 H2]. apply cat_beq_true in H1. apply cat_beq_true in H2. subst. exact Hx.
  - intros H. exists (p, c). split; [exact H|]. unfold pair_beq. simpl. now rewrite !cat_beq_refl.
Qed.

(* everything below a, by breadth-limited unfolding of the edge list *)
Definition kids (a : cat) : list cat := map snd (filter (fun e => cat_beq (fst e) a) edges).
Fixpoint down_n (n : nat) (a : cat) : list cat :=
  match n with O => [a] | S k => a :: flat_map (down_n k) (kids a) end.
Definition down (a : cat) : list cat := down_n 40 a.
Definition desc_b (a c : cat) : bool := mem c (down a).

Lemma kids_edge a k : In k (kids a) <-> In (a, k) edges.
Proof.
  unfold kids. rewrite in_map_iff. split.
  - intros [[p c] [Hs Hf]]. simpl in Hs. subst. apply filter_In in Hf. destruct Hf as [Hi He].
    simpl in He. apply cat_beq_true in He. subst. exact Hi.
  - intros H. exists (a, k). split; [reflexivity|]. apply filter_In. split; [exact H|]. simpl. apply cat_beq_refl.
Qed.

Lemma desc_front a k c : In (a, k) edges -> desc k c -> desc a c.
Proof.
  intros He Hd. induction Hd as [x | x p c Hd IH Hpc].
  - eapply desc_step; [apply desc_refl | exact He].
  - eapply desc_step; [apply IH; exact He | exact Hpc].
Qed.

Lemma down_n_sound n : forall a c, In c (down_n n a) -> desc a c.
Proof.
  induction n as [|n IH]; intros a c H; simpl in H.
  - destruct H as [H|[]]. subst. apply desc_refl.
  - destruct H as [H|H]; [subst; apply desc_refl|].
    apply in_flat_map in H. destruct H as [k [Hk Hc]].
    apply kids_edge in Hk. eapply desc_front; [exact Hk | apply IH; exact Hc].
Qed.

(* [down a] is closed under the edge relation: a finite fact about the generated forest *)
Lemma down_closed_b :
  forallb (fun a => forallb (fun e => implb (mem (fst e) (down a)) (mem (snd e) (down a))) edges) all_cats = true.
Proof. vm_compute. reflexivity. Qed.

Lemma down_closed a p c : In p (down a) -> In (p, c) edges -> In c (down a).
Proof.
  intros Hp He. pose proof (lift1 _ down_closed_b a) as H. rewrite forallb_forall in H.
  specialize (H (p, c) He). cbn [fst snd] in H. apply mem_In in Hp. rewrite Hp in H. cbn [implb] in H. now apply mem_In.
Qed.

Lemma desc_b_spec a c : desc_b a c = true <-> desc a c.
Proof.
  unfold desc_b. rewrite mem_In. split.
  - apply down_n_sound.
  - intros H. induction H as [x | x p c Hd IH Hpc].
    + unfold down. simpl. left. reflexivity.
    + eapply down_closed; eassumption.
Qed.

Lemma desc_trans a b c : desc a b -> desc b c -> desc a c.
Proof.
  intros H1 H2. induction H2 as [x | x p c Hd IH Hpc]; [exact H1|].
  eapply desc_step; [apply IH; exact H1 | exact Hpc].
Qed.

(* ------------------------------------------------------------------ the forest *)

Fixpoint nodup_b (l : list cat) : bool :=
  match l with [] => true | x :: r => negb (mem x r) && nodup_b r end.

Lemma nodup_b_NoDup l : nodup_b l = true -> NoDup l.
Proof.
  induction l as [|x r IH]; simpl; intros H; [constructor|].
  apply andb_true_iff in H. destruct H as [H1 H2]. constructor; [|auto].
  apply negb_true_iff in H1. now apply mem_false.
Qed.

Lemma hierarchy_documented : hierarchy = documented.
Proof. vm_compute. reflexivity. Qed.

Lemma forest_nodup : NoDup all_nodes.
Proof. apply nodup_b_NoDup. vm_compute. reflexivity. Qed.

Lemma forest_complete : forall c, In c all_nodes.
Proof. intros c. apply mem_In. revert c. apply lift1. vm_compute. reflexivity. Qed.

Lemma forest_count : List.length all_nodes = List.length all_cats.
Proof. vm_compute. reflexivity. Qed.

Lemma forest_perm : Permutation all_nodes all_cats.
Proof.
  apply NoDup_Permutation_bis.
  - apply forest_nodup.
  - rewrite forest_count. lia.
  - intros x _. apply all_cats_complete.
Qed.

(* every category has at most one parent in the documented forest *)
Lemma parent_unique : forall p q c, In (p, c) edges -> In (q, c) edges -> p = q.
Proof.
  intros p q c H1 H2. apply edge_b_In in H1. apply edge_b_In in H2.
  assert (H : forallb (fun c => forallb (fun p => forallb (fun q =>
              implb (edge_b p c && edge_b q c) (cat_beq p q)) all_cats) all_cats) all_cats = true)
    by (vm_compute; reflexivity).
  pose proof (lift1 _ H c) as Hc. pose proof (lift1 _ Hc p) as Hp. pose proof (lift1 _ Hp q) as Hq.
  simpl in Hq. rewrite H1, H2 in Hq. simpl in Hq. now apply cat_beq_true.
Qed.

(* ------------------------------------------------------------------ the queries *)

Lemma children_b : forallb (fun p => forallb (fun c => Bool.eqb (mem c (children p)) (edge_b p c)) all_cats) all_cats = true.
Proof. vm_compute. reflexivity. Qed.

Lemma children_spec p c : In c (children p) <-> In (p, c) edges.
Proof.
  rewrite <- mem_In, <- edge_b_In. pose proof (lift2 _ children_b p c) as H. apply eqb_prop in H. now rewrite H.
Qed.

Lemma nodes_b : forallb (fun p => forallb (fun c =>
  Bool.eqb (mem c (nodes p)) (desc_b p c && negb (cat_beq c p))) all_cats) all_cats = true.
Proof. vm_compute. reflexivity. Qed.

Lemma nodes_spec p c : In c (nodes p) <-> desc p c /\ c <> p.
Proof.
  rewrite <- mem_In, <- desc_b_spec. pose proof (lift2 _ nodes_b p c) as H. apply eqb_prop in H. rewrite H.
  rewrite andb_true_iff, negb_true_iff. split; intros [H1 H2]; split; auto.
  - intros E. subst. now rewrite cat_beq_refl in H2.
  - destruct (cat_beq c p) eqn:E; [apply cat_beq_true in E; contradiction | reflexivity].
Qed.

Lemma nodes_nodup_b : forallb (fun p => nodup_b (nodes p)) all_cats = true.
Proof. vm_compute. reflexivity. Qed.

Lemma nodes_nodup p : NoDup (nodes p).
Proof. apply nodup_b_NoDup. apply (lift1 _ nodes_nodup_b). Qed.

Definition leaf_b (c : cat) : bool := negb (existsb (fun e => cat_beq (fst e) c) edges).

Lemma leaf_b_spec c : leaf_b c = true <-> is_leaf c.
Proof.
  unfold leaf_b, is_leaf. rewrite negb_true_iff. split.
  - intros H k Hk. assert (existsb (fun e => cat_beq (fst e) c) edges = true); [|congruence].
    apply existsb_exists. exists (c, k). split; [exact Hk | apply cat_beq_refl].
  - intros H. destruct (existsb _ edges) eqn:E; [|reflexivity].
    apply existsb_exists in E. destruct E as [[p k] [Hi He]]. simpl in He. apply cat_beq_true in He. subst.
    exfalso. exact (H k Hi).
Qed.

Lemma leaves_b : forallb (fun p => forallb (fun c =>
  Bool.eqb (mem c (leaves p)) (desc_b p c && negb (cat_beq c p) && leaf_b c)) all_cats) all_cats = true.
Proof. vm_compute. reflexivity. Qed.

Lemma leaves_spec p c : In c (leaves p) <-> desc p c /\ c <> p /\ is_leaf c.
Proof.
  rewrite <- mem_In, <- desc_b_spec, <- leaf_b_spec. pose proof (lift2 _ leaves_b p c) as H.
  apply eqb_prop in H. rewrite H. rewrite !andb_true_iff, negb_true_iff. split.
  - intros [[H1 H2] H3]. repeat split; auto. intros E. subst. now rewrite cat_beq_refl in H2.
  - intros [H1 [H2 H3]]. repeat split; auto.
    destruct (cat_beq c p) eqn:E; [apply cat_beq_true in E; contradiction | reflexivity].
Qed.

Lemma is_child_b : forallb (fun p => forallb (fun c => Bool.eqb (is_child p c) (desc_b p c)) all_cats) all_cats = true.
Proof. vm_compute. reflexivity. Qed.

Lemma is_child_spec p c : is_child p c = true <-> desc p c.
Proof. rewrite <- desc_b_spec. pose proof (lift2 _ is_child_b p c) as H. apply eqb_prop in H. now rewrite H. Qed.

(* ------------------------------------------------------------------ valid / match for ALL lists *)

Lemma closure1_spec a c : In c (closure1 a) <-> desc a c.
Proof.
  unfold closure1. rewrite in_app_iff, nodes_spec. simpl. split.
  - intros [[H _]|[H|[]]]; [exact H | subst; apply desc_refl].
  - intros H. destruct (cat_beq c a) eqn:E.
    + apply cat_beq_true in E. right. left. now subst.
    + left. split; [exact H|]. intros E'. subst. now rewrite cat_beq_refl in E.
Qed.

Lemma closure_spec l c : In c (closure l) <-> exists a, In a l /\ desc a c.
Proof.
  unfold closure. rewrite in_flat_map. split; intros [a [H1 H2]]; exists a; split; auto; now apply closure1_spec.
Qed.

Definition selected (inc exc : list cat) (c : cat) : Prop :=
  (exists a, In a inc /\ desc a c) /\ ~ (exists b, In b exc /\ desc b c).

Lemma valid_spec inc exc c : In c (valid (Some inc) (Some exc)) <-> selected inc exc c.
Proof.
  unfold valid, selected. rewrite filter_In, negb_true_iff, mem_false, !closure_spec. tauto.
Qed.

Lemma closure_all c : In c (closure all_nodes).
Proof. apply closure_spec. exists c. split; [apply forest_complete | apply desc_refl]. Qed.

Lemma valid_none_include exc c : In c (valid None (Some exc)) <-> ~ (exists b, In b exc /\ desc b c).
Proof.
  unfold valid. rewrite filter_In, negb_true_iff, mem_false, (closure_spec exc). split; [tauto|].
  intros H. split; [apply closure_all | exact H].
Qed.

Lemma valid_none_exclude inc c : In c (valid (Some inc) None) <-> exists a, In a inc /\ desc a c.
Proof.
  unfold valid. rewrite filter_In, closure_spec. simpl. tauto.
Qed.

Lemma valid_none_none c : In c (valid None None).
Proof. unfold valid. rewrite filter_In. simpl. split; [apply closure_all | reflexivity]. Qed.

Lemma valid_none_eq inc exc : canon (valid inc exc) =
  canon (valid (Some (match inc with None => all_nodes | Some l => l end))
               (Some (match exc with None => [] | Some l => l end))).
Proof. destruct inc, exc; reflexivity. Qed.

Lemma matches_spec c inc exc :
  matches c inc exc = true <-> exists d, desc c d /\ In d (valid inc exc).
Proof.
  unfold matches. rewrite existsb_exists. split.
  - intros [d [H1 H2]]. exists d. split; [now apply closure1_spec | now apply mem_In].
  - intros [d [H1 H2]]. exists d. split; [now apply closure1_spec | now apply mem_In].
Qed.

(* sets, lists, tuples and repeated members: only the SET of the arguments matters *)
Definition same_set (l1 l2 : list cat) : Prop := forall c, In c l1 <-> In c l2.

Lemma canon_ext l1 l2 : same_set l1 l2 -> canon l1 = canon l2.
Proof.
  intros H. unfold canon. apply filter_ext. intros c.
  destruct (mem c l1) eqn:E1, (mem c l2) eqn:E2; try reflexivity.
  - apply mem_In, H, mem_In in E1. congruence.
  - apply mem_In, H, mem_In in E2. congruence.
Qed.

Lemma valid_same_set inc inc' exc exc' :
  same_set inc inc' -> same_set exc exc' ->
  canon (valid (Some inc) (Some exc)) = canon (valid (Some inc') (Some exc')).
Proof.
  intros Hi He. apply canon_ext. intros c. rewrite !valid_spec. unfold selected.
  split; intros [[a [Ha Hd]] Hn]; (split; [exists a; split; [apply Hi; exact Ha | exact Hd] |]);
    intros [b [Hb Hbd]]; apply Hn; exists b; (split; [apply He; exact Hb | exact Hbd]).
Qed.

Lemma canon_In l c : In c (canon l) <-> In c l.
Proof.
  unfold canon. rewrite filter_In, mem_In. split; [tauto|]. intros H. split; [apply all_cats_complete | exact H].
Qed.

(* include = all / exclude = nothing selects every category *)
Lemma valid_all_identity : canon (valid None None) = all_cats.
Proof. vm_compute. reflexivity. Qed.

(* non-vacuity: the relation is not trivial *)
Example desc_example : desc CORE PITCH /\ ~ desc PITCH CORE /\ ~ desc SIGNATURES PITCH.
Proof.
  repeat split.
  - apply desc_b_spec. vm_compute. reflexivity.
  - intros H. apply desc_b_spec in H. vm_compute in H. discriminate.
  - intros H. apply desc_b_spec in H. vm_compute in H. discriminate.
Qed.
