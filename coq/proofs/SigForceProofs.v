(* C08 / C10: the signatures "in force" at a node.  Every node of an imported document carries a dictionary
   class name -> node id (SignatureNodes).  Invariant proved here for EVERY text that imports: the dictionary of a
   header or '!!' node is empty, the dictionary of any other node is its parent's, with the node itself entered under
   its class when it is a signature token.  Hence (sig_in_force) a dictionary entry is always the NEAREST signature of
   that class on the path from the node up to its header - what the excerpt preamble re-emits. *)
From Coq Require Import List String Ascii Bool Arith Lia.
From KV Require Import Strings CatGen Cat Token SpineImpGen SpineImp KernTok Importer Exporter TreeProofs ErrorProofs HeaderSelfProofs.
Import ListNotations.
Open Scope list_scope.

(* ---- what the recogniser builds: a signature class always comes with a signature category (never BARLINES, never
        under CORE, so a signature cell never "opens a measure"), and never the classes of '!!' lines or headers *)
Definition sig_registers (t : token) : bool :=
  is_signature_token t && negb (cat_beq (tok_cat t) BARLINES) && negb (is_child CORE (tok_cat t)).
Definition starts_empty (t : token) : bool :=
  match t with THeader _ _ => true | TSimple _ _ cls => String.eqb cls "MetacommentToken" | _ => false end.
Definition tok_cell_ok (t : token) : bool :=
  negb (starts_empty t) && implb (is_signature_token t) (sig_registers t).
Definition kres_c (r : kres) : bool := match r with KTok t => tok_cell_ok t | KOut => true end.

Lemma scan_barline_c s : kres_c (scan_barline s) = true.
Proof. unfold scan_barline. break_all; reflexivity. Qed.
Lemma scan_clef_c s l : kres_c (scan_clef s l) = true.
Proof. unfold scan_clef, simple. break_all; reflexivity. Qed.
Lemma scan_interpretation_c s : kres_c (scan_interpretation s) = true.
Proof.
  unfold scan_interpretation, simple. cbv zeta.
  repeat match goal with
         | |- kres_c (scan_clef _ _) = true => apply scan_clef_c
         | |- kres_c (if ?b then _ else _) = true => destruct b
         | |- kres_c (match ?x with _ => _ end) = true => destruct x
         | |- kres_c (KTok _) = true => reflexivity
         | |- kres_c KOut = true => reflexivity
         end.
Qed.
Lemma scan_notes_c s : kres_c (scan_notes s) = true.
Proof. unfold scan_notes. cbv zeta. destruct (scan_elements _ _ _) as [[els st]|]; [|reflexivity]. destruct els as [|e [|e2 r]]; reflexivity. Qed.
Lemma kern_recognise_c s : kres_c (kern_recognise s) = true.
Proof.
  unfold kern_recognise. destruct s as [|c s']; [reflexivity|].
  destruct (String.eqb _ "."); [reflexivity|]. destruct (Ascii.eqb c "*"); [apply scan_interpretation_c|].
  destruct (Ascii.eqb c "="); [apply scan_barline_c | apply scan_notes_c].
Qed.

Lemma import_cell_c bad h s t : import_cell bad h s = RTok t -> tok_cell_ok t = true.
Proof.
  unfold import_cell. destruct (String.eqb s ""); [discriminate|].
  pose proof (kern_recognise_c s) as K.
  destruct (mem_str s bad).
  - unfold import_token. destruct (import_kind _ _ _ _ _) as [e|[c [t'|]]|txt c] eqn:E; try discriminate.
    + exfalso. unfold import_kind in E. destruct (kind_of_header h); try discriminate; destruct (String.eqb s ""); discriminate.
    + intros H. injection H as <-. reflexivity.
  - destruct (kern_recognise s) as [t0|] eqn:Ek.
    + unfold import_token. destruct (import_kind _ _ _ _ _) as [e|[c [t'|]]|txt c] eqn:E; try discriminate.
      * intros H. injection H as <-. unfold import_kind in E.
        destruct (kind_of_header h); try discriminate; destruct (String.eqb s ""); try discriminate.
        -- injection E as _ <-. exact K.
        -- injection E as _ <-. exact K.
        -- destruct (if negated then _ else _); [discriminate|]. injection E as _ <-. exact K.
      * intros H. injection H as <-. reflexivity.
    + destruct (oracle_cat bad s) as [c0|]; [|discriminate].
      unfold import_token. destruct (import_kind _ _ _ _ _) as [e|[c [t'|]]|txt c] eqn:E; try discriminate.
      * exfalso. unfold import_kind in E. destruct (kind_of_header h); try discriminate; destruct (String.eqb s ""); try discriminate.
        destruct (if negated then _ else _); discriminate.
      * intros H. injection H as <-. reflexivity.
Qed.

Lemma sig_not_bbox t : is_signature_token t = true -> String.eqb (tok_class t) "BoundingBoxToken" = false.
Proof.
  unfold is_signature_token, signature_classes. cbn [mem_str existsb].
  intros H. repeat (apply orb_true_iff in H; destruct H as [H|H]); try discriminate;
    apply String.eqb_eq in H; rewrite <- H || rewrite H; reflexivity.
Qed.

(* ---- the dictionary each node should carry *)
Definition sigs_of (t : token) (id : nat) (parent_sigs : list (string * nat)) : list (string * nat) :=
  if starts_empty t then []
  else if is_signature_token t then dict_set (tok_class t) id parent_sigs else parent_sigs.

Definition sig_inv (d : doc) : Prop :=
  (n_sigs (get_node d 0) = [] /\ n_tok (get_node d 0) = None) /\
  (forall i, 0 < i -> i < List.length (d_nodes d) -> n_tok (get_node d i) <> None) /\
  forall i p t, i < List.length (d_nodes d) -> n_parent (get_node d i) = Some p -> n_tok (get_node d i) = Some t ->
    n_sigs (get_node d i) = sigs_of t i (n_sigs (get_node d p)).

Lemma sig_inv_empty : sig_inv empty_doc.
Proof.
  split; [split; reflexivity|]. split.
  - intros i H0 Hi. cbn in Hi. lia.
  - intros i p t Hi. cbn in Hi. assert (i = 0) by lia. subst. discriminate.
Qed.

Definition same_nodes_sig (d d' : doc) : Prop :=
  List.length (d_nodes d') = List.length (d_nodes d) /\
  forall i, core (get_node d' i) = core (get_node d i) /\ n_sigs (get_node d' i) = n_sigs (get_node d i).

Lemma sig_inv_same d d' : same_nodes_sig d d' -> sig_inv d -> sig_inv d'.
Proof.
  intros [L H] [[R R0] [K Hd]]. split; [|split].
  - destruct (H 0) as [C ->]. unfold core in C. injection C as _ _ Et _ _. rewrite Et. split; assumption.
  - intros i H0 Hi. rewrite L in Hi. destruct (H i) as [C _]. unfold core in C. injection C as _ _ Et _ _. rewrite Et. exact (K i H0 Hi).
  - intros i p t Hi Hp Ht. rewrite L in Hi. destruct (H i) as [C Hs]. unfold core in C. injection C as _ _ Et Ep _.
    rewrite Ep in Hp. rewrite Et in Ht. rewrite Hs. destruct (H p) as [_ ->]. exact (Hd i p t Hi Hp Ht).
Qed.

Lemma sig_same_refl d : same_nodes_sig d d. Proof. split; [reflexivity | intros i; split; reflexivity]. Qed.
Lemma sig_same_cancel d a b : same_nodes_sig d (set_cancelled d a b). Proof. split; [reflexivity | intros i; split; reflexivity]. Qed.
Lemma sig_same_error d id : same_nodes_sig d (add_error d id). Proof. split; [reflexivity | intros i; split; reflexivity]. Qed.
Lemma sig_same_hstage d st : same_nodes_sig d (set_header_stage d st). Proof. split; [reflexivity | intros i; split; reflexivity]. Qed.
Lemma sig_same_mst d st : same_nodes_sig d (push_mst d st). Proof. split; [reflexivity | intros i; split; reflexivity]. Qed.
Lemma sig_same_trans a b c : same_nodes_sig a b -> same_nodes_sig b c -> same_nodes_sig a c.
Proof.
  intros [L1 H1] [L2 H2]. split; [congruence|]. intros i. destruct (H1 i) as [A1 B1]. destruct (H2 i) as [A2 B2]. split; congruence.
Qed.
Lemma sig_same_header_self d id : same_nodes_sig d (set_header_self d id).
Proof.
  split; [simpl; apply update_nth_length|]. intros i. unfold set_header_self, get_node. simpl.
  destruct (Nat.eq_dec id i) as [->|Hne].
  - destruct (Nat.lt_ge_cases i (List.length (d_nodes d))) as [Hl|Hl].
    + rewrite nth_update_nth_eq by exact Hl. split; reflexivity.
    + rewrite !nth_overflow; [split; reflexivity | exact Hl | rewrite update_nth_length; exact Hl].
  - rewrite nth_update_nth_neq by exact Hne. split; reflexivity.
Qed.
Ltac sig_same := first [apply sig_same_cancel | apply sig_same_error | apply sig_same_hstage | apply sig_same_mst
                        | apply sig_same_header_self | apply sig_same_refl].

(* add_node: the new node gets the dictionary passed in, the old nodes keep theirs *)
Lemma add_node_sigs d st p t lo sg h d' id : add_node d st p t lo sg h = IOk (d', id) ->
  n_sigs (get_node d' id) = sg /\ forall i, i < id -> n_sigs (get_node d' i) = n_sigs (get_node d i).
Proof.
  unfold add_node. destruct (Nat.ltb (List.length (d_stages d)) st); [discriminate|].
  intros H. injection H as <- <-. unfold get_node. cbn [set_stages set_nodes d_nodes]. split.
  - rewrite app_nth2; rewrite update_nth_length; [|lia]. now rewrite Nat.sub_diag.
  - intros i Hi. rewrite app_nth1 by (rewrite update_nth_length; exact Hi).
    destruct (Nat.eq_dec p i) as [->|Hne].
    + rewrite nth_update_nth_eq by exact Hi. reflexivity.
    + rewrite nth_update_nth_neq by exact Hne. reflexivity.
Qed.

Lemma get_sig_update d id c i : n_sigs (get_node (sig_update d id c) i) =
  if Nat.eqb i id && Nat.ltb i (List.length (d_nodes d)) then dict_set c id (n_sigs (get_node d i)) else n_sigs (get_node d i).
Proof.
  unfold sig_update, get_node. cbn [set_nodes d_nodes].
  destruct (Nat.eqb i id) eqn:E.
  - apply Nat.eqb_eq in E. subst. destruct (Nat.ltb id (List.length (d_nodes d))) eqn:L; cbn [andb].
    + apply Nat.ltb_lt in L. rewrite nth_update_nth_eq by exact L. reflexivity.
    + apply Nat.ltb_ge in L. rewrite !nth_overflow; [reflexivity | exact L | rewrite update_nth_length; exact L].
  - apply Nat.eqb_neq in E. cbn [andb]. rewrite nth_update_nth_neq by lia. reflexivity.
Qed.

(* one new node [id] on top of a document that satisfies the invariant *)
Lemma sig_inv_extend d d' id p t : tree_ok d -> sig_inv d -> id = List.length (d_nodes d) -> List.length (d_nodes d') = S id ->
  (forall i, i < id -> core (get_node d' i) = core (get_node d i) /\ n_sigs (get_node d' i) = n_sigs (get_node d i)) ->
  n_parent (get_node d' id) = Some p -> p < id -> n_tok (get_node d' id) = Some t ->
  n_sigs (get_node d' id) = sigs_of t id (n_sigs (get_node d p)) -> sig_inv d'.
Proof.
  intros T [[R R0] [K Hd]] Eid El Hold Hp Hlt Ht Hs. split; [|split].
  - destruct (Hold 0 ltac:(lia)) as [C ->]. unfold core in C. injection C as _ _ Et _ _. rewrite Et. split; assumption.
  - intros i H0 Hi. rewrite El in Hi. destruct (Nat.eq_dec i id) as [->|Hne]; [rewrite Ht; discriminate|].
    destruct (Hold i ltac:(lia)) as [C _]. unfold core in C. injection C as _ _ Et _ _. rewrite Et. apply K; lia.
  - intros i q u Hi Hq Hu. rewrite El in Hi.
    destruct (Nat.eq_dec i id) as [->|Hne].
    + rewrite Hp in Hq. injection Hq as <-. rewrite Ht in Hu. injection Hu as <-. rewrite Hs.
      destruct (Hold p Hlt) as [_ ->]. reflexivity.
    + assert (Hi' : i < id) by lia. destruct (Hold i Hi') as [C Hsi]. unfold core in C. injection C as _ _ Et Ep _.
      rewrite Ep in Hq. rewrite Et in Hu. rewrite Hsi.
      assert (Hil : i < List.length (d_nodes d)) by lia.
      destruct (t_parent d T i q Hil Hq) as [Hqi _].
      destruct (Hold q ltac:(lia)) as [_ ->]. exact (Hd i q u Hil Hq Hu).
Qed.

Lemma sig_inv_add d st p t lo h d' id : tree_ok d -> sig_inv d -> p < List.length (d_nodes d) ->
  add_node d st p t lo (sigs_of t (List.length (d_nodes d)) (n_sigs (get_node d p))) h = IOk (d', id) -> sig_inv d'.
Proof.
  intros T Hd Hp Ha.
  destruct (add_node_spec _ _ _ _ _ _ _ _ _ T Hp Ha) as [Eid [El [_ [Epar [Et [_ [_ [_ Hold]]]]]]]].
  destruct (add_node_sigs _ _ _ _ _ _ _ _ _ Ha) as [Snew Sold].
  eapply sig_inv_extend; [exact T | exact Hd | exact Eid | exact El | | exact Epar | lia | exact Et | ].
  - intros i Hi. split; [apply (Hold i Hi) | apply (Sold i Hi)].
  - rewrite Snew, Eid. reflexivity.
Qed.

Lemma step_cell_sig bad row s icol col s' b : state_ok s -> sig_inv (i_doc s) -> step_cell bad row s icol col = IOk (s', b) -> sig_inv (i_doc s').
Proof.
  intros [T Hn Hp Hh] Hd. unfold step_cell.
  destruct (startswith "**" col).
  - destruct (add_node _ _ _ _ _ _ _) as [[d1 id]| |] eqn:Ha; try discriminate.
    assert (T0 : tree_ok (set_header_stage (i_doc s) (i_stage s))) by (eapply tree_ok_same_links; [apply links_set_header_stage | exact T]).
    assert (Hd0 : sig_inv (set_header_stage (i_doc s) (i_stage s))) by (eapply sig_inv_same; [sig_same | exact Hd]).
    intros H. injection H as <- <-. unfold push_next, set_doc. cbn [i_doc].
    eapply sig_inv_same; [apply sig_same_header_self|].
    eapply (sig_inv_add _ _ _ (THeader col icol)); [exact T0 | exact Hd0 | exact Hh | exact Ha].
  - destruct (mem_str col spine_operations).
    + destruct (i_prev s) as [prev|] eqn:Ep; [|discriminate].
      destruct (Nat.leb _ icol); [discriminate|].
      assert (Hpar : nth icol prev 0 < List.length (d_nodes (i_doc s))) by (apply nth_ids_ok; [assumption | apply T]).
      destruct (add_node _ _ _ _ _ _ _) as [[d1 id]| |] eqn:Ha; try discriminate.
      assert (H1 : sig_inv d1) by (eapply (sig_inv_add _ _ _ (TSimple col SPINE_OPERATION "SpineOperationToken")); [exact T | exact Hd | exact Hpar | exact Ha]).
      assert (Gen : forall d2, same_nodes_sig d1 d2 -> sig_inv d2) by (intros d2 S2; eapply sig_inv_same; eassumption).
      destruct (String.eqb col "*-").
      { intros H. injection H as <- <-. unfold set_doc. cbn [i_doc]. apply Gen. destruct (n_lastop _); sig_same. }
      destruct (String.eqb col "*+" || String.eqb col "*^").
      { intros H. injection H as <- <-. exact H1. }
      destruct (String.eqb col "*v"); [|discriminate].
      intros H. injection H as <- <-.
      destruct (match icol with O => true | S _ => _ end); unfold push_next, set_doc; cbn [i_doc]; apply Gen; destruct (n_lastop _); sig_same.
    + match goal with |- context [match ?X with IOk _ => _ | IErr _ => _ | IOut => _ end = _] => destruct X as [[tok is_err]| |] eqn:Etok end;
        try discriminate.
      destruct (i_prev s) as [prev|] eqn:Ep; [|discriminate].
      destruct (Nat.leb _ icol) eqn:Eleb; [discriminate|].
      assert (Hpar : nth icol prev 0 < List.length (d_nodes (i_doc s))) by (apply nth_ids_ok; [assumption | apply T]).
      assert (Hc : tok_cell_ok tok = true /\ (is_err = true -> is_signature_token tok = false)).
      { destruct (startswith "!" col).
        - injection Etok as <- <-. split; [reflexivity | discriminate].
        - destruct (n_header _) as [hid|]; [|discriminate].
          destruct (import_cell bad _ col) as [t| |] eqn:Ei; try discriminate.
          + injection Etok as <- <-. split; [exact (import_cell_c _ _ _ _ Ei) | discriminate].
          + injection Etok as <- <-. split; reflexivity. }
      destruct Hc as [Hc Herr].
      destruct (add_node _ _ _ _ _ _ _) as [[d1 id]| |] eqn:Ha; try discriminate.
      destruct (add_node_spec _ _ _ _ _ _ _ _ _ T Hpar Ha) as [Eid [El [_ [Epar [Et [_ [_ [_ Hold]]]]]]]].
      destruct (add_node_sigs _ _ _ _ _ _ _ _ _ Ha) as [Snew Sold].
      intros H. injection H as <- <-. unfold push_next, set_doc. cbn [i_doc].
      set (d2 := if is_err then add_error d1 id else d1).
      assert (S2 : same_nodes_sig d1 d2) by (unfold d2; destruct is_err; sig_same).
      destruct S2 as [L2 H2].
      unfold tok_cell_ok in Hc. apply andb_true_iff in Hc. destruct Hc as [Hse Himp]. apply negb_true_iff in Hse.
      set (pn := nth icol prev 0) in *.
      destruct (is_signature_token tok) eqn:Esig.
      * (* a signature: it never opens a measure, is no bounding box, and is entered into its own dictionary *)
        cbn [implb] in Himp. unfold sig_registers in Himp. rewrite Esig in Himp. cbn [andb] in Himp.
        apply andb_true_iff in Himp. destruct Himp as [Hb Hcore]. apply negb_true_iff in Hb. apply negb_true_iff in Hcore.
        rewrite Hb, Hcore. cbn [orb andb]. rewrite (sig_not_bbox _ Esig).
        eapply (sig_inv_extend (i_doc s) _ id pn tok); [exact T | exact Hd | exact Eid | | | | | | ].
        -- destruct (links_sig_update d2 id (tok_class tok)) as [L3 _]. rewrite L3, L2. exact El.
        -- intros i Hi. destruct (links_sig_update d2 id (tok_class tok)) as [_ H3]. destruct (H3 i) as [C3 _].
           destruct (H2 i) as [C2 Sg2]. destruct (Hold i Hi) as [C1 _]. split; [congruence|].
           rewrite get_sig_update. replace (Nat.eqb i id) with false by (symmetry; apply Nat.eqb_neq; lia). cbn [andb].
           rewrite Sg2. apply (Sold i Hi).
        -- destruct (links_sig_update d2 id (tok_class tok)) as [_ H3]. destruct (H3 id) as [C3 _]. destruct (H2 id) as [C2 _].
           unfold core in C3, C2. injection C3 as _ _ _ E3 _. injection C2 as _ _ _ E2 _. rewrite E3, E2. exact Epar.
        -- rewrite Eid. exact Hpar.
        -- destruct (links_sig_update d2 id (tok_class tok)) as [_ H3]. destruct (H3 id) as [C3 _]. destruct (H2 id) as [C2 _].
           unfold core in C3, C2. injection C3 as _ _ E3 _ _. injection C2 as _ _ E2 _ _. rewrite E3, E2. exact Et.
        -- rewrite get_sig_update, Nat.eqb_refl. rewrite L2, El.
           replace (Nat.ltb id (S id)) with true by (symmetry; apply Nat.ltb_lt; lia). cbn [andb].
           destruct (H2 id) as [_ ->]. rewrite Snew. unfold sigs_of. rewrite Hse, Esig. reflexivity.
      * (* not a signature: the dictionary of the parent, whatever else happens to the document *)
        assert (E3 : (if cat_beq (tok_cat tok) BARLINES || is_child CORE (tok_cat tok) && Nat.eqb (List.length (d_mst d2)) 0 then d2
                      else if String.eqb (tok_class tok) "BoundingBoxToken" then d2
                      else if false then sig_update d2 id (tok_class tok) else d2) = d2).
        { destruct (cat_beq _ _ || _); [reflexivity|]. destruct (String.eqb _ _); reflexivity. }
        rewrite E3.
        eapply (sig_inv_extend (i_doc s) _ id pn tok); [exact T | exact Hd | exact Eid | | | | | | ].
        -- rewrite L2. exact El.
        -- intros i Hi. destruct (H2 i) as [C2 Sg2]. destruct (Hold i Hi) as [C1 _]. split; [congruence|]. rewrite Sg2. apply (Sold i Hi).
        -- destruct (H2 id) as [C2 _]. unfold core in C2. injection C2 as _ _ _ E2 _. rewrite E2. exact Epar.
        -- rewrite Eid. exact Hpar.
        -- destruct (H2 id) as [C2 _]. unfold core in C2. injection C2 as _ _ E2 _ _. rewrite E2. exact Et.
        -- destruct (H2 id) as [_ ->]. rewrite Snew. unfold sigs_of. rewrite Hse, Esig. reflexivity.
Qed.

Lemma step_cells_sig bad row : forall cols s icol bar s' b, state_ok s -> sig_inv (i_doc s) ->
  step_cells bad row s icol cols bar = IOk (s', b) -> sig_inv (i_doc s').
Proof.
  induction cols as [|c cols IH]; intros s icol bar s' b Hs Hd; simpl.
  - intros H. injection H as <- <-. exact Hd.
  - destruct (step_cell bad row s icol c) as [[s1 b1]| |] eqn:Hc; try discriminate.
    intros H. eapply IH; [eapply step_cell_ok; eassumption | eapply step_cell_sig; eassumption | exact H].
Qed.

Lemma step_row_sig bad s row s' : state_ok s -> sig_inv (i_doc s) -> step_row bad s row = IOk s' -> sig_inv (i_doc s').
Proof.
  intros Hs Hd. pose proof Hs as [T Hn Hp Hh]. unfold step_row. destruct row as [|first rest].
  - intros H. injection H as <-. exact Hd.
  - set (prev := match i_next s with [] => i_prev s | n :: l0 => Some (n :: l0) end).
    assert (Hprev : match prev with Some l => ids_ok (i_doc s) l | None => True end).
    { unfold prev. destruct (i_next s) eqn:E; [exact Hp | exact Hn]. }
    clearbody prev.
    destruct (startswith "!!" first).
    + destruct (add_node _ _ _ _ _ _ _) as [[d1 id]| |] eqn:Ha; try discriminate. cbn [i_doc i_prehdr] in Ha.
      intros H. injection H as <-. cbn [i_doc].
      eapply (sig_inv_add _ _ _ (TSimple (strip first) LINE_COMMENTS "MetacommentToken")); [exact T | exact Hd | exact Hh | exact Ha].
    + match goal with |- context [step_cells bad ?r ?s0 0 ?r false] =>
        assert (Hs0 : state_ok s0) by (apply state_ok_intro; [exact T | apply ids_ok_nil | exact Hprev | exact Hh]);
        assert (Hd0 : sig_inv (i_doc s0)) by exact Hd;
        destruct (step_cells bad r s0 0 r false) as [[s1 bar]| |] eqn:Hc end; try discriminate.
      pose proof (step_cells_sig _ _ _ _ _ _ _ _ Hs0 Hd0 Hc) as H1.
      intros H. injection H as <-. cbn [i_doc]. destruct bar; [eapply sig_inv_same; [sig_same | exact H1] | exact H1].
Qed.

Theorem run_rows_sig bad : forall rows s s', state_ok s -> sig_inv (i_doc s) -> run_rows bad s rows = IOk s' -> sig_inv (i_doc s').
Proof.
  induction rows as [|r rows IH]; intros s s' Hs Hd; simpl; [intros H; injection H as <-; exact Hd|].
  destruct (step_row bad s r) as [s1| |] eqn:Hr; try discriminate.
  intros H. eapply IH; [eapply step_row_ok; eassumption | eapply step_row_sig; eassumption | exact H].
Qed.

Theorem loads_sig_inv bad text d : loads bad text = IOk d -> sig_inv d.
Proof.
  unfold loads. destruct (run_rows bad init_state (rows_of_text text)) as [s| |] eqn:H; try discriminate.
  intros E. injection E as <-. exact (run_rows_sig _ _ _ _ init_state_ok sig_inv_empty H).
Qed.

(* ---- reading the dictionary: an entry is the NEAREST signature of its class on the way up to the header *)
Lemma lookup_dict_set cls k v l : assoc_str cls (dict_set k v l) = if String.eqb cls k then Some v else assoc_str cls l.
Proof.
  induction l as [|[k' v'] r IH]; cbn [dict_set assoc_str]; [reflexivity|].
  destruct (String.eqb k k') eqn:Ekk; cbn [assoc_str].
  - apply String.eqb_eq in Ekk. subst k'. destruct (String.eqb cls k); reflexivity.
  - destruct (String.eqb cls k') eqn:Eck'.
    + apply String.eqb_eq in Eck'. subst k'. rewrite String.eqb_sym in Ekk. rewrite Ekk. reflexivity.
    + exact IH.
Qed.

(* [is_sig_of cls t]: the token is a signature of class cls *)
Definition is_sig_of (cls : string) (t : token) : bool :=
  negb (starts_empty t) && is_signature_token t && String.eqb cls (tok_class t).

(* the walk from node i towards the root: [path_to d a i] holds when a is i or an ancestor of i and no node strictly
   below a on that walk is a signature of class cls or starts an empty dictionary (header, '!!' line) *)
Inductive clear_path (d : doc) (cls : string) (a : nat) : nat -> Prop :=
| cp_self : clear_path d cls a a
| cp_up i p t : n_parent (get_node d i) = Some p -> n_tok (get_node d i) = Some t ->
                starts_empty t = false -> is_sig_of cls t = false -> clear_path d cls a p -> clear_path d cls a i.

Theorem sig_in_force d : tree_ok d -> sig_inv d -> forall i, i < List.length (d_nodes d) -> forall cls sid,
  assoc_str cls (n_sigs (get_node d i)) = Some sid ->
  clear_path d cls sid i /\ exists t, n_tok (get_node d sid) = Some t /\ is_sig_of cls t = true.
Proof.
  intros T [[R R0] [K Hd]] i. induction i as [i IH] using lt_wf_ind. intros Hi cls sid Hl.
  destruct (Nat.eq_dec i 0) as [->|H0]; [rewrite R in Hl; discriminate|].
  destruct (n_parent (get_node d i)) as [p|] eqn:Ep; [|exfalso; exact (t_hasparent d T i ltac:(lia) Hi Ep)].
  destruct (n_tok (get_node d i)) as [t|] eqn:Et; [|exfalso; exact (K i ltac:(lia) Hi Et)].
  destruct (t_parent d T i p Hi Ep) as [Hpi _].
  rewrite (Hd i p t Hi Ep Et) in Hl. unfold sigs_of in Hl.
  destruct (starts_empty t) eqn:Ese; [discriminate|].
  destruct (is_signature_token t) eqn:Esig.
  - rewrite lookup_dict_set in Hl. destruct (String.eqb cls (tok_class t)) eqn:Ec.
    + injection Hl as <-. split; [apply cp_self|]. exists t. split; [exact Et|]. unfold is_sig_of. rewrite Ese, Esig, Ec. reflexivity.
    + destruct (IH p Hpi ltac:(lia) cls sid Hl) as [P Q]. split; [|exact Q].
      eapply cp_up; [exact Ep | exact Et | exact Ese | | exact P]. unfold is_sig_of. rewrite Ec. apply andb_false_r.
  - destruct (IH p Hpi ltac:(lia) cls sid Hl) as [P Q]. split; [|exact Q].
    eapply cp_up; [exact Ep | exact Et | exact Ese | | exact P]. unfold is_sig_of. rewrite Esig. rewrite andb_false_r. reflexivity.
Qed.

(* and conversely: a signature of class cls reached by a clear path IS the entry *)
Theorem sig_in_force_complete d : tree_ok d -> sig_inv d -> forall cls a i, clear_path d cls a i -> 0 < a ->
  i < List.length (d_nodes d) -> forall t, n_tok (get_node d a) = Some t -> is_sig_of cls t = true ->
  assoc_str cls (n_sigs (get_node d i)) = Some a.
Proof.
  intros T [[R R0] [K Hd]] cls a i P Ha. induction P as [|i p u Ep Eu Ese Hns P IH]; intros Hi t Et Hs.
  - unfold is_sig_of in Hs. apply andb_true_iff in Hs. destruct Hs as [Hs Hc]. apply andb_true_iff in Hs. destruct Hs as [Hse Hsig].
    apply negb_true_iff in Hse.
    destruct (n_parent (get_node d a)) as [p|] eqn:Ep.
    + rewrite (Hd a p t Hi Ep Et). unfold sigs_of. rewrite Hse, Hsig. rewrite lookup_dict_set, Hc. reflexivity.
    + exfalso. exact (t_hasparent d T a Ha Hi Ep).
  - destruct (t_parent d T i p Hi Ep) as [Hpi _].
    rewrite (Hd i p u Hi Ep Eu). unfold sigs_of. rewrite Ese.
    unfold is_sig_of in Hns. rewrite Ese in Hns. cbn [negb andb] in Hns.
    destruct (is_signature_token u) eqn:Esig.
    + cbn [andb] in Hns. rewrite lookup_dict_set, Hns. apply (IH ltac:(lia) t Et Hs).
    + apply (IH ltac:(lia) t Et Hs).
Qed.

(* for every text that imports *)
Theorem loads_sig_in_force bad text d : loads bad text = IOk d -> forall i, i < List.length (d_nodes d) -> forall cls sid,
  assoc_str cls (n_sigs (get_node d i)) = Some sid <->
  (0 < sid /\ clear_path d cls sid i /\ exists t, n_tok (get_node d sid) = Some t /\ is_sig_of cls t = true).
Proof.
  intros HL i Hi cls sid. pose proof (loads_tree_ok _ _ _ HL) as T. pose proof (loads_sig_inv _ _ _ HL) as S. split.
  - intros Hl. destruct (sig_in_force d T S i Hi cls sid Hl) as [P [t [Et Hs]]]. split; [|split; [exact P | exists t; split; assumption]].
    destruct (Nat.eq_dec sid 0) as [->|H0]; [|lia]. exfalso. destruct S as [[_ R0] _]. rewrite R0 in Et. discriminate.
  - intros [H0 [P [t [Et Hs]]]]. exact (sig_in_force_complete d T S cls sid i P H0 Hi t Et Hs).
Qed.

(* ---- the exporter side: the signature block of an excerpt, column by column *)
Fixpoint sig_column_of (d : doc) (o : opts) (fs ts id : nat) (entries : list (string * nat)) : res (list string) :=
  match entries with
  | [] => Ok []
  | kv :: r =>
    if sig_cancelled (S (ts - fs)) d (node_class d (snd kv)) id fs ts then sig_column_of d o fs ts id r
    else match export_node d o (snd kv) with
         | Err e => Err e
         | Ok c => match sig_column_of d o fs ts id r with Err e => Err e | Ok l => Ok (c :: l) end
         end
  end.
Definition sig_column (d : doc) (o : opts) (fs ts id : nat) : res (list string) :=
  sig_column_of d o fs ts id (n_sigs (get_node d id)).

Definition per_node_step (d : doc) (o : opts) (fs ts id : nat) :=
  fun (acc : res (list string)) (kv : string * nat) =>
      match acc with
      | Err e => Err e
      | Ok l =>
        let sid := snd kv in
        if sig_cancelled (S (ts - fs)) d (node_class d sid) id fs ts then Ok l
        else match export_node d o sid with Err e => Err e | Ok c => Ok (l ++ [c]) end
      end.

Lemma per_node_err d o fs ts id entries e : fold_left (per_node_step d o fs ts id) entries (Err e) = Err e.
Proof. induction entries as [|kv r IH]; [reflexivity | exact IH]. Qed.

Lemma per_node_fold d o fs ts id : forall entries acc,
  fold_left (per_node_step d o fs ts id) entries (Ok acc) =
  match sig_column_of d o fs ts id entries with Ok l => Ok (acc ++ l) | Err e => Err e end.
Proof.
  induction entries as [|kv r IH]; intros acc; cbn [fold_left sig_column_of].
  - now rewrite app_nil_r.
  - unfold per_node_step at 2. cbv zeta. destruct (sig_cancelled _ _ _ _ _ _); [apply IH|].
    destruct (export_node d o (snd kv)) as [c|e]; [|apply per_node_err].
    rewrite IH. destruct (sig_column_of d o fs ts id r) as [l|e]; [|reflexivity]. now rewrite <- app_assoc.
Qed.

(* a column = the exports of the node's dictionary entries, in dictionary order, minus those replaced by a new signature
   of the same class before the first note of the excerpt *)
Lemma sig_column_spec d o fs ts id : forall entries l, sig_column_of d o fs ts id entries = Ok l ->
  Forall2 (fun c kv => export_node d o (snd kv) = Ok c) l
          (filter (fun kv => negb (sig_cancelled (S (ts - fs)) d (node_class d (snd kv)) id fs ts)) entries).
Proof.
  induction entries as [|kv r IH]; intros l; cbn [sig_column_of filter].
  - intros H. injection H as <-. constructor.
  - destruct (sig_cancelled _ _ _ _ _ _); cbn [negb]; [apply IH|].
    destruct (export_node d o (snd kv)) as [c|e] eqn:Ec; [|discriminate].
    destruct (sig_column_of d o fs ts id r) as [l'|e]; [|discriminate].
    intros H. injection H as <-. constructor; [exact Ec | apply IH; reflexivity].
Qed.

Definition cols_step (d : doc) (o : opts) (fs ts : nat) :=
  fun (acc : res (list (list string))) id =>
      match acc with
      | Err e => Err e
      | Ok cs =>
        match sig_column d o fs ts id with
        | Err e => Err e
        | Ok [] => Ok cs
        | Ok l => match cs with
                  | [] => Ok [l]
                  | c0 :: _ => if Nat.eqb (List.length c0) (List.length l) then Ok (cs ++ [l])
                               else Err "Exception:signature-mismatch"%string
                  end
        end
      end.

Definition nonempty {A} (l : list A) : bool := match l with [] => false | _ => true end.

Lemma cols_err d o fs ts ids e : fold_left (cols_step d o fs ts) ids (Err e) = Err e.
Proof. induction ids as [|i r IH]; [reflexivity | exact IH]. Qed.

Lemma cols_fold d o fs ts : forall ids cs cs', fold_left (cols_step d o fs ts) ids (Ok cs) = Ok cs' ->
  (forall c, In c cs -> List.length c = List.length (hd [] cs)) ->
  exists cols, Forall2 (fun id col => sig_column d o fs ts id = Ok col) ids cols /\
               cs' = cs ++ filter nonempty cols /\
               (forall c, In c cs' -> List.length c = List.length (hd [] cs')).
Proof.
  induction ids as [|id r IH]; intros cs cs'; cbn [fold_left].
  - intros H Hl. injection H as <-. exists []. split; [constructor|]. split; [now rewrite app_nil_r | exact Hl].
  - unfold cols_step at 2. destruct (sig_column d o fs ts id) as [col|e] eqn:Ec; [|rewrite cols_err; discriminate].
    destruct col as [|x col].
    + intros H Hl. destruct (IH cs cs' H Hl) as [cols [F [E L]]]. exists ([] :: cols). split; [constructor; assumption|]. split; assumption.
    + destruct cs as [|c0 cs0].
      * intros H _. destruct (IH [x :: col] cs' H) as [cols [F [E L]]].
        { intros c [<-|[]]. reflexivity. }
        exists ((x :: col) :: cols). split; [constructor; assumption|]. split; [exact E | exact L].
      * destruct (Nat.eqb (List.length c0) (List.length (x :: col))) eqn:En; [|rewrite cols_err; discriminate].
        apply Nat.eqb_eq in En. intros H Hl. destruct (IH ((c0 :: cs0) ++ [x :: col]) cs' H) as [cols [F [E L]]].
        { intros c Hc. apply in_app_or in Hc. destruct Hc as [Hc|[<-|[]]]; [exact (Hl c Hc) | cbn [hd app]; symmetry; exact En]. }
        exists ((x :: col) :: cols). split; [constructor; assumption|]. split; [|exact L].
        rewrite E. cbn [filter nonempty]. now rewrite <- app_assoc.
Qed.

(* the signature block: one column per node of the excerpt's first stage that has signatures in force (all of the same
   height, otherwise the export raises), written row by row *)
Theorem signature_rows_spec d o fs ts rows : signature_rows d o fs ts = Ok rows ->
  exists cols, Forall2 (fun id col => sig_column d o fs ts id = Ok col) (nth fs (d_stages d) []) cols /\
    let kept := filter nonempty cols in
    (forall c, In c kept -> List.length c = List.length (hd [] kept)) /\
    rows = map (fun irow => map (fun col => nth irow col ""%string) kept) (seq 0 (List.length (hd [] kept))).
Proof.
  unfold signature_rows.
  match goal with |- context [fold_left ?g ?ids (Ok [])] =>
    assert (Eg : forall acc id, g acc id = cols_step d o fs ts acc id) end.
  { intros acc id. unfold cols_step, sig_column. destruct acc as [cs|e]; [|reflexivity].
    change (fun (acc : res (list string)) (kv : string * nat) => match acc with | Ok l => if sig_cancelled (S (ts - fs)) d (node_class d (snd kv)) id fs ts then Ok l else match export_node d o (snd kv) with | Ok c => Ok (l ++ [c]) | Err e => Err e end | Err e => Err e end)
      with (per_node_step d o fs ts id).
    rewrite per_node_fold. cbn [app]. destruct (sig_column_of d o fs ts id (n_sigs (get_node d id))); reflexivity. }
  match goal with |- context [fold_left ?g ?ids (Ok [])] =>
    replace (fold_left g ids (Ok [])) with (fold_left (cols_step d o fs ts) ids (Ok [])) end.
  2:{ generalize (@Ok (list (list string)) []). generalize (nth fs (d_stages d) []). intros ids0. induction ids0 as [|i r IH]; intros a; cbn [fold_left]; [reflexivity|].
      rewrite <- Eg. apply IH. }
  destruct (fold_left (cols_step d o fs ts) (nth fs (d_stages d) []) (Ok [])) as [cs|e] eqn:Ef; [|discriminate].
  destruct (cols_fold d o fs ts _ _ _ Ef) as [cols [F [E L]]]; [intros c []|].
  cbn [app] in E. intros HH. exists cols. split; [exact F|]. cbv zeta. rewrite <- E. split; [exact L|].
  destruct cs as [|c0 cs0]; injection HH as <-; reflexivity.
Qed.
