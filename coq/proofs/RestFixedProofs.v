(* C01 / C03 for a single REST: the kern export of the canonical rest token is its canonical text, hence
   export o import o export = export. *)
From Coq Require Import List String Ascii Bool Sorted Lia.
From KV Require Import Strings CatGen Cat Token Tokenizers KernTok CanonProofs ScanProofs StringProofs ExportFixedProofs RestProofs.
Import ListNotations.
Open Scope list_scope.

Lemma rest_pd_sorted r : StronglySorted (fun a b => sub_cat_leb a b = true) (rest_pd r).
Proof.
  unfold rest_pd. apply sorted_app.
  - generalize (dur_tokens (rs_dur r)). intros ds.
    induction ds as [|x ds IH]; simpl; [constructor|]. constructor; [exact IH|].
    rewrite Forall_forall. intros b Hb. unfold mk_durs in Hb. apply in_map_iff in Hb. destruct Hb as [e [<- _]]. reflexivity.
  - repeat constructor.
  - intros a b Ha Hb. unfold mk_durs in Ha. apply in_map_iff in Ha. destruct Ha as [e [<- _]]. destruct Hb as [<-|[]]. reflexivity.
Qed.

Lemma rest_deco_plain_b : forallb (fun c => implb (is_rest_deco c) (plainc c)) all_bytes = true.
Proof. vm_compute. reflexivity. Qed.
Lemma rest_deco_plain c : is_rest_deco c = true -> plainc c = true.
Proof. intros H. pose proof (byte_lift _ rest_deco_plain_b c) as G. cbv beta in G. rewrite H in G. exact G. Qed.

Definition rest_canonical_order (r : crest) : Prop :=
  StronglySorted (fun a b => sub_full_leb a b = true) (map deco_of (rs_decos r)).

Theorem kern_export_canonical_rest r : rest_ok r -> rest_canonical_order r ->
  kern_tokenize all_cats (rest_token r) = Ok (str (print_rest r)).
Proof.
  intros Hok Hs. pose proof Hok as [Hdur [Hde Hnd]].
  unfold kern_tokenize, ekern_tokenize, rest_token. cbn [export_token map_res]. unfold export_noterest. cbn [nr_pd nr_deco].
  rewrite !filter_keep_all. rewrite (stable_sort_id sub_cat_leb _ (rest_pd_sorted r)). rewrite (stable_sort_id sub_full_leb _ Hs).
  cbv iota beta zeta.
  set (parts := map st_enc (rest_pd r)). set (dparts := map st_enc (map deco_of (rs_decos r))).
  assert (Eparts : parts = dur_tokens (rs_dur r) ++ ["r"%string]).
  { unfold parts, rest_pd. rewrite !map_app, mk_durs_enc. reflexivity. }
  assert (Edparts : dparts = map (fun c => String c ""%string) (rs_decos r)).
  { unfold dparts. rewrite map_map. reflexivity. }
  assert (Hparts_ne : parts <> []) by (rewrite Eparts; intros H; apply app_eq_nil in H; destruct H as [_ H]; discriminate H).
  assert (Hplain_parts : forallb (fun s => forallb plainc (chars_of_string s)) parts = true).
  { rewrite Eparts, !forallb_app. apply andb_true_iff. split; [apply dur_tokens_plain; exact Hdur | reflexivity]. }
  assert (Hplain_dparts : forallb (fun s => forallb plainc (chars_of_string s)) dparts = true).
  { rewrite Edparts. clear -Hde. induction (rs_decos r) as [|x xs IH]; [reflexivity|]. simpl in Hde. apply andb_true_iff in Hde. destruct Hde as [Hx Hxs].
    cbn [map forallb chars_of_string]. rewrite (rest_deco_plain x Hx). simpl. apply IH. exact Hxs. }
  assert (Hav : forall l, forallb (fun s => forallb plainc (chars_of_string s)) l = true -> forallb (avoids amp) l = true /\ forallb (avoids mid0) l = true).
  { induction l as [|x l IH]; intros H; [split; reflexivity|]. cbn [forallb] in *. apply andb_true_iff in H. destruct H as [Hx Hl].
    destruct (IH Hl) as [I1 I2]. destruct (plain_avoids _ Hx) as [A1 A2]. unfold str in A1, A2. rewrite string_of_chars_of_string in A1, A2.
    rewrite I1, I2. unfold amp, mid0. rewrite A1, A2. split; reflexivity. }
  destruct (Hav _ Hplain_parts) as [Pa Pm]. destruct (Hav _ Hplain_dparts) as [Da Dm].
  assert (Hjoin_ne : forall tl, (join token_separator parts ++ tl)%string <> ""%string).
  { intros tl H. assert (Hin : In "r"%string parts) by (rewrite Eparts; apply in_app_iff; right; now left).
    pose proof (join_app_empty _ _ _ H _ Hin) as Hp0. discriminate Hp0. }
  set (C := if String.eqb (join decoration_separator dparts) "" then join token_separator parts
            else (join token_separator parts ++ decoration_separator ++ join decoration_separator dparts)%string).
  assert (HC : String.eqb C "" = false).
  { destruct (String.eqb C "") eqn:E0; [|reflexivity]. apply String.eqb_eq in E0. exfalso. unfold C in E0.
    destruct (String.eqb (join decoration_separator dparts) "").
    - apply (Hjoin_ne ""%string). rewrite StringProofs.append_nil_r. exact E0.
    - exact (Hjoin_ne _ E0). }
  rewrite HC. cbn [map_res]. unfold C.
  rewrite (strip_joined parts dparts Hparts_ne Pa Pm Da Dm). f_equal.
  rewrite Eparts, Edparts, concat_single_chars, !concat_app_list. unfold print_rest. rewrite !str_app. cbn [String.concat].
  assert (E1 : String.concat "" (dur_tokens (rs_dur r)) = str (print_dur (rs_dur r))).
  { rewrite <- (concat_dur_tokens _ Hdur). unfold str. now rewrite string_of_chars_of_string. }
  rewrite E1. change (str ("r"%char :: rs_decos r)) with ("r" ++ str (rs_decos r))%string. rewrite !StringProofs.append_assoc. reflexivity.
Qed.

Theorem rest_export_fixed_point r : rest_ok r -> rest_canonical_order r ->
  exists text, kern_tokenize all_cats (rest_token r) = Ok text /\
               kern_recognise text = KTok (rest_token r) /\
               (forall t', kern_recognise text = KTok t' -> kern_tokenize all_cats t' = Ok text).
Proof.
  intros Hok Hs. exists (str (print_rest r)). split; [apply kern_export_canonical_rest; assumption|].
  split; [apply recognise_print_rest; exact Hok|]. intros t' H. rewrite (recognise_print_rest r Hok) in H. injection H as <-.
  apply kern_export_canonical_rest; assumption.
Qed.

Example rest_canonical_example :
  let r := {| rs_dur := {| cd_num := ["2"%char]; cd_frac := None; cd_dots := 1; cd_grace := "" |}; rs_decos := chars_of_string "();" |} in
  rest_ok r /\ rest_canonical_order r.
Proof. split; [split; [|split] | unfold rest_canonical_order; cbn; repeat constructor].
  - repeat split; try reflexivity; discriminate.
  - reflexivity.
  - repeat constructor; cbn; intuition discriminate.
Qed.
