(* C16 - the Humdrum pitch spelling codec: lossless for every octave, and export is pure. *)
From Coq Require Import List String Ascii Bool ZArith Lia.
From KV Require Import Strings PitchGen Pitch PitchSpec TransposeProofs.
Import ListNotations.
Open Scope string_scope.
Open Scope Z_scope.

(* ---------- list-level facts ---------- *)
Lemma chars_repeat_char c n : chars_of_string (repeat_char c n) = repeat c n.
Proof. induction n as [|n IH]; cbn; congruence. Qed.

Lemma filter_repeat {A} (p : A -> bool) c n :
  filter p (repeat c n) = if p c then repeat c n else [].
Proof.
  induction n as [|n IH]; cbn.
  - destruct (p c); reflexivity.
  - rewrite IH. destruct (p c); reflexivity.
Qed.

Lemma map_repeat {A B} (f : A -> B) c n : map f (repeat c n) = repeat (f c) n.
Proof. induction n as [|n IH]; cbn; congruence. Qed.

Lemma string_of_repeat c n : string_of_chars (repeat c n) = repeat_char c n.
Proof. induction n as [|n IH]; cbn; congruence. Qed.

Lemma length_repeat_char c n : String.length (repeat_char c n) = n.
Proof. induction n as [|n IH]; cbn; congruence. Qed.

Lemma filter_string_app p a b : filter_string p (a ++ b) = filter_string p a ++ filter_string p b.
Proof. unfold filter_string. rewrite chars_of_string_app, filter_app, string_of_chars_app. reflexivity. Qed.

Lemma filter_string_repeat p c n :
  filter_string p (repeat_char c n) = if p c then repeat_char c n else "".
Proof.
  unfold filter_string. rewrite chars_repeat_char, filter_repeat.
  destruct (p c); [apply string_of_repeat | reflexivity].
Qed.

Lemma map_string_repeat f c n : map_string f (repeat_char c n) = repeat_char (f c) n.
Proof. unfold map_string. rewrite chars_repeat_char, map_repeat. apply string_of_repeat. Qed.

Lemma map_string_app f a b : map_string f (a ++ b) = map_string f a ++ map_string f b.
Proof. unfold map_string. rewrite chars_of_string_app, map_app, string_of_chars_app. reflexivity. Qed.

Lemma remove_char_app c a b : remove_char c (a ++ b) = remove_char c a ++ remove_char c b.
Proof. apply filter_string_app. Qed.

Lemma remove_char_repeat c x n :
  remove_char c (repeat_char x n) = if Ascii.eqb x c then "" else repeat_char x n.
Proof. unfold remove_char. rewrite filter_string_repeat. destruct (Ascii.eqb x c); reflexivity. Qed.

Lemma app_empty_r (s : string) : s ++ "" = s.
Proof. induction s as [|c s IH]; cbn; congruence. Qed.

Lemma repeat_string_single c n : repeat_string (String c "") n = repeat_char c n.
Proof. induction n as [|n IH]; cbn; congruence. Qed.

Lemma string_length_app (a b : string) : String.length (a ++ b) = (String.length a + String.length b)%nat.
Proof. induction a as [|c a IH]; cbn; congruence. Qed.

(* per-letter facts, decided by case analysis over the 7 letters *)
Ltac cases_in H := cbn in H; repeat (destruct H as [<-|H]; [vm_compute; repeat split; reflexivity|]); contradiction.

Lemma letter_props l : In l letters_z ->
  let c := letter_char l in let C := to_upper c in
  is_lower c = true /\ is_lower C = false /\ is_upper C = true /\
  is_sharp_flat c = false /\ is_sharp_flat C = false /\
  to_lower c = c /\ to_lower C = c /\
  Ascii.eqb c "#" = false /\ Ascii.eqb c "-" = false /\ Ascii.eqb C "#" = false /\ Ascii.eqb C "-" = false.
Proof. intros H. cases_in H. Qed.

(* set_name on canonical lower-case names, for the 7 x 7 (letter, alteration) cells *)
Definition lower_name (l a : Z) : string := String (letter_char l) "" ++ alt_string a.
Definition setname_cell (l a : Z) : bool :=
  opt_str_eqb (set_name (lower_name l a)) (Some (spec_name l a)) &&
  opt_str_eqb (set_name (spec_name l a)) (Some (spec_name l a)).
Lemma setname_cells_ok : forallb (fun l => forallb (setname_cell l) alts7) letters_z = true.
Proof. vm_compute. reflexivity. Qed.

Lemma setname_cell_spec l a : In l letters_z -> In a alts7 ->
  set_name (lower_name l a) = Some (spec_name l a) /\ set_name (spec_name l a) = Some (spec_name l a).
Proof.
  intros Hl Ha. pose proof setname_cells_ok as H. rewrite forallb_forall in H. specialize (H l Hl).
  rewrite forallb_forall in H. specialize (H a Ha). unfold setname_cell in H.
  apply andb_prop in H as [H1 H2]. split; apply opt_str_eqb_eq; assumption.
Qed.

(* the accidental part: filter / map behaviour, for the 7 alterations (finite) *)
Lemma acc_props a : In a alts7 ->
  map_string (fun c => if Ascii.eqb c "#" then "+"%char else c) (filter_string is_sharp_flat (kern_acc a)) = alt_string a /\
  remove_char "-" (remove_char "#" (kern_acc a)) = "" /\
  (let acc := map_string (fun c => if Ascii.eqb c "+" then "#"%char else c) (filter_string is_pm (alt_string a)) in
   match acc with EmptyString => "" | String a0 _ => repeat_char a0 (String.length acc) end) = kern_acc a /\
  remove_char "-" (remove_char "+" (alt_string a)) = "".
Proof. intros H. cases_in H. Qed.

(* ---------- decoding ---------- *)
Theorem parse_spell l a o :
  In l letters_z -> In a alts7 ->
  import_pitch (spell l a o) = Some (spec_pitch l a o).
Proof.
  intros Hl Ha.
  destruct (letter_props l Hl) as (Lc & LC & UC & SFc & SFC & TLc & TLC & Hc1 & Hc2 & HC1 & HC2).
  destruct (acc_props a Ha) as (A1 & A2 & _ & _).
  destruct (setname_cell_spec l a Hl Ha) as [S1 _].
  unfold import_pitch, parse_pitch, spell.
  set (c := letter_char l) in *. set (C := to_upper c) in *.
  destruct (o >=? 4) eqn:Eo.
  - (* treble: lower-case letters *)
    set (n := Z.to_nat (o - 4 + 1)).
    assert (Hn : (1 <= n)%nat) by (subst n; lia).
    rewrite filter_string_app, filter_string_repeat, SFc.
    rewrite !remove_char_app, !remove_char_repeat, Hc1, remove_char_repeat, Hc2.
    cbn [append]. rewrite A1, A2, app_empty_r.
    destruct n as [|n'] eqn:En; [lia|]. cbn [repeat_char].
    rewrite Lc, TLc.
    cbn [String.length]. rewrite length_repeat_char.
    unfold mk_pitch. change (String c (alt_string a)) with (lower_name l a).
    rewrite S1. unfold spec_pitch. f_equal. f_equal.
    change imp_c4_octave with 4. lia.
  - set (n := Z.to_nat (3 - o + 1)).
    assert (Hn : (1 <= n)%nat) by (subst n; lia).
    rewrite filter_string_app, filter_string_repeat, SFC.
    rewrite !remove_char_app, !remove_char_repeat, HC1, remove_char_repeat, HC2.
    cbn [append]. rewrite A1, A2, app_empty_r.
    destruct n as [|n'] eqn:En; [lia|]. cbn [repeat_char].
    rewrite LC, UC, TLC.
    cbn [String.length]. rewrite length_repeat_char.
    unfold mk_pitch. change (String c (alt_string a)) with (lower_name l a).
    rewrite S1. unfold spec_pitch. f_equal. f_equal.
    change imp_c3_octave with 3. lia.
Qed.

(* ---------- encoding ---------- *)
Lemma lower_single c : lower (String c "") = String (to_lower c) "".
Proof. reflexivity. Qed.
Lemma upper_single c : upper (String c "") = String (to_upper c) "".
Proof. reflexivity. Qed.

Definition name_cell (l : Z) : bool :=
  forallb (fun a =>
    String.eqb (remove_char "-" (remove_char "+" (spec_name l a))) (letter_name l)) alts7.
Lemma name_cells_ok : forallb name_cell letters_z = true.
Proof. vm_compute. reflexivity. Qed.

Definition letter_case_cell (l : Z) : bool :=
  String.eqb (lower (letter_name l)) (String (letter_char l) "") &&
  String.eqb (upper (letter_name l)) (String (to_upper (letter_char l)) "").
Lemma letter_case_ok : forallb letter_case_cell letters_z = true.
Proof. vm_compute. reflexivity. Qed.

Lemma filter_pm_spec_name l a : In l letters_z -> In a alts7 ->
  filter_string is_pm (spec_name l a) = filter_string is_pm (alt_string a).
Proof.
  intros Hl Ha. unfold spec_name. rewrite filter_string_app.
  replace (filter_string is_pm (letter_name l)) with "".
  - reflexivity.
  - cbn in Hl. repeat (destruct Hl as [<-|Hl]; [reflexivity|]). contradiction.
Qed.

Theorem export_spell l a o :
  In l letters_z -> In a alts7 ->
  fst (export_pitch (spec_pitch l a o)) = spell l a o.
Proof.
  intros Hl Ha.
  destruct (acc_props a Ha) as (_ & _ & F1 & _).
  pose proof name_cells_ok as N. rewrite forallb_forall in N. specialize (N l Hl). unfold name_cell in N.
  rewrite forallb_forall in N. specialize (N a Ha). apply String.eqb_eq in N.
  pose proof letter_case_ok as L. rewrite forallb_forall in L. specialize (L l Hl). unfold letter_case_cell in L.
  apply andb_prop in L as [L1 L2]. apply String.eqb_eq in L1, L2.
  unfold export_pitch, spec_pitch; cbn [fst ap_name ap_octave].
  rewrite (filter_pm_spec_name l a Hl Ha). cbv zeta in F1. rewrite F1. rewrite N, L1, L2.
  rewrite !repeat_string_single. unfold spell. change exp_c4_octave with 4. change exp_c3_octave with 3.
  rewrite Z.geb_leb. replace (o >=? 4) with (4 <=? o) by (rewrite Z.geb_leb; reflexivity).
  destruct (4 <=? o); reflexivity.
Qed.

(* ---------- purity ---------- *)
Theorem export_pure p : snd (export_pitch p) = p.
Proof. reflexivity. Qed.

Theorem export_twice_same p :
  let '(t1, p1) := export_pitch p in fst (export_pitch p1) = t1.
Proof. reflexivity. Qed.

(* round trip through the text *)
Theorem codec_round_trip l a o :
  In l letters_z -> In a alts7 ->
  option_map (fun p => fst (export_pitch p)) (import_pitch (spell l a o)) = Some (spell l a o).
Proof. intros Hl Ha. rewrite (parse_spell l a o Hl Ha). cbn [option_map]. f_equal. apply export_spell; assumption. Qed.

(* name normalisation is idempotent on every spellable name *)
Theorem set_name_idempotent l a : In l letters_z -> In a alts7 ->
  forall n, set_name (lower_name l a) = Some n -> set_name n = Some n.
Proof.
  intros Hl Ha n H. destruct (setname_cell_spec l a Hl Ha) as [S1 S2]. rewrite S1 in H. inversion H; subst. exact S2.
Qed.

Example codec_nonvacuous :
  spell 0 1 5 = "cc#" /\ spell 6 (-2) 2 = "BB--" /\ import_pitch "cc#" = Some (spec_pitch 0 1 5).
Proof. vm_compute. auto. Qed.
