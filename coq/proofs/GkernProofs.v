(* Proofs for C10 (pitch level): the agnostic spelling is the Humdrum pitch on the same line or
   space under a G2 clef, for every clef class, letter, alteration and EVERY octave in Z. *)
From Coq Require Import List String Ascii Bool ZArith Lia.
From KV Require Import Strings CatGen PitchGen ClefGen Pitch PitchSpec Gkern CodecProofs TransposeProofs.
Import ListNotations.
Open Scope string_scope.
Open Scope Z_scope.

Definition dia (l o : Z) : Z := 7 * o + l.
Definition spell_base (l o : Z) : string :=
  if o >=? 4 then repeat_char (letter_char l) (Z.to_nat (o - 4 + 1))
  else repeat_char (to_upper (letter_char l)) (Z.to_nat (3 - o + 1)).
Lemma spell_split l a o : spell l a o = spell_base l o ++ kern_acc a.
Proof. reflexivity. Qed.

(* the Humdrum spelling of the pitch whose diatonic number is d (7*octave + letter) *)
Definition spell_dia (d a : Z) : string := spell (d mod 7) a (d / 7).

(* bottom-line letter index and octave of a clef class, read off the generated table *)
Definition bottom_params (cls : string) : option (Z * Z) :=
  match assoc_str cls clef_bottoms with
  | Some (n, o) => match assoc_str n letter_to_index with Some i => Some (i, o) | None => None end
  | None => None
  end.
Definition clef_classes : list string := map fst clef_bottoms.

Lemma in_letters l : 0 <= l < 7 -> In l letters_z.
Proof. intros H. unfold letters_z. assert (l = 0 \/ l = 1 \/ l = 2 \/ l = 3 \/ l = 4 \/ l = 5 \/ l = 6) by lia. simpl. intuition. Qed.

Lemma letters_range l : In l letters_z -> 0 <= l < 7.
Proof. unfold letters_z. simpl. intuition; subst; lia. Qed.

(* ---- finite facts about the generated tables *)
Definition bottom_ok (cls : string) : bool :=
  match bottom_params cls, clef_bottom cls with
  | Some (i, o), Some b => apitch_eqb b (spec_pitch i 0 o) && (0 <=? i) && (i <? 7)
  | _, _ => false
  end.
Lemma bottoms_ok : forallb bottom_ok clef_classes = true.
Proof. vm_compute. reflexivity. Qed.

Lemma bottom_spec cls : In cls clef_classes ->
  exists i o, bottom_params cls = Some (i, o) /\ clef_bottom cls = Some (spec_pitch i 0 o) /\ 0 <= i < 7.
Proof.
  intros H. pose proof bottoms_ok as B. rewrite forallb_forall in B. specialize (B cls H). unfold bottom_ok in B.
  destruct (bottom_params cls) as [[i o]|]; [|discriminate]. destruct (clef_bottom cls) as [b|]; [|discriminate].
  apply andb_true_iff in B. destruct B as [B B3]. apply andb_true_iff in B. destruct B as [B1 B2].
  apply apitch_eqb_eq in B1. subst. exists i, o. repeat split; try lia.
Qed.

Definition letter_cell (l a : Z) : bool :=
  match set_name (remove_char "-" (remove_char "+" (spec_name l a))) with
  | Some n => String.eqb n (letter_name l) | None => false end.
Lemma letter_cells_ok : forallb (fun l => forallb (letter_cell l) alts7) letters_z = true.
Proof. vm_compute. reflexivity. Qed.

Lemma gk_letter_spec l a o : In l letters_z -> In a alts7 -> gk_letter (spec_pitch l a o) = Some (letter_name l).
Proof.
  intros Hl Ha. pose proof letter_cells_ok as B. rewrite forallb_forall in B. specialize (B l Hl).
  rewrite forallb_forall in B. specialize (B a Ha). unfold letter_cell in B. unfold gk_letter. simpl ap_name.
  destruct (set_name _) as [n|]; [|discriminate]. apply String.eqb_eq in B. now subst.
Qed.

Lemma letter_index_ok : forallb (fun l => match assoc_str (letter_name l) letter_to_index with
                                          | Some i => i =? l | None => false end) letters_z = true.
Proof. vm_compute. reflexivity. Qed.

Lemma letter_index_spec l : In l letters_z -> assoc_str (letter_name l) letter_to_index = Some l.
Proof.
  intros Hl. pose proof letter_index_ok as B. rewrite forallb_forall in B. specialize (B l Hl).
  destruct (assoc_str _ _) as [i|]; [|discriminate]. apply Z.eqb_eq in B. now subst.
Qed.

Lemma compute_position_spec lb ob l a o : In lb letters_z -> In l letters_z -> In a alts7 ->
  compute_position (spec_pitch lb 0 ob) (spec_pitch l a o) = Some ((o - ob) * 7 + (l - lb)).
Proof.
  intros Hb Hl Ha. unfold compute_position.
  rewrite (gk_letter_spec lb 0 ob Hb), (gk_letter_spec l a o Hl Ha); [|unfold alts7; simpl; tauto].
  rewrite (letter_index_spec lb Hb), (letter_index_spec l Hl). reflexivity.
Qed.

Lemma gk_letters_ok : forallb (fun l => match nth_str (Z.to_nat l) gk_letters with
                                        | Some s => String.eqb s (String (letter_char l) "") | None => false end) letters_z = true.
Proof. vm_compute. reflexivity. Qed.

Lemma gk_letters_spec l : In l letters_z -> nth_str (Z.to_nat l) gk_letters = Some (String (letter_char l) "").
Proof.
  intros Hl. pose proof gk_letters_ok as B. rewrite forallb_forall in B. specialize (B l Hl).
  destruct (nth_str _ _) as [s|]; [|discriminate]. apply String.eqb_eq in B. now subst.
Qed.

Lemma accidentals_ok : forallb (fun l => forallb (fun a => String.eqb (accidentals (spec_pitch l a 0)) (kern_acc a)) alts7) letters_z = true.
Proof. vm_compute. reflexivity. Qed.

Lemma accidentals_spec l a o : In l letters_z -> In a alts7 -> accidentals (spec_pitch l a o) = kern_acc a.
Proof.
  intros Hl Ha. pose proof accidentals_ok as B. rewrite forallb_forall in B. specialize (B l Hl).
  rewrite forallb_forall in B. specialize (B a Ha). apply String.eqb_eq in B. exact B.
Qed.

(* ---- the arithmetic core: from staff position to spelling, for every integer position *)
Lemma repr_distance ls : let '(isl, n) := position_repr ls in 2 * n + (if isl then 0 else 1) = ls + 2.
Proof.
  unfold position_repr. destruct (ls mod 2 =? 0) eqn:E.
  - apply Z.eqb_eq in E. pose proof (Z.div_mod ls 2 ltac:(lia)). lia.
  - apply Z.eqb_neq in E. pose proof (Z.mod_pos_bound ls 2 ltac:(lia)).
    assert (Hm : ls mod 2 = 1) by lia.
    pose proof (Z.div_mod ls 2 ltac:(lia)). pose proof (Z.div_mod (ls - 1) 2 ltac:(lia)).
    assert ((ls - 1) mod 2 = 0). { replace (ls - 1) with (ls + (-1) * 1) by lia. rewrite <- Zplus_mod_idemp_l. rewrite Hm. reflexivity. }
    lia.
Qed.

Lemma gkern_of_repr_spec ls :
  gkern_of_repr (position_repr ls) = Some (spell_base ((ls + 2) mod 7) (4 + (ls + 2) / 7)).
Proof.
  pose proof (repr_distance ls) as D. destruct (position_repr ls) as [isl n]. unfold gkern_of_repr. rewrite D.
  set (d := ls + 2). pose proof (Z.mod_pos_bound d 7 ltac:(lia)) as Hm.
  rewrite (gk_letters_spec (d mod 7) (in_letters _ Hm)).
  pose proof (Z.div_mod d 7 ltac:(lia)) as Hd.
  unfold spell_base. destruct (d >? 0) eqn:E1.
  - assert (0 <= d / 7) by (apply Z.div_pos; lia).
    replace (4 + d / 7 >=? 4) with true by (symmetry; apply Z.geb_le; lia).
    rewrite repeat_string_single. do 2 f_equal. lia.
  - destruct (d <? 0) eqn:E2.
    + apply Z.ltb_lt in E2. assert (d / 7 < 0) by (apply Z.div_lt_upper_bound; lia).
      replace (4 + d / 7 >=? 4) with false by (symmetry; rewrite Z.geb_leb; apply Z.leb_gt; lia).
      rewrite upper_single, repeat_string_single. do 2 f_equal. lia.
    + assert (d = 0) by lia. replace (d mod 7) with 0 by (subst d; rewrite H; reflexivity).
      replace (d / 7) with 0 by (subst d; rewrite H; reflexivity). reflexivity.
Qed.

(* ---- C10, pitch level *)
Theorem gkern_exact cls i ob l a o :
  In cls clef_classes -> bottom_params cls = Some (i, ob) -> In l letters_z -> In a alts7 ->
  pitch_to_gkern (spec_pitch l a o) cls = Some (spell_dia (dia l o - dia i ob + dia 2 4) a).
Proof.
  intros Hc Hb Hl Ha. destruct (bottom_spec cls Hc) as [i' [o' [P1 [P2 P3]]]].
  rewrite Hb in P1. injection P1 as <- <-.
  unfold pitch_to_gkern. rewrite P2. rewrite (compute_position_spec i ob l a o (in_letters _ P3) Hl Ha).
  rewrite gkern_of_repr_spec, (accidentals_spec l a o Hl Ha). unfold spell_dia. rewrite spell_split. unfold dia.
  replace (7 * o + l - (7 * ob + i) + (7 * 4 + 2)) with (((o - ob) * 7 + (l - i) + 2) + 4 * 7) by lia.
  rewrite Z.mod_add by lia. rewrite Z.div_add by lia.
  replace (((o - ob) * 7 + (l - i) + 2) / 7 + 4) with (4 + ((o - ob) * 7 + (l - i) + 2) / 7) by lia.
  reflexivity.
Qed.

Lemma spell_dia_dia l a o : In l letters_z -> spell_dia (dia l o) a = spell l a o.
Proof.
  intros Hl. apply letters_range in Hl. unfold spell_dia, dia.
  replace (7 * o + l) with (l + o * 7) by lia. rewrite Z.mod_add by lia. rewrite Z.div_add by lia.
  rewrite Z.mod_small by lia. rewrite Z.div_small by lia. reflexivity.
Qed.

(* under G2 the agnostic spelling is the identity *)
Theorem gkern_g2_identity l a o : In l letters_z -> In a alts7 ->
  pitch_to_gkern (spec_pitch l a o) "GClef" = Some (spell l a o).
Proof.
  intros Hl Ha. rewrite (gkern_exact "GClef" 2 4 l a o); [| vm_compute; tauto | vm_compute; reflexivity | exact Hl | exact Ha].
  replace (dia l o - dia 2 4 + dia 2 4) with (dia l o) by lia. now rewrite spell_dia_dia.
Qed.

(* moving the pitch by k diatonic steps moves the agnostic pitch by k steps, under every clef *)
Theorem gkern_shift cls i ob l a o l' o' k :
  In cls clef_classes -> bottom_params cls = Some (i, ob) -> In l letters_z -> In l' letters_z -> In a alts7 ->
  dia l' o' = dia l o + k ->
  exists d, pitch_to_gkern (spec_pitch l a o) cls = Some (spell_dia d a) /\
            pitch_to_gkern (spec_pitch l' a o') cls = Some (spell_dia (d + k) a).
Proof.
  intros Hc Hb Hl Hl' Ha Hk. exists (dia l o - dia i ob + dia 2 4). split.
  - now apply gkern_exact.
  - rewrite (gkern_exact cls i ob l' a o' Hc Hb Hl' Ha). f_equal. f_equal. lia.
Qed.

(* the clef's bottom-line pitch maps to 'e' *)
Theorem gkern_bottom_is_e cls i ob : In cls clef_classes -> bottom_params cls = Some (i, ob) ->
  pitch_to_gkern (spec_pitch i 0 ob) cls = Some "e".
Proof.
  intros Hc Hb. destruct (bottom_spec cls Hc) as [i' [o' [P1 [_ P3]]]]. rewrite Hb in P1. injection P1 as <- <-.
  rewrite (gkern_exact cls i ob i 0 ob Hc Hb (in_letters _ P3)); [|unfold alts7; simpl; tauto].
  replace (dia i ob - dia i ob + dia 2 4) with (dia 2 4) by lia. reflexivity.
Qed.

(* the accidental is carried over unchanged: the result is a letter run followed by exactly the accidental *)
Theorem gkern_accidental cls i ob l a o : In cls clef_classes -> bottom_params cls = Some (i, ob) ->
  In l letters_z -> In a alts7 ->
  exists letters, pitch_to_gkern (spec_pitch l 0 o) cls = Some letters /\
                  pitch_to_gkern (spec_pitch l a o) cls = Some (letters ++ kern_acc a).
Proof.
  intros Hc Hb Hl Ha. exists (spell_dia (dia l o - dia i ob + dia 2 4) 0). split.
  - apply gkern_exact; auto. unfold alts7; simpl; tauto.
  - rewrite (gkern_exact cls i ob l a o Hc Hb Hl Ha). unfold spell_dia. rewrite !spell_split.
    f_equal. change (kern_acc 0) with "". now rewrite app_empty_r.
Qed.

(* ---- the text path: PositionInStaff.__str__ followed by gkern_to_g_clef_pitch *)
(* int(str(n)) = n on a window of staff positions (python's own round trip; the theorems above do not need it) *)
Definition window : list Z := map (fun k => Z.of_nat k - 300) (seq 0 601).
Lemma text_path_window : forallb (fun ls =>
  match gkern_to_g_clef_pitch (position_str ls), gkern_of_repr (position_repr ls) with
  | Some a, Some b => String.eqb a b | _, _ => false end) window = true.
Proof. vm_compute. reflexivity. Qed.

(* ---- create_clef: octave marks do not change the clef *)
Definition is_mark (c : ascii) : bool := Ascii.eqb c "^" || Ascii.eqb c "v".

Lemma chars_app a b : chars_of_string (a ++ b) = (chars_of_string a ++ chars_of_string b)%list.
Proof. induction a as [|c a IH]; simpl; [reflexivity | now rewrite IH]. Qed.

Lemma filter_marks_nil (p : ascii -> bool) m :
  (forall c, is_mark c = true -> p c = false) ->
  forallb is_mark (chars_of_string m) = true -> filter p (chars_of_string m) = [].
Proof.
  intros Hp. induction m as [|c m IH]; simpl; intros H; [reflexivity|].
  apply andb_true_iff in H. destruct H as [H1 H2]. rewrite (Hp c H1). auto.
Qed.

Lemma mark_not_name c : is_mark c = true -> mem_str (String c "") clef_names = false.
Proof.
  unfold is_mark. intros H. apply orb_true_iff in H. destruct H as [H|H]; apply Ascii.eqb_eq in H; subst; reflexivity.
Qed.
Lemma mark_not_digit c : is_mark c = true -> is_digit c = false.
Proof.
  unfold is_mark. intros H. apply orb_true_iff in H. destruct H as [H|H]; apply Ascii.eqb_eq in H; subst; reflexivity.
Qed.

Theorem create_clef_ignores_marks pre m post :
  forallb is_mark (chars_of_string m) = true ->
  create_clef_core (pre ++ m ++ post) = create_clef_core (pre ++ post).
Proof.
  intros Hm. unfold create_clef_core. rewrite !chars_app, !filter_app.
  rewrite (filter_marks_nil _ m mark_not_name Hm), (filter_marks_nil _ m mark_not_digit Hm). reflexivity.
Qed.

Example create_clef_examples :
  create_clef "*clefG2" = Some "GClef" /\ create_clef "*clefGv2" = Some "GClef" /\ create_clef "*clefF^^4" = Some "F4Clef"
  /\ create_clef "*clefC3" = Some "C3Clef" /\ create_clef "*clefF2" = None /\ create_clef "*clefX" = None.
Proof. vm_compute. repeat split. Qed.

(* every dispatched class has a bottom line (no dangling class name) *)
Lemma dispatch_total : forallb (fun row => match snd row with
                                           | Some cls => mem_str cls clef_classes | None => true end) clef_dispatch = true.
Proof. vm_compute. reflexivity. Qed.
