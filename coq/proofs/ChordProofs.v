(* C01 / C03: the recogniser on the canonical text of a CHORD - notes separated by single blanks, every note carrying
   the chord's signifiers and its own duration - consumes the whole text and returns exactly these notes, in order:
   no note is lost, merged or altered (scan-of-print, for chords of any number of notes). *)
From Coq Require Import List String Ascii Bool Arith Lia.
From KV Require Import Strings CatGen Cat Token KernTok CanonProofs ScanProofs.
Import ListNotations.
Open Scope list_scope.

Definition sep_ok (X : chars) : Prop := match X with [] => True | c :: _ => c = " "%char end.

Lemma sep_stops_deco X : sep_ok X -> stops is_note_deco X.
Proof. destruct X as [|c X']; [intros; exact I | intros ->; reflexivity]. Qed.

Lemma add_decos_nil acc : add_decos acc [] = acc. Proof. reflexivity. Qed.

Lemma add_decos_present : forall l acc, all_deco acc -> (forall c, In c l -> In (deco_of c) acc) -> add_decos acc l = acc.
Proof.
  induction l as [|c l IH]; intros acc Ha H; [reflexivity|]. cbn [add_decos].
  assert (E : existsb (fun s => String.eqb (st_enc s) (String c "")) acc = true) by (apply (existsb_enc acc c Ha), H; now left).
  rewrite E. apply IH; [exact Ha | intros x Hx; apply H; now right].
Qed.

Lemma scan_accidental_sep X : sep_ok X -> scan_accidental X = Some ([], X).
Proof. destruct X as [|c X']; [reflexivity | intros ->; reflexivity]. Qed.

(* the tail of a note (accidental, signifiers) in any listener state, followed by the end or by a blank *)
Lemma scan_note_tail_gen st n dtext durs X R : note_ok n -> sep_ok X -> add_decos (ls_deco st) (nt_decos n) = R ->
  scan_note_tail st [] dtext [] (pitch_chars n) durs (acc_chars n ++ nt_decos n ++ X) =
  Some (dtext ++ pitch_chars n ++ acc_chars n ++ nt_decos n,
        {| ls_deco := R; ls_dur := match durs with Some ds => mk_durs ds | None => ls_dur st end |},
        match durs with Some ds => mk_durs ds | None => ls_dur st end ++ [{| st_enc := str (pitch_chars n); st_cat := PITCH |}]
        ++ match acc_chars n with [] => [] | a => [{| st_enc := str a; st_cat := ALTERATION |}] end, X).
Proof.
  intros [Hdur [Hp [Hc [Hd [Hcd [Hde [Hnd Hdisp]]]]]]] HX HR. unfold scan_note_tail, acc_chars.
  pose proof (sep_stops_deco X HX) as Hstop.
  destruct (nt_core n) as [|c core'] eqn:Ec.
  - rewrite (Hcd eq_refl). cbn [app]. rewrite (take_while_app is_note_deco (nt_decos n) X Hde Hstop).
    rewrite (scan_accidental_sep X HX). rewrite (take_while_none is_note_deco X Hstop).
    rewrite !add_decos_nil, HR. rewrite ?app_nil_r. reflexivity.
  - assert (Hc0 : is_note_deco c = false).
    { unfold core_ok in Hc. apply orb_true_iff in Hc. destruct Hc as [Hc|Hc].
      - apply andb_true_iff in Hc. destruct Hc as [Hc _]. apply orb_true_iff in Hc. destruct Hc as [Hc|Hc];
          apply andb_true_iff in Hc; destruct Hc as [Hc _]; apply Ascii.eqb_eq in Hc; subst c; reflexivity.
      - apply andb_true_iff in Hc. destruct Hc as [Hc _]. apply Ascii.eqb_eq in Hc. subst c. reflexivity. }
    rewrite <- app_assoc. rewrite (take_while_none is_note_deco ((c :: core') ++ nt_disp n ++ nt_decos n ++ X)) by (simpl; exact Hc0).
    assert (HA : after_acc (c :: core') (nt_disp n) (nt_decos n ++ X)).
    { unfold after_acc. destruct (nt_decos n) as [|x xs] eqn:Ex.
      - cbn [app]. destruct X as [|y X']; [exact I|]. simpl in HX. subst y. split; [now right | intros _ _; reflexivity].
      - cbn [app]. simpl in Hde. apply andb_true_iff in Hde. destruct Hde as [Hx _]. split; [left; exact Hx|].
        intros _ Hdn. exact (Hdisp ltac:(discriminate) Hdn). }
    rewrite (scan_accidental_print (c :: core') (nt_disp n) (nt_decos n ++ X) Hc Hd ltac:(discriminate) HA).
    rewrite (take_while_app is_note_deco (nt_decos n) X Hde Hstop).
    rewrite !add_decos_nil, HR. cbn [app]. rewrite ?app_nil_r. rewrite <- ?app_assoc. reflexivity.
Qed.

(* one note with its own duration, in any listener state *)
Lemma scan_note_gen st n d X R : note_ok n -> nt_dur n = Some d -> sep_ok X -> add_decos (ls_deco st) (nt_decos n) = R ->
  scan_note st (print_note n ++ X) = Some (print_note n, {| ls_deco := R; ls_dur := mk_durs (dur_tokens d) |}, note_pd n, X).
Proof.
  intros Hok Ed HX HR. pose proof Hok as [Hdur [Hp [Hc [Hdd [Hcd [Hde [Hnd Hdisp]]]]]]]. rewrite Ed in Hdur.
  destruct (pitch_props _ Hp) as [Hp_nd [Hp_ndig Hp_ns]].
  set (tail := acc_chars n ++ nt_decos n ++ X).
  assert (Hafter : after_dur (pitch_chars n ++ tail)) by (unfold pitch_chars; simpl; left; exact Hp).
  (* the character after the pitch letters is no pitch letter *)
  assert (Htail : stops (Ascii.eqb (nt_pitch n)) tail /\ match tail with q :: _ => is_pitch_letter q = false | [] => True end).
  { assert (G : forall q, is_pitch_letter q = false -> Ascii.eqb (nt_pitch n) q = false).
    { intros q Hq. destruct (Ascii.eqb (nt_pitch n) q) eqn:E; [|reflexivity]. apply Ascii.eqb_eq in E. subst q. congruence. }
    unfold tail, acc_chars. destruct (nt_core n) as [|c core'] eqn:Ec.
    - rewrite (Hcd eq_refl). cbn [app]. destruct (nt_decos n) as [|x xs].
      + cbn [app]. destruct X as [|y X']; [split; exact I|]. simpl in HX. subst y. split; [apply G; reflexivity | reflexivity].
      + simpl in Hde. apply andb_true_iff in Hde. destruct Hde as [Hx _]. destruct (deco_char_facts x Hx) as [_ [_ [_ [_ [_ [_ [_ [Hxp _]]]]]]]].
        cbn [app]. split; [apply G; exact Hxp | exact Hxp].
    - cbn [app]. assert (Hnp : is_pitch_letter c = false).
      { unfold core_ok in Hc. apply orb_true_iff in Hc. destruct Hc as [Hc|Hc].
        - apply andb_true_iff in Hc. destruct Hc as [Hc _]. apply orb_true_iff in Hc. destruct Hc as [Hc|Hc];
            apply andb_true_iff in Hc; destruct Hc as [Hc _]; apply Ascii.eqb_eq in Hc; subst c; reflexivity.
        - apply andb_true_iff in Hc. destruct Hc as [Hc _]. apply Ascii.eqb_eq in Hc. subst c. reflexivity. }
      split; [apply G; exact Hnp | exact Hnp]. }
  destruct Htail as [Hstop Hbad].
  assert (Etext : print_note n ++ X = print_dur d ++ pitch_chars n ++ tail).
  { unfold print_note, tail. rewrite Ed. rewrite <- !app_assoc. reflexivity. }
  unfold scan_note. rewrite Etext.
  assert (Hfirst : stops is_note_deco (print_dur d ++ pitch_chars n ++ tail)).
  { destruct Hdur as [Hn [Hne _]]. unfold print_dur, modern_chars. destruct (cd_num d) as [|x xs]; [contradiction|].
    simpl in Hn. apply andb_true_iff in Hn. destruct Hn as [Hx _]. destruct (digit_props x Hx) as [Hx' _]. simpl. exact Hx'. }
  rewrite (take_while_none is_note_deco _ Hfirst).
  rewrite (scan_duration_print d _ Hdur Hafter).
  rewrite (take_while_none is_note_deco (pitch_chars n ++ tail)) by (unfold pitch_chars; simpl; exact Hp_nd).
  unfold pitch_chars at 1 2. cbn [repeat app]. rewrite Hp. cbn [negb].
  change (nt_pitch n :: repeat (nt_pitch n) (nt_oct n) ++ tail) with (pitch_chars n ++ tail).
  rewrite (take_while_app (Ascii.eqb (nt_pitch n)) (pitch_chars n) tail) by (first [apply forallb_repeat; apply Ascii.eqb_refl | exact Hstop]).
  replace (match tail with q :: _ => is_pitch_letter q | [] => false end) with false by (destruct tail; [reflexivity | symmetry; exact Hbad]).
  rewrite (concat_dur_tokens d Hdur). unfold tail.
  rewrite (scan_note_tail_gen st n (print_dur d) (Some (dur_tokens d)) X R Hok HX HR).
  unfold note_pd, print_note. rewrite Ed. rewrite <- ?app_assoc. reflexivity.
Qed.

(* ---- the chord *)
Fixpoint print_chord (notes : list cnote) : chars :=
  match notes with
  | [] => []
  | [n] => print_note n
  | n :: rest => print_note n ++ " "%char :: print_chord rest
  end.

Definition chord_ok (D : chars) (notes : list cnote) : Prop :=
  Forall (fun n => note_ok n /\ nt_decos n = D /\ exists d, nt_dur n = Some d) notes.

Lemma scan_elements_chord D : forall notes fuel st, notes <> [] -> chord_ok D notes -> List.length notes <= fuel ->
  ls_deco st = [] \/ ls_deco st = map deco_of D ->
  exists st', scan_elements fuel st (print_chord notes) = Some (map (fun n => (print_note n, note_pd n)) notes, st') /\
              ls_deco st' = map deco_of D.
Proof.
  induction notes as [|n notes IH]; intros fuel st Hne Hok Hf Hst; [contradiction|].
  inversion Hok as [|? ? [Hn [HD [d Ed]]] Hok']; subst.
  destruct fuel as [|fuel]; [simpl in Hf; lia|].
  pose proof Hn as [_ [_ [_ [_ [_ [Hde [Hnd _]]]]]]].
  assert (HR : add_decos (ls_deco st) (nt_decos n) = map deco_of (nt_decos n)).
  { destruct Hst as [-> | ->].
    - rewrite (add_decos_nodup (nt_decos n) [] Hnd); [reflexivity | intros c _ [] | intros s []].
    - apply add_decos_present; [intros s Hs; apply in_map_iff in Hs; destruct Hs as [c [<- _]]; now exists c | intros c Hc; apply in_map; exact Hc]. }
  destruct notes as [|m notes'].
  - (* last note *)
    cbn [print_chord scan_elements]. unfold scan_note_or_rest.
    pose proof (scan_note_gen st n d [] _ Hn Ed I HR) as H. rewrite app_nil_r in H. rewrite H.
    eexists. split; [reflexivity | reflexivity].
  - change (print_chord (n :: m :: notes')) with (print_note n ++ " "%char :: print_chord (m :: notes')).
    cbn [scan_elements]. unfold scan_note_or_rest.
    rewrite (scan_note_gen st n d (" "%char :: print_chord (m :: notes')) _ Hn Ed eq_refl HR).
    destruct (IH fuel {| ls_deco := map deco_of (nt_decos n); ls_dur := mk_durs (dur_tokens d) |} ltac:(discriminate) Hok' ltac:(simpl in *; lia) (or_intror eq_refl))
      as [st' [E Hd']].
    rewrite E. eexists. split; [reflexivity | exact Hd'].
Qed.

Lemma print_chord_head D notes : notes <> [] -> chord_ok D notes -> exists c r, print_chord notes = c :: r /\ is_digit c = true.
Proof.
  destruct notes as [|n notes]; [contradiction|]. intros _ Hok. inversion Hok as [|? ? [Hn [_ [d Ed]]] _]; subst.
  destruct Hn as [Hdur _]. rewrite Ed in Hdur. destruct Hdur as [Hnum [Hne _]].
  assert (E : exists c r, print_note n = c :: r /\ is_digit c = true).
  { unfold print_note. rewrite Ed. unfold print_dur, modern_chars. destruct (cd_num d) as [|x xs]; [contradiction|].
    simpl in Hnum. apply andb_true_iff in Hnum. destruct Hnum as [Hx _]. eexists; eexists. split; [reflexivity | exact Hx]. }
  destruct E as [c [r [E Hc]]]. destruct notes as [|m notes']; cbn [print_chord]; rewrite E; eexists; eexists; split; try reflexivity; exact Hc.
Qed.

Lemma print_chord_length notes : List.length notes <= S (List.length (print_chord notes)).
Proof.
  induction notes as [|n [|m r] IH]; cbn [print_chord List.length] in *; try lia.
  rewrite app_length. cbn [List.length]. lia.
Qed.

Definition chord_note (D : chars) (n : cnote) : noterest :=
  {| nr_enc := str (print_note n); nr_pd := note_pd n; nr_deco := map deco_of D |}.

Theorem recognise_print_chord D notes : 2 <= List.length notes -> chord_ok D notes ->
  kern_recognise (str (print_chord notes)) = KTok (TChord (str (print_chord notes)) (map (chord_note D) notes)).
Proof.
  intros Hlen Hok. assert (Hne : notes <> []) by (intros ->; simpl in Hlen; lia).
  destruct (print_chord_head D notes Hne Hok) as [c [r [E Hc]]].
  assert (Hs : in_chars "#-n%.qpPr =*" c = false) by apply (digit_props c Hc).
  assert (Hstar : Ascii.eqb c "*" = false /\ Ascii.eqb c "=" = false /\ Ascii.eqb c "." = false).
  { assert (G : forallb (fun c => implb (negb (in_chars "#-n%.qpPr =*" c)) (negb (Ascii.eqb c "*") && negb (Ascii.eqb c "=") && negb (Ascii.eqb c "."))) all_bytes = true)
      by (vm_compute; reflexivity).
    pose proof (byte_lift _ G c) as G'. cbv beta in G'. rewrite Hs in G'. simpl in G'.
    apply andb_true_iff in G'. destruct G' as [G' G3]. apply andb_true_iff in G'. destruct G' as [G1 G2]. rewrite !negb_true_iff in *. tauto. }
  destruct Hstar as [H1 [H2 H3]].
  unfold kern_recognise. rewrite E. unfold str at 1 2 3 4. cbn [string_of_chars].
  assert (Hdot : String.eqb (String c (string_of_chars r)) "." = false) by (simpl; rewrite H3; reflexivity).
  rewrite Hdot, H1, H2. unfold scan_notes. cbn [chars_of_string]. rewrite chars_of_string_of_chars. rewrite <- E.
  destruct (scan_elements_chord D notes (S (List.length (print_chord notes))) {| ls_deco := []; ls_dur := [] |} Hne Hok
              (print_chord_length notes) (or_introl eq_refl)) as [st' [Es Hd]].
  rewrite Es. destruct notes as [|n1 [|n2 rest]]; [contradiction | simpl in Hlen; lia|].
  cbn [map]. rewrite Hd. rewrite E. unfold chord_note. rewrite map_map. reflexivity.
Qed.

Example chord_scan_example :
  let mk p o := {| nt_dur := Some {| cd_num := ["4"%char]; cd_frac := None; cd_dots := 0; cd_grace := "" |}; nt_pitch := p; nt_oct := o;
                   nt_core := []; nt_disp := []; nt_decos := chars_of_string "L;" |} in
  chord_ok (chars_of_string "L;") [mk "c"%char 0; mk "e"%char 1; mk "g"%char 0] /\
  str (print_chord [mk "c"%char 0; mk "e"%char 1; mk "g"%char 0]) = "4cL; 4eeL; 4gL;"%string.
Proof.
  split; [|reflexivity]. repeat constructor; try reflexivity; try (cbn; intuition discriminate); try (eexists; reflexivity); try discriminate.
Qed.
