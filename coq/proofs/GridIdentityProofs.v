(* C01 / C03 at DOCUMENT level for ANY spine structure (several spines, splits, joins, early ends, comments): when every
   cell of the text is in normal form under the header that governs it - it is the export of its own token - the default
   export of the imported document is the source grid itself, minus the '!!' lines and the all-null lines:
   export o import = identity, hence export o import o export = export. *)
From Coq Require Import List String Ascii Bool Arith Lia.
From KV Require Import Strings CatGen Cat EncGen OptGen Token Tokenizers SpineImpGen SpineImp KernTok Importer Exporter
  StringProofs CatProofs TreeProofs ImporterProofs ErrorProofs HeaderSelfProofs GridTokensProofs SingleSpineProofs.
Import ListNotations.
Open Scope list_scope.

(* the cell [c], standing in a spine whose header text is [h], is the export of its own token *)
Definition normal_under (bad : list string) (h c : string) : Prop :=
  if startswith "**" c then mem_str c headers = true
  else if mem_str c spine_operations then True
  else if startswith "!" c then strip_separators c = c
  else exists t, import_cell bad h c = RTok t /\ good t c.

Lemma headers_export_b : forallb (fun h => String.eqb (strip_separators ("**" ++ drop 2 h)) h && negb (mem_str h nullish_tokens)) headers = true.
Proof. vm_compute. reflexivity. Qed.
Lemma ops_export_b : forallb (fun c => String.eqb (strip_separators c) c && negb (mem_str c nullish_tokens)) spine_operations = true.
Proof. vm_compute. reflexivity. Qed.

Lemma mem_str_In x l : mem_str x l = true -> In x l.
Proof. induction l as [|y l IH]; cbn [mem_str]; [discriminate|]. intros H. apply orb_true_iff in H. destruct H as [H|H]; [left; symmetry; apply String.eqb_eq; exact H | right; apply IH; exact H]. Qed.

Lemma cell_out bad d r id c : hdr_ok d -> hself d -> id < List.length (d_nodes d) -> cell_rel bad d r id c -> hashdr d id ->
  (forall hid, n_header (get_node d id) = Some hid -> mem_str (header_text d hid) headers = true /\ normal_under bad (header_text d hid) c) ->
  append_row d default_opts id = Ok (Some c).
Proof.
  intros Hd Hs Hid [t [Et R]] Hh Hn.
  destruct (n_header (get_node d id)) as [hid|] eqn:Ehid; [|exfalso; apply Hh; exact Ehid].
  destruct (Hn hid eq_refl) as [Hsup Hnorm]. clear Hn.
  destruct (Hd id hid Hid Ehid) as [Hle [[e [sp [Eth Ehh]]] _]].
  assert (Etext : header_text d hid = e) by (unfold header_text; rewrite Eth; reflexivity). rewrite Etext in *.
  destruct (header_type_of d id hid Hd Hs Hid Ehid) as [Ety _].
  assert (Ety2 : header_type d hid = Some (e, sp)) by (unfold header_type, node_tok; rewrite Eth; reflexivity).
  rewrite Ety2 in Ety.
  unfold append_row. rewrite Ety. unfold spine_selected. cbn [o_types o_ids default_opts]. rewrite Hsup. cbn [andb negb].
  unfold node_tok. rewrite Et. unfold normal_under in Hnorm.
  destruct (startswith "**" c) eqn:E1.
  - destruct R as [[col ->] _]. cbn [tok_hidden is_complex tok_cat negb andb orb]. change (o_cats default_opts) with all_cats. rewrite mem_all. cbn [negb].
    unfold export_node, node_tok. rewrite Et.
    pose proof headers_export_b as B. rewrite forallb_forall in B. specialize (B c (mem_str_In _ _ Hnorm)).
    apply andb_true_iff in B. destruct B as [B1 B2]. apply String.eqb_eq in B1. apply negb_true_iff in B2.
    match goal with |- match ?X with _ => _ end = _ => assert (EX : X = Ok (strip_separators ("**" ++ drop 2 c))) by reflexivity; rewrite EX end.
    rewrite B1. destruct (String.eqb c "") eqn:E; [apply String.eqb_eq in E; subst; discriminate | reflexivity].
  - destruct (mem_str c spine_operations) eqn:E2.
    + subst t. cbn [tok_hidden is_complex tok_cat negb andb orb]. change (o_cats default_opts) with all_cats. rewrite mem_all. cbn [negb].
      unfold export_node, node_tok. rewrite Et.
      pose proof ops_export_b as B. rewrite forallb_forall in B. specialize (B c (mem_str_In _ _ E2)).
      apply andb_true_iff in B. destruct B as [B1 B2]. apply String.eqb_eq in B1. apply negb_true_iff in B2.
      match goal with |- match ?X with _ => _ end = _ => assert (EX : X = Ok (strip_separators c)) by reflexivity; rewrite EX end.
      rewrite B1. destruct (String.eqb c "") eqn:E; [apply String.eqb_eq in E; subst; discriminate | reflexivity].
    + destruct (startswith "!" c) eqn:E3.
      * subst t. cbn [tok_hidden is_complex tok_cat negb andb orb]. change (o_cats default_opts) with all_cats. rewrite mem_all. cbn [negb].
        unfold export_node, node_tok. rewrite Et.
        match goal with |- match ?X with _ => _ end = _ => assert (EX : X = Ok (strip_separators c)) by reflexivity; rewrite EX end.
        rewrite Hnorm. destruct c as [|x c']; [discriminate | reflexivity].
      * destruct R as [hid' [Eh' R]]. injection Eh' as <-. rewrite Etext in R.
        destruct Hnorm as [t' [Ei G]]. rewrite Ei in R. subst t'.
        destruct G as [Hnh [Hhid [Hx Hnull]]].
        rewrite Hhid. cbn [negb andb]. change (o_cats default_opts) with all_cats. rewrite mem_all, orb_true_r. cbn [negb].
        unfold export_node, node_tok. rewrite Et.
        assert (Hf : header_for (o_enc default_opts) t = Ok t) by (destruct t; try contradiction; reflexivity).
        rewrite Hf. change (o_enc default_opts) with E_normalizedKern. change (o_cats default_opts) with all_cats.
        assert (Hk : forall clef, tokenize E_normalizedKern all_cats clef t = kern_tokenize all_cats t) by (intros clef; reflexivity).
        rewrite Hk, Hx. destruct (String.eqb c "") eqn:E; [apply String.eqb_eq in E; subst; discriminate | reflexivity].
Qed.

(* ---- lines *)
Definition is_meta_row (row : list string) : bool := startswith "!!" (hd ""%string row).
Definition row_text (row : list string) : list string := if is_meta_row row then [] else row.

Definition row_normal (bad : list string) (d : doc) (ids : list nat) (row : list string) : Prop :=
  is_meta_row row = true \/
  Forall2 (fun id c => forall hid, n_header (get_node d id) = Some hid ->
                       mem_str (header_text d hid) headers = true /\ normal_under bad (header_text d hid) c) ids row.

Lemma row_out bad d r ids row : hdr_ok d -> hself d -> Forall (fun id => id < List.length (d_nodes d)) ids ->
  row_rel bad d r ids row -> row_normal bad d ids row -> row_of_stage d default_opts ids = Ok (row_text row).
Proof.
  intros Hd Hs Hb R N. unfold row_rel in R. unfold row_normal in N. unfold row_text, is_meta_row in *. destruct row as [|first rest]; [contradiction|]. cbn [hd] in *.
  destruct (startswith "!!" first) eqn:Em.
  - destruct R as [id [-> [Et Eh]]]. cbn [row_of_stage]. unfold append_row, header_type, node_tok. rewrite Et, Eh. reflexivity.
  - destruct N as [N|N]; [congruence|]. destruct R as [F Hh].
    remember (first :: rest) as row eqn:Erow. clear Erow Em first rest. revert row F N Hb Hh.
    induction ids as [|id ids IH]; intros row F N Hb Hh.
    + inversion F; subst. reflexivity.
    + inversion F as [|? c ? row' Rc F']; subst.
      inversion N as [|? ? ? ? Nc N']; subst. inversion Hb; subst. inversion Hh; subst.
      cbn [row_of_stage]. rewrite (cell_out bad d r id c Hd Hs ltac:(assumption) Rc ltac:(assumption) Nc).
      rewrite (IH row' F' N' ltac:(assumption) ltac:(assumption)). reflexivity.
Qed.

Definition keep_row (xs : list string) : bool := match xs with [] => false | _ => negb (all_nullish xs) end.

Lemma main_rows_list d o : forall sts outs pre, d_stages d = pre ++ sts ->
  Forall2 (fun ids xs => row_of_stage d o ids = Ok xs) sts outs ->
  main_rows d o (List.length pre) (List.length sts) = Ok (filter keep_row outs).
Proof.
  induction sts as [|ids sts IH]; intros outs pre E F; inversion F as [|? xs ? outs' Hx F']; subst; [reflexivity|].
  cbn [List.length main_rows].
  assert (En : nth (List.length pre) (d_stages d) [] = ids) by (rewrite E, app_nth2 by lia; rewrite Nat.sub_diag; reflexivity).
  rewrite En, Hx.
  assert (E2 : d_stages d = (pre ++ [ids]) ++ sts) by (rewrite E, <- app_assoc; reflexivity).
  pose proof (IH outs' (pre ++ [ids]) E2 F') as H. rewrite app_length in H. cbn [List.length] in H.
  replace (List.length pre + 1) with (S (List.length pre)) in H by lia. rewrite H.
  destruct xs as [|x xs']; [reflexivity|]. cbn [filter]. change (keep_row (x :: xs')) with (negb (all_nullish (x :: xs'))). destruct (all_nullish (x :: xs')); reflexivity.
Qed.

Fixpoint rows_normal (bad : list string) (d : doc) (sts : list (list nat)) (rows : list (list string)) : Prop :=
  match sts, rows with
  | ids :: sts', row :: rows' => row_normal bad d ids row /\ rows_normal bad d sts' rows'
  | _, _ => True
  end.

Lemma rows_out bad d : hdr_ok d -> hself d -> forall sts rows k,
  Forall (Forall (fun id => id < List.length (d_nodes d))) sts -> rows_rel bad d k sts rows -> rows_normal bad d sts rows ->
  Forall2 (fun ids xs => row_of_stage d default_opts ids = Ok xs) sts (map row_text rows).
Proof.
  intros Hd Hs. induction sts as [|ids sts IH]; intros rows k Hb R N; destruct rows as [|row rows]; cbn [rows_rel] in R; try contradiction; [constructor|].
  destruct R as [R1 R2]. destruct N as [N1 N2]. inversion Hb; subst. cbn [map]. constructor.
  - eapply row_out; eassumption.
  - eapply IH; eassumption.
Qed.

(* ---- the document *)
From KV Require Import SigForceProofs.

Theorem export_of_normal_document bad text d : loads bad text = IOk d ->
  forall sts, d_stages d = [0] :: sts ->
  rows_normal bad d sts (filter nonempty_row (rows_of_text text)) ->
  export_rows d default_opts = Ok (filter keep_row (map row_text (filter nonempty_row (rows_of_text text)))).
Proof.
  intros HL sts Est N.
  pose proof (loads_headers bad text d HL) as Hd. pose proof (loads_hself bad text d HL) as Hs.
  pose proof (loads_sig_inv bad text d HL) as [[_ R0] _].
  (* the grid invariant, with the bounds on the ids *)
  unfold loads in HL. destruct (run_rows bad init_state (rows_of_text text)) as [s| |] eqn:Hr; try discriminate.
  injection HL as <-.
  destruct (run_rows_grid bad _ _ _ _ (grid_inv_init bad) Hr) as [_ [_ [_ [sts' [E1 [R [B _]]]]]]].
  cbn [app] in R. rewrite Est in E1. injection E1 as <-.
  pose proof (rows_out bad (i_doc s) Hd Hs sts _ 1 B R N) as F.
  (* the root stage exports nothing *)
  assert (Hroot : row_of_stage (i_doc s) default_opts [0] = Ok []).
  { cbn [row_of_stage]. unfold append_row, header_type, node_tok. rewrite R0.
    destruct (n_header (get_node (i_doc s) 0)) as [h|] eqn:Eh; [|reflexivity].
    exfalso. assert (H0 : 0 < List.length (d_nodes (i_doc s))) by (destruct (loads_tree_ok bad text (i_doc s)); [unfold loads; rewrite Hr; reflexivity | assumption]).
    destruct (Hd 0 h H0 Eh) as [Hle [[e [sp [Et _]]] _]]. assert (h = 0) by lia. subst h. rewrite R0 in Et. discriminate. }
  unfold export_rows, export_body. cbn [o_from o_to default_opts]. cbv iota. cbn [negb].
  rewrite Est. cbn [List.length]. replace (S (S (List.length sts) - 1) - 0) with (S (List.length sts)) by lia.
  pose proof (main_rows_list (i_doc s) default_opts ([0] :: sts) ([] :: map row_text (filter nonempty_row (rows_of_text text))) [] Est) as M.
  cbn [List.length] in M. rewrite M; [|constructor; [exact Hroot | exact F]].
  cbn [filter keep_row add_terminator]. reflexivity.
Qed.

Example normal_document_example :
  let text := "**kern	**kern
*clefG2	*clefF4
=	=
4c;L	2.r
*^	*
8.dd#	4e	4C 4E
*v	*v	*
==	==
*-	*-
"%string in
  match loads [] text with
  | IOk d => export_rows d default_opts = Ok (filter keep_row (map row_text (filter nonempty_row (rows_of_text text))))
  | _ => False
  end.
Proof. vm_compute. reflexivity. Qed.
