(* Parser correctness on canonical note text (C01 / C03): the CKL scanner + listener, run on the printed form
   duration ++ pitch ++ accidental ++ signifiers of a well-formed note, returns exactly the note's sub-tokens and
   consumes the whole text - for every duration (any digits, optional %n, any number of dots, optional grace /
   appoggiatura mark), every pitch letter and octave (repetition count in nat), every accidental with or without
   display suffix and every duplicate-free list of stand-alone signifiers. *)
From Coq Require Import List String Ascii Bool ZArith Lia.
From KV Require Import Strings CatGen Cat Token KernTok CanonProofs.
Import ListNotations.
Open Scope list_scope.

(* ---- take_while *)
Definition stops (p : ascii -> bool) (b : chars) : Prop := match b with [] => True | c :: _ => p c = false end.

Lemma take_while_app p : forall a b, forallb p a = true -> stops p b -> take_while p (a ++ b) = (a, b).
Proof.
  induction a as [|x a IH]; intros b Ha Hb; simpl.
  - destruct b as [|c b]; [reflexivity|]. simpl in Hb. simpl. now rewrite Hb.
  - simpl in Ha. apply andb_true_iff in Ha. destruct Ha as [Hx Ha]. rewrite Hx, (IH b Ha Hb). reflexivity.
Qed.

Lemma take_while_none p b : stops p b -> take_while p b = ([], b).
Proof. intros H. exact (take_while_app p [] b eq_refl H). Qed.

Lemma take_while_all p a : forallb p a = true -> take_while p a = (a, []).
Proof. intros H. rewrite <- (app_nil_r a) at 1. apply take_while_app; [exact H | exact I]. Qed.

(* ---- character classes are disjoint (finite facts about the scanner's tables, all 256 bytes) *)
Definition all_bytes : list ascii := map ascii_of_nat (seq 0 256).
Lemma all_bytes_complete c : In c all_bytes.
Proof.
  unfold all_bytes. apply in_map_iff. exists (nat_of_ascii c). split; [apply ascii_nat_embedding|].
  apply in_seq. pose proof (nat_ascii_bounded c). lia.
Qed.
Lemma byte_lift (f : ascii -> bool) : forallb f all_bytes = true -> forall c, f c = true.
Proof. intros H c. rewrite forallb_forall in H. apply H, all_bytes_complete. Qed.

Definition special (c : ascii) : bool :=   (* characters that start / belong to duration, pitch, accidental, rest, chord space *)
  is_digit c || is_pitch_letter c || in_chars "#-n%.qpPr " c.

Lemma deco_not_special_b : forallb (fun c => implb (is_note_deco c) (negb (special c))) all_bytes = true.
Proof. vm_compute. reflexivity. Qed.
Lemma deco_not_special c : is_note_deco c = true -> special c = false.
Proof. intros H. pose proof (byte_lift _ deco_not_special_b c) as G. cbv beta in G. rewrite H in G. simpl in G. now apply negb_true_iff. Qed.

Lemma special_parts c : special c = false ->
  is_digit c = false /\ is_pitch_letter c = false /\ in_chars "#-n%.qpPr " c = false.
Proof. unfold special. intros H. apply orb_false_iff in H. destruct H as [H H3]. apply orb_false_iff in H. tauto. Qed.

Lemma digit_props_b : forallb (fun c => implb (is_digit c) (negb (is_note_deco c) && negb (is_pitch_letter c) && negb (in_chars "#-n%.qpPr =*" c))) all_bytes = true.
Proof. vm_compute. reflexivity. Qed.
Lemma pitch_props_b : forallb (fun c => implb (is_pitch_letter c) (negb (is_note_deco c) && negb (is_digit c) && negb (in_chars "#-n%.qpPr =*" c))) all_bytes = true.
Proof. vm_compute. reflexivity. Qed.

Lemma digit_props c : is_digit c = true -> is_note_deco c = false /\ is_pitch_letter c = false /\ in_chars "#-n%.qpPr =*" c = false.
Proof.
  intros H. pose proof (byte_lift _ digit_props_b c) as G. cbv beta in G. rewrite H in G. simpl in G.
  apply andb_true_iff in G. destruct G as [G G3]. apply andb_true_iff in G. destruct G as [G1 G2].
  rewrite !negb_true_iff in *. tauto.
Qed.
Lemma pitch_props c : is_pitch_letter c = true -> is_note_deco c = false /\ is_digit c = false /\ in_chars "#-n%.qpPr =*" c = false.
Proof.
  intros H. pose proof (byte_lift _ pitch_props_b c) as G. cbv beta in G. rewrite H in G. simpl in G.
  apply andb_true_iff in G. destruct G as [G G3]. apply andb_true_iff in G. destruct G as [G1 G2].
  rewrite !negb_true_iff in *. tauto.
Qed.
