(* Parser correctness on canonical note text (C01 / C03): the CKL scanner + listener, run on the printed form
   duration ++ pitch ++ accidental ++ signifiers of a well-formed note, returns exactly the note's sub-tokens and
   consumes the whole text - for every duration (any digits, optional %n, any number of dots, optional grace /
   appoggiatura mark), every pitch letter and octave (repetition count in nat), every accidental with or without
   display suffix and every duplicate-free list of stand-alone signifiers. *)
From Coq Require Import List String Ascii Bool ZArith Lia.
From KV Require Import Strings CatGen Cat Token KernTok CanonProofs.
Import ListNotations.
Open Scope list_scope.

(* ---- take_while *)
Definition stops (p : ascii -> bool) (b : chars) : Prop := match b with [] => True | c :: _ => p c = false end.

Lemma take_while_app p : forall a b, forallb p a = true -> stops p b -> take_while p (a ++ b) = (a, b).
Proof.
  induction a as [|x a IH]; intros b Ha Hb; simpl.
  - destruct b as [|c b]; [reflexivity|]. simpl in Hb. simpl. now rewrite Hb.
  - simpl in Ha. apply andb_true_iff in Ha. destruct Ha as [Hx Ha]. rewrite Hx, (IH b Ha Hb). reflexivity.
Qed.

Lemma take_while_none p b : stops p b -> take_while p b = ([], b).
Proof. intros H. exact (take_while_app p [] b eq_refl H). Qed.

Lemma take_while_all p a : forallb p a = true -> take_while p a = (a, []).
Proof. intros H. rewrite <- (app_nil_r a) at 1. apply take_while_app; [exact H | exact I]. Qed.

(* ---- character classes are disjoint (finite facts about the scanner's tables, all 256 bytes) *)
Definition all_bytes : list ascii := map ascii_of_nat (seq 0 256).
Lemma all_bytes_complete c : In c all_bytes.
Proof.
  unfold all_bytes. apply in_map_iff. exists (nat_of_ascii c). split; [apply ascii_nat_embedding|].
  apply in_seq. pose proof (nat_ascii_bounded c). lia.
Qed.
Lemma byte_lift (f : ascii -> bool) : forallb f all_bytes = true -> forall c, f c = true.
Proof. intros H c. rewrite forallb_forall in H. apply H, all_bytes_complete. Qed.

Definition special (c : ascii) : bool :=   (* characters that start / belong to duration, pitch, accidental, rest, chord space *)
  is_digit c || is_pitch_letter c || in_chars "#-n%.qpPr " c.

Lemma deco_not_special_b : forallb (fun c => implb (is_note_deco c) (negb (special c))) all_bytes = true.
Proof. vm_compute. reflexivity. Qed.
Lemma deco_not_special c : is_note_deco c = true -> special c = false.
Proof. intros H. pose proof (byte_lift _ deco_not_special_b c) as G. cbv beta in G. rewrite H in G. simpl in G. now apply negb_true_iff. Qed.

Lemma special_parts c : special c = false ->
  is_digit c = false /\ is_pitch_letter c = false /\ in_chars "#-n%.qpPr " c = false.
Proof. unfold special. intros H. apply orb_false_iff in H. destruct H as [H H3]. apply orb_false_iff in H. tauto. Qed.

Lemma digit_props_b : forallb (fun c => implb (is_digit c) (negb (is_note_deco c) && negb (is_pitch_letter c) && negb (in_chars "#-n%.qpPr =*" c))) all_bytes = true.
Proof. vm_compute. reflexivity. Qed.
Lemma pitch_props_b : forallb (fun c => implb (is_pitch_letter c) (negb (is_note_deco c) && negb (is_digit c) && negb (in_chars "#-n%.qpPr =*" c))) all_bytes = true.
Proof. vm_compute. reflexivity. Qed.

Lemma digit_props c : is_digit c = true -> is_note_deco c = false /\ is_pitch_letter c = false /\ in_chars "#-n%.qpPr =*" c = false.
Proof.
  intros H. pose proof (byte_lift _ digit_props_b c) as G. cbv beta in G. rewrite H in G. simpl in G.
  apply andb_true_iff in G. destruct G as [G G3]. apply andb_true_iff in G. destruct G as [G1 G2].
  rewrite !negb_true_iff in *. tauto.
Qed.
Lemma pitch_props c : is_pitch_letter c = true -> is_note_deco c = false /\ is_digit c = false /\ in_chars "#-n%.qpPr =*" c = false.
Proof.
  intros H. pose proof (byte_lift _ pitch_props_b c) as G. cbv beta in G. rewrite H in G. simpl in G.
  apply andb_true_iff in G. destruct G as [G G3]. apply andb_true_iff in G. destruct G as [G1 G2].
  rewrite !negb_true_iff in *. tauto.
Qed.

(* ---- numbers and durations *)
Lemma scan_number_app ds X : forallb is_digit ds = true -> ds <> [] -> stops is_digit X -> scan_number (ds ++ X) = Some (ds, X).
Proof.
  intros Hd Hne Hx. unfold scan_number. rewrite (take_while_app is_digit ds X Hd Hx). destruct ds; [contradiction | reflexivity].
Qed.

(* a canonical duration: digits, optional %digits, dots, optional grace / appoggiatura mark *)
Record cdur := { cd_num : chars; cd_frac : option chars; cd_dots : nat; cd_grace : string }.

Definition grace_ok (g : string) : bool := mem_str g [""; "q"; "qq"; "p"; "P"]%string.

Definition dur_ok (d : cdur) : Prop :=
  forallb is_digit (cd_num d) = true /\ cd_num d <> [] /\
  match cd_frac d with Some f => forallb is_digit f = true /\ f <> [] | None => True end /\
  grace_ok (cd_grace d) = true.

Definition modern_chars (d : cdur) : chars :=
  cd_num d ++ match cd_frac d with Some f => "%"%char :: f | None => [] end.
Definition print_dur (d : cdur) : chars :=
  modern_chars d ++ repeat "."%char (cd_dots d) ++ chars_of_string (cd_grace d).
Definition dur_tokens (d : cdur) : list string :=
  str (modern_chars d) :: repeat "."%string (cd_dots d) ++ (if String.eqb (cd_grace d) "" then [] else [cd_grace d]).

(* what may follow a duration in canonical text: a pitch letter or the rest letter *)
Definition after_dur (X : chars) : Prop :=
  match X with c :: _ => is_pitch_letter c = true \/ c = "r"%char | [] => False end.

Lemma after_dur_head X : after_dur X -> exists c X', X = c :: X' /\ is_digit c = false /\ Ascii.eqb c "%" = false /\
  Ascii.eqb "." c = false /\ Ascii.eqb c "q" = false /\ Ascii.eqb c "p" = false /\ Ascii.eqb c "P" = false.
Proof.
  destruct X as [|c X']; [contradiction|]. intros [H|H].
  - exists c, X'. split; [reflexivity|]. destruct (pitch_props c H) as [_ [Hd Hs]].
    assert (G : forallb (fun c => implb (is_pitch_letter c) (negb (Ascii.eqb c "%") && negb (Ascii.eqb "." c) && negb (Ascii.eqb c "q")
                                        && negb (Ascii.eqb c "p") && negb (Ascii.eqb c "P"))) all_bytes = true) by (vm_compute; reflexivity).
    pose proof (byte_lift _ G c) as G'. cbv beta in G'. rewrite H in G'. simpl in G'.
    repeat (apply andb_true_iff in G'; destruct G' as [G' ?]). rewrite !negb_true_iff in *. repeat split; assumption.
  - subst c. exists "r"%char, X'. repeat split; reflexivity.
Qed.

Lemma map_dots n : map (fun _ : ascii => "."%string) (repeat "."%char n) = repeat "."%string n.
Proof. induction n; simpl; congruence. Qed.

Lemma forallb_repeat {A} (p : A -> bool) x n : p x = true -> forallb p (repeat x n) = true.
Proof. intros H. induction n; simpl; [reflexivity | now rewrite H]. Qed.

Lemma grace_cases g : grace_ok g = true -> g = ""%string \/ g = "q"%string \/ g = "qq"%string \/ g = "p"%string \/ g = "P"%string.
Proof.
  unfold grace_ok. simpl. rewrite !orb_true_iff. intros [H|[H|[H|[H|[H|H]]]]]; try discriminate; apply String.eqb_eq in H; tauto.
Qed.

(* the dots and the grace mark, once the modern duration has been read *)
Lemma dots_and_grace m dots g X c X' : X = c :: X' -> Ascii.eqb "." c = false -> Ascii.eqb c "q" = false ->
  Ascii.eqb c "p" = false -> Ascii.eqb c "P" = false -> grace_ok g = true ->
  (let '(ds, r4) := take_while (Ascii.eqb ".") (repeat "."%char dots ++ chars_of_string g ++ X) in
   let base := str m :: map (fun _ : ascii => "."%string) ds in
   match r4 with
   | c1 :: r5 =>
     if Ascii.eqb c1 "q" then
       match r5 with
       | c2 :: r6 => if Ascii.eqb c2 "q" then Some (base ++ ["qq"%string], r6) else Some (base ++ ["q"%string], r5)
       | [] => Some (base ++ ["q"%string], r5)
       end
     else if Ascii.eqb c1 "p" then Some (base ++ ["p"%string], r5)
     else if Ascii.eqb c1 "P" then Some (base ++ ["P"%string], r5)
     else Some (base, r4)
   | [] => Some (base, r4)
   end) = Some (str m :: repeat "."%string dots ++ (if String.eqb g "" then [] else [g]), X).
Proof.
  intros EX Hdot Hq Hp HP Hg.
  assert (Hstop : stops (Ascii.eqb ".") (chars_of_string g ++ X)).
  { destruct (grace_cases g Hg) as [->|[->|[->|[->| ->]]]]; simpl; try reflexivity. rewrite EX. simpl. exact Hdot. }
  rewrite (take_while_app (Ascii.eqb ".") (repeat "."%char dots) _ (forallb_repeat _ _ _ eq_refl) Hstop).
  rewrite map_dots.
  destruct (grace_cases g Hg) as [->|[->|[->|[->| ->]]]]; cbn [chars_of_string app String.eqb Ascii.eqb Bool.eqb].
  - rewrite EX, Hq, Hp, HP. now rewrite app_nil_r.
  - rewrite EX. rewrite Hq. reflexivity.
  - reflexivity.
  - reflexivity.
  - reflexivity.
Qed.

Theorem scan_duration_print d X : dur_ok d -> after_dur X -> scan_duration (print_dur d ++ X) = Some (dur_tokens d, X).
Proof.
  intros [Hn [Hne [Hf Hg]]] HX. destruct (after_dur_head X HX) as [c [X' [EX [Hcd [Hcp [Hcdot [Hcq [Hcpp HcP]]]]]]]].
  destruct d as [num frac dots g]. cbn [cd_num cd_frac cd_dots cd_grace] in *.
  unfold scan_duration, print_dur, dur_tokens, modern_chars. cbn [cd_num cd_frac cd_dots cd_grace].
  set (tail := repeat "."%char dots ++ chars_of_string g ++ X).
  assert (Htail_nd : stops is_digit tail).
  { unfold tail. destruct dots; simpl; [|reflexivity].
    destruct (grace_cases g Hg) as [->|[->|[->|[->| ->]]]]; simpl; try reflexivity. rewrite EX. simpl. exact Hcd. }
  replace (((num ++ match frac with Some f => "%"%char :: f | None => [] end) ++ repeat "."%char dots ++ chars_of_string g) ++ X)
    with (num ++ (match frac with Some f => "%"%char :: f | None => [] end ++ tail))
    by (unfold tail; rewrite <- !app_assoc; reflexivity).
  destruct frac as [f|].
  - destruct Hf as [Hfd Hfne].
    rewrite (scan_number_app num _ Hn Hne) by reflexivity.
    cbn [app]. rewrite Ascii.eqb_refl. rewrite (scan_number_app f tail Hfd Hfne Htail_nd).
    unfold tail. exact (dots_and_grace _ dots g X c X' EX Hcdot Hcq Hcpp HcP Hg).
  - cbn [app]. rewrite (scan_number_app num tail Hn Hne Htail_nd). rewrite ?app_nil_r.
    assert (Hnot_pct : exists c0 r1, tail = c0 :: r1 /\ Ascii.eqb c0 "%" = false).
    { unfold tail. destruct dots; simpl; [|eexists; eexists; split; reflexivity].
      destruct (grace_cases g Hg) as [->|[->|[->|[->| ->]]]]; simpl; try (eexists; eexists; split; reflexivity).
      rewrite EX. exists c, X'. split; [reflexivity | exact Hcp]. }
    destruct Hnot_pct as [c0 [r1 [Et Hc0]]]. rewrite Et, Hc0, <- Et. unfold tail.
    exact (dots_and_grace _ dots g X c X' EX Hcdot Hcq Hcpp HcP Hg).
Qed.

(* ---- accidentals *)
Definition core_ok (core : chars) : bool :=
  match core with
  | [] => true
  | c :: _ => ((Ascii.eqb c "#" && forallb (Ascii.eqb "#") core) || (Ascii.eqb c "-" && forallb (Ascii.eqb "-") core)) && Nat.leb (List.length core) 3
              || (Ascii.eqb c "n" && Nat.eqb (List.length core) 1)
  end.
Definition disp_ok (disp : chars) : bool :=
  match disp with
  | [] => true
  | [c] => is_display c
  | [c1; c2] => (Ascii.eqb c1 "y" && Ascii.eqb c2 "y") || (Ascii.eqb c1 "Y" && Ascii.eqb c2 "Y")
  | _ => false
  end.

(* what may follow an accidental in canonical text: nothing, or a stand-alone signifier that cannot be taken for (part of)
   the display suffix *)
Definition after_acc (core disp X : chars) : Prop :=
  match X with
  | [] => True
  | c :: _ => (is_note_deco c = true \/ c = " "%char) /\ (core <> [] -> disp = [] -> is_display c = false)
  end.

Lemma deco_char_facts c : is_note_deco c = true ->
  Ascii.eqb "#" c = false /\ Ascii.eqb "-" c = false /\ Ascii.eqb c "#" = false /\ Ascii.eqb c "-" = false /\ Ascii.eqb c "n" = false
  /\ Ascii.eqb c "y" = false /\ Ascii.eqb c "Y" = false /\ is_pitch_letter c = false /\ is_digit c = false.
Proof.
  intros H.
  assert (G : forallb (fun c => implb (is_note_deco c) (negb (Ascii.eqb "#" c) && negb (Ascii.eqb "-" c) && negb (Ascii.eqb c "#") && negb (Ascii.eqb c "-")
               && negb (Ascii.eqb c "n") && negb (Ascii.eqb c "y") && negb (Ascii.eqb c "Y") && negb (is_pitch_letter c) && negb (is_digit c))) all_bytes = true)
    by (vm_compute; reflexivity).
  pose proof (byte_lift _ G c) as G'. cbv beta in G'. rewrite H in G'. simpl in G'.
  repeat (apply andb_true_iff in G'; destruct G' as [G' ?]). rewrite !negb_true_iff in *. repeat split; assumption.
Qed.

(* the same facts for what may follow a note inside a chord: a stand-alone signifier or the separating blank *)
Lemma sep_char_facts c : (is_note_deco c = true \/ c = " "%char) ->
  Ascii.eqb "#" c = false /\ Ascii.eqb "-" c = false /\ Ascii.eqb c "#" = false /\ Ascii.eqb c "-" = false /\ Ascii.eqb c "n" = false
  /\ Ascii.eqb c "y" = false /\ Ascii.eqb c "Y" = false /\ is_pitch_letter c = false /\ is_digit c = false.
Proof. intros [H| ->]; [apply deco_char_facts; exact H | repeat split; reflexivity]. Qed.

Lemma scan_acc_core_print core disp X : core_ok core = true -> disp_ok disp = true -> (core = [] -> disp = []) ->
  after_acc core disp X -> scan_acc_core (core ++ disp ++ X) = Some (core, disp ++ X).
Proof.
  intros Hc Hd Hcd HX. unfold scan_acc_core.
  destruct core as [|c core'].
  - rewrite (Hcd eq_refl). cbn [app]. destruct X as [|x X']; [reflexivity|].
    destruct HX as [Hx _]. destruct (sep_char_facts x Hx) as [_ [_ [E1 [E2 [E3 _]]]]]. rewrite E1, E2, E3. reflexivity.
  - assert (Hstop : forall ch, (ch = "#"%char \/ ch = "-"%char) -> stops (Ascii.eqb ch) (disp ++ X)).
    { intros ch Hch. destruct disp as [|d1 disp'].
      - simpl. destruct X as [|x X']; [exact I|]. destruct HX as [Hx _]. destruct (sep_char_facts x Hx) as [E1 [E2 _]].
        simpl. destruct Hch as [-> | ->]; assumption.
      - simpl. assert (Hd1 : is_display d1 = true).
        { destruct disp' as [|d2 [|d3 disp'']]; simpl in Hd; [exact Hd | | discriminate].
          apply orb_true_iff in Hd. destruct Hd as [Hd|Hd]; apply andb_true_iff in Hd; destruct Hd as [Hd _]; apply Ascii.eqb_eq in Hd; subst; reflexivity. }
        assert (G : forallb (fun c => implb (is_display c) (negb (Ascii.eqb "#" c) && negb (Ascii.eqb "-" c))) all_bytes = true) by (vm_compute; reflexivity).
        pose proof (byte_lift _ G d1) as G'. cbv beta in G'. rewrite Hd1 in G'. simpl in G'. apply andb_true_iff in G'.
        destruct G' as [G1 G2]. rewrite negb_true_iff in *. destruct Hch as [-> | ->]; assumption. }
    unfold core_ok in Hc. apply orb_true_iff in Hc. destruct Hc as [Hc|Hc].
    + apply andb_true_iff in Hc. destruct Hc as [Hrun Hlen]. apply orb_true_iff in Hrun. destruct Hrun as [Hrun|Hrun];
        apply andb_true_iff in Hrun; destruct Hrun as [Hc0 Hall]; apply Ascii.eqb_eq in Hc0; subst c.
      * change (("#"%char :: core') ++ disp ++ X) with ("#"%char :: (core' ++ disp ++ X)). cbv iota. rewrite Ascii.eqb_refl.
        change ("#"%char :: core' ++ disp ++ X) with (("#"%char :: core') ++ disp ++ X).
        rewrite (take_while_app (Ascii.eqb "#") ("#"%char :: core') (disp ++ X) Hall (Hstop _ (or_introl eq_refl))). rewrite Hlen. reflexivity.
      * change (("-"%char :: core') ++ disp ++ X) with ("-"%char :: (core' ++ disp ++ X)). cbv iota.
        replace (Ascii.eqb "-" "#") with false by reflexivity. rewrite Ascii.eqb_refl.
        change ("-"%char :: core' ++ disp ++ X) with (("-"%char :: core') ++ disp ++ X).
        rewrite (take_while_app (Ascii.eqb "-") ("-"%char :: core') (disp ++ X) Hall (Hstop _ (or_intror eq_refl))). rewrite Hlen. reflexivity.
    + apply andb_true_iff in Hc. destruct Hc as [Hc0 Hlen]. apply Ascii.eqb_eq in Hc0. subst c.
      destruct core' as [|? ?]; [|discriminate]. reflexivity.
Qed.

Lemma scan_acc_display_print core disp X : core <> [] -> disp_ok disp = true -> after_acc core disp X ->
  scan_acc_display core (disp ++ X) = (core ++ disp, X).
Proof.
  intros Hne Hd HX. unfold scan_acc_display.
  destruct disp as [|d1 [|d2 [|d3 disp']]]; simpl in Hd; try discriminate.
  - cbn [app]. rewrite app_nil_r. destruct X as [|x X']; [reflexivity|]. destruct HX as [Hx Hnd].
    rewrite (Hnd Hne eq_refl). reflexivity.
  - cbn [app]. rewrite Hd. destruct (Ascii.eqb d1 "y" || Ascii.eqb d1 "Y") eqn:Ey; [|reflexivity].
    destruct X as [|x X']; [reflexivity|]. destruct HX as [Hx _]. destruct (sep_char_facts x Hx) as [_ [_ [_ [_ [_ [Ey1 [Ey2 _]]]]]]].
    apply orb_true_iff in Ey. destruct Ey as [Ey|Ey]; apply Ascii.eqb_eq in Ey; subst d1; [rewrite Ey1 | rewrite Ey2]; reflexivity.
  - cbn [app]. apply orb_true_iff in Hd. destruct Hd as [Hd|Hd]; apply andb_true_iff in Hd; destruct Hd as [H1 H2];
      apply Ascii.eqb_eq in H1; apply Ascii.eqb_eq in H2; subst d1 d2; cbn; first [reflexivity | rewrite <- app_assoc; reflexivity].
Qed.

Theorem scan_accidental_print core disp X : core_ok core = true -> disp_ok disp = true -> (core = [] -> disp = []) ->
  after_acc core disp X -> scan_accidental (core ++ disp ++ X) = Some (core ++ disp, X).
Proof.
  intros Hc Hd Hcd HX. unfold scan_accidental. rewrite (scan_acc_core_print core disp X Hc Hd Hcd HX).
  destruct core as [|c core'].
  - rewrite (Hcd eq_refl). reflexivity.
  - rewrite (scan_acc_display_print (c :: core') disp X ltac:(discriminate) Hd HX). reflexivity.
Qed.

(* ---- a whole note in canonical order *)
Record cnote := { nt_dur : option cdur; nt_pitch : ascii; nt_oct : nat; nt_core : chars; nt_disp : chars; nt_decos : chars }.

Definition note_ok (n : cnote) : Prop :=
  match nt_dur n with Some d => dur_ok d | None => True end /\
  is_pitch_letter (nt_pitch n) = true /\
  core_ok (nt_core n) = true /\ disp_ok (nt_disp n) = true /\ (nt_core n = [] -> nt_disp n = []) /\
  forallb is_note_deco (nt_decos n) = true /\ NoDup (nt_decos n) /\
  (nt_core n <> [] -> nt_disp n = [] -> match nt_decos n with c :: _ => is_display c = false | [] => True end).

Definition pitch_chars (n : cnote) : chars := repeat (nt_pitch n) (S (nt_oct n)).
Definition acc_chars (n : cnote) : chars := nt_core n ++ nt_disp n.
Definition print_note (n : cnote) : chars :=
  match nt_dur n with Some d => print_dur d | None => [] end ++ pitch_chars n ++ acc_chars n ++ nt_decos n.

Definition note_pd (n : cnote) : list subtoken :=
  mk_durs (match nt_dur n with Some d => dur_tokens d | None => [] end)
  ++ [{| st_enc := str (pitch_chars n); st_cat := PITCH |}]
  ++ match acc_chars n with [] => [] | a => [{| st_enc := str a; st_cat := ALTERATION |}] end.

Lemma add_decos_nodup : forall l acc, NoDup l -> (forall c, In c l -> ~ In (deco_of c) acc) -> all_deco acc ->
  add_decos acc l = acc ++ map deco_of l.
Proof.
  induction l as [|c l IH]; intros acc Hn Hd Ha; simpl; [now rewrite app_nil_r|].
  inversion Hn as [|? ? Hc Hn']; subst.
  assert (E : existsb (fun s => String.eqb (st_enc s) (String c "")) acc = false).
  { destruct (existsb _ acc) eqn:E; [|reflexivity]. apply (existsb_enc acc c Ha) in E. exfalso. apply (Hd c); [now left | exact E]. }
  rewrite E. rewrite IH.
  - rewrite <- app_assoc. reflexivity.
  - exact Hn'.
  - intros x Hx Hin. apply in_app_iff in Hin. destruct Hin as [Hin|[Hin|[]]].
    + apply (Hd x); [now right | exact Hin].
    + unfold deco_of in Hin. injection Hin as Hin. subst x. contradiction.
  - intros s Hs. apply in_app_iff in Hs. destruct Hs as [Hs|[<-|[]]]; [apply Ha; exact Hs | now exists c].
Qed.

Lemma concat_dur_tokens d : dur_ok d -> chars_of_string (String.concat "" (dur_tokens d)) = print_dur d.
Proof.
  intros [_ [_ [_ Hg]]]. unfold dur_tokens, print_dur. destruct d as [num frac dots g]. cbn [cd_num cd_frac cd_dots cd_grace modern_chars] in *.
  assert (Hcat : forall (l : list string) (s : string), chars_of_string (String.concat "" (s :: l)) = chars_of_string s ++ chars_of_string (String.concat "" l)).
  { intros l s. destruct l as [|x l]; simpl; [now rewrite app_nil_r|]. now rewrite chars_of_string_app. }
  rewrite Hcat. unfold str. rewrite chars_of_string_of_chars. f_equal.
  assert (Hdots : forall k (tl : list string), chars_of_string (String.concat "" (repeat "."%string k ++ tl)) = repeat "."%char k ++ chars_of_string (String.concat "" tl)).
  { induction k as [|k IH]; intros tl; [reflexivity|]. cbn [repeat app]. rewrite Hcat, IH. reflexivity. }
  rewrite Hdots. f_equal. destruct (grace_cases g Hg) as [->|[->|[->|[->| ->]]]]; reflexivity.
Qed.

Lemma scan_note_tail_print n dtext durs : note_ok n ->
  scan_note_tail {| ls_deco := []; ls_dur := [] |} [] dtext [] (pitch_chars n) durs (acc_chars n ++ nt_decos n) =
  Some (dtext ++ pitch_chars n ++ acc_chars n ++ nt_decos n,
        {| ls_deco := map deco_of (nt_decos n); ls_dur := match durs with Some ds => mk_durs ds | None => [] end |},
        match durs with Some ds => mk_durs ds | None => [] end ++ [{| st_enc := str (pitch_chars n); st_cat := PITCH |}]
        ++ match acc_chars n with [] => [] | a => [{| st_enc := str a; st_cat := ALTERATION |}] end, []).
Proof.
  intros [Hdur [Hp [Hc [Hd [Hcd [Hde [Hnd Hdisp]]]]]]]. unfold scan_note_tail, acc_chars. cbn [ls_deco ls_dur].
  assert (Hdecos : add_decos [] (nt_decos n) = map deco_of (nt_decos n)).
  { rewrite (add_decos_nodup (nt_decos n) [] Hnd); [reflexivity | intros c _ [] | intros s []]. }
  destruct (nt_core n) as [|c core'] eqn:Ec.
  - (* no accidental: the signifiers follow the pitch letters *)
    rewrite (Hcd eq_refl). cbn [app]. rewrite (take_while_all is_note_deco (nt_decos n) Hde).
    cbn [scan_accidental scan_acc_core take_while add_decos]. rewrite Hdecos. rewrite ?app_nil_r. reflexivity.
  - (* an accidental: it stops the signifier run, the signifiers follow it *)
    assert (Hc0 : is_note_deco c = false).
    { unfold core_ok in Hc. apply orb_true_iff in Hc. destruct Hc as [Hc|Hc].
      - apply andb_true_iff in Hc. destruct Hc as [Hc _]. apply orb_true_iff in Hc. destruct Hc as [Hc|Hc];
          apply andb_true_iff in Hc; destruct Hc as [Hc _]; apply Ascii.eqb_eq in Hc; subst c; reflexivity.
      - apply andb_true_iff in Hc. destruct Hc as [Hc _]. apply Ascii.eqb_eq in Hc. subst c. reflexivity. }
    rewrite <- app_assoc. rewrite (take_while_none is_note_deco ((c :: core') ++ nt_disp n ++ nt_decos n)) by (simpl; exact Hc0).
    assert (HX : after_acc (c :: core') (nt_disp n) (nt_decos n)).
    { unfold after_acc. destruct (nt_decos n) as [|x xs] eqn:Ex; [exact I|].
      simpl in Hde. apply andb_true_iff in Hde. destruct Hde as [Hx _]. split; [left; exact Hx|]. intros _ Hdn. exact (Hdisp ltac:(discriminate) Hdn). }
    rewrite (scan_accidental_print (c :: core') (nt_disp n) (nt_decos n) Hc Hd ltac:(discriminate) HX).
    rewrite (take_while_all is_note_deco (nt_decos n) Hde). cbn [add_decos]. rewrite Hdecos.
    cbn [app]. rewrite ?app_nil_r. rewrite <- ?app_assoc. reflexivity.
Qed.

Theorem scan_note_print n : note_ok n ->
  scan_note {| ls_deco := []; ls_dur := [] |} (print_note n) =
  Some (print_note n, {| ls_deco := map deco_of (nt_decos n); ls_dur := mk_durs (match nt_dur n with Some d => dur_tokens d | None => [] end) |},
        note_pd n, []).
Proof.
  intros Hok. pose proof Hok as [Hdur [Hp [Hc [Hd [Hcd [Hde [Hnd Hdisp]]]]]]].
  destruct (pitch_props _ Hp) as [Hp_nd [Hp_ndig Hp_ns]].
  assert (Hafter : after_dur (pitch_chars n ++ acc_chars n ++ nt_decos n)) by (unfold pitch_chars; simpl; left; exact Hp).
  (* the tail after the pitch letters *)
  set (tail := acc_chars n ++ nt_decos n).
  assert (Htail_stop : stops (Ascii.eqb (nt_pitch n)) tail /\ match tail with q :: _ => is_pitch_letter q = false | [] => True end).
  { unfold tail, acc_chars. destruct (nt_core n) as [|c core'] eqn:Ec.
    - rewrite (Hcd eq_refl). cbn [app]. destruct (nt_decos n) as [|x xs]; [split; exact I|].
      simpl in Hde. apply andb_true_iff in Hde. destruct Hde as [Hx _]. destruct (deco_char_facts x Hx) as [_ [_ [_ [_ [_ [_ [_ [Hxp _]]]]]]]].
      split; [|exact Hxp]. simpl. destruct (Ascii.eqb (nt_pitch n) x) eqn:E; [|reflexivity]. apply Ascii.eqb_eq in E. subst x. congruence.
    - cbn [app]. assert (Hc0 : c = "#"%char \/ c = "-"%char \/ c = "n"%char).
      { unfold core_ok in Hc. apply orb_true_iff in Hc. destruct Hc as [Hc|Hc].
        - apply andb_true_iff in Hc. destruct Hc as [Hc _]. apply orb_true_iff in Hc. destruct Hc as [Hc|Hc];
            apply andb_true_iff in Hc; destruct Hc as [Hc _]; apply Ascii.eqb_eq in Hc; auto.
        - apply andb_true_iff in Hc. destruct Hc as [Hc _]. apply Ascii.eqb_eq in Hc. auto. }
      assert (Hnp : is_pitch_letter c = false) by (destruct Hc0 as [->|[->| ->]]; reflexivity).
      split; [|exact Hnp]. simpl. destruct (Ascii.eqb (nt_pitch n) c) eqn:E; [|reflexivity]. apply Ascii.eqb_eq in E. subst c. congruence. }
  destruct Htail_stop as [Hstop Hbad].
  unfold scan_note. cbn [ls_deco ls_dur].
  (* leading signifiers: none *)
  assert (Hfirst : stops is_note_deco (print_note n)).
  { unfold print_note. destruct (nt_dur n) as [d|].
    - destruct Hdur as [Hn [Hne _]]. unfold print_dur, modern_chars. destruct (cd_num d) as [|x xs]; [contradiction|].
      simpl in Hn. apply andb_true_iff in Hn. destruct Hn as [Hx _]. destruct (digit_props x Hx) as [Hx' _]. simpl. exact Hx'.
    - simpl. exact Hp_nd. }
  rewrite (take_while_none is_note_deco _ Hfirst).
  unfold print_note at 1 2 3 4.
  destruct (nt_dur n) as [d|] eqn:Edur.
  - (* with a duration *)
    rewrite (scan_duration_print d _ Hdur Hafter).
    rewrite (take_while_none is_note_deco (pitch_chars n ++ acc_chars n ++ nt_decos n)) by (unfold pitch_chars; simpl; exact Hp_nd).
    unfold pitch_chars at 1 2. cbn [repeat app]. rewrite Hp. cbn [negb].
    change (nt_pitch n :: repeat (nt_pitch n) (nt_oct n) ++ acc_chars n ++ nt_decos n) with (pitch_chars n ++ tail).
    rewrite (take_while_app (Ascii.eqb (nt_pitch n)) (pitch_chars n) tail) by (first [apply forallb_repeat; apply Ascii.eqb_refl | exact Hstop]).
    replace (match tail with q :: _ => is_pitch_letter q | [] => false end) with false by (destruct tail; [reflexivity | symmetry; exact Hbad]).
    rewrite (concat_dur_tokens d Hdur). unfold tail. rewrite (scan_note_tail_print n (print_dur d) (Some (dur_tokens d)) Hok).
    unfold note_pd, print_note. rewrite Edur. rewrite <- ?app_assoc. reflexivity.
  - (* without duration *)
    assert (Epn : print_note n = pitch_chars n ++ acc_chars n ++ nt_decos n) by (unfold print_note; rewrite Edur; reflexivity).
    rewrite ?Epn. rewrite ?app_nil_l.
    assert (Hnum : scan_duration (pitch_chars n ++ acc_chars n ++ nt_decos n) = None).
    { unfold scan_duration, scan_number, pitch_chars. cbn [repeat app take_while]. rewrite Hp_ndig. reflexivity. }
    rewrite Hnum.
    replace (match pitch_chars n ++ acc_chars n ++ nt_decos n with c :: _ => is_digit c | [] => false end) with false
      by (unfold pitch_chars; simpl; symmetry; exact Hp_ndig).
    rewrite (take_while_none is_note_deco (pitch_chars n ++ acc_chars n ++ nt_decos n)) by (unfold pitch_chars; simpl; exact Hp_nd).
    unfold pitch_chars at 1 2. cbn [repeat app]. rewrite Hp. cbn [negb].
    change (nt_pitch n :: repeat (nt_pitch n) (nt_oct n) ++ acc_chars n ++ nt_decos n) with (pitch_chars n ++ tail).
    rewrite (take_while_app (Ascii.eqb (nt_pitch n)) (pitch_chars n) tail) by (first [apply forallb_repeat; apply Ascii.eqb_refl | exact Hstop]).
    replace (match tail with q :: _ => is_pitch_letter q | [] => false end) with false by (destruct tail; [reflexivity | symmetry; exact Hbad]).
    unfold tail. rewrite (scan_note_tail_print n [] None Hok). unfold note_pd. rewrite Edur. reflexivity.
Qed.

(* ---- the recogniser on the canonical text of a note: the whole text is consumed and the token is exactly the note *)
Definition note_token (n : cnote) : token :=
  TNoteRest {| nr_enc := str (print_note n); nr_pd := note_pd n; nr_deco := map deco_of (nt_decos n) |}.

Lemma print_note_head n : note_ok n -> exists c r, print_note n = c :: r /\ (is_digit c = true \/ is_pitch_letter c = true).
Proof.
  intros [Hdur [Hp _]]. unfold print_note. destruct (nt_dur n) as [d|].
  - destruct Hdur as [Hn [Hne _]]. unfold print_dur, modern_chars. destruct (cd_num d) as [|x xs]; [contradiction|].
    simpl in Hn. apply andb_true_iff in Hn. destruct Hn as [Hx _]. eexists; eexists. split; [reflexivity | left; exact Hx].
  - unfold pitch_chars. simpl. eexists; eexists. split; [reflexivity | right; exact Hp].
Qed.

Theorem recognise_print n : note_ok n -> kern_recognise (str (print_note n)) = KTok (note_token n).
Proof.
  intros Hok. destruct (print_note_head n Hok) as [c [r [E Hc]]].
  assert (Hs : in_chars "#-n%.qpPr =*" c = false) by (destruct Hc as [Hc|Hc]; [apply (digit_props c Hc) | apply (pitch_props c Hc)]).
  assert (Hstar : Ascii.eqb c "*" = false /\ Ascii.eqb c "=" = false /\ Ascii.eqb c "." = false).
  { assert (G : forallb (fun c => implb (negb (in_chars "#-n%.qpPr =*" c)) (negb (Ascii.eqb c "*") && negb (Ascii.eqb c "=") && negb (Ascii.eqb c "."))) all_bytes = true)
      by (vm_compute; reflexivity).
    pose proof (byte_lift _ G c) as G'. cbv beta in G'. rewrite Hs in G'. simpl in G'.
    apply andb_true_iff in G'. destruct G' as [G' G3]. apply andb_true_iff in G'. destruct G' as [G1 G2]. rewrite !negb_true_iff in *. tauto. }
  destruct Hstar as [H1 [H2 H3]].
  unfold kern_recognise. rewrite E. unfold str at 1 2 3 4. cbn [string_of_chars].
  assert (Hdot : String.eqb (String c (string_of_chars r)) "." = false).
  { simpl. rewrite H3. reflexivity. }
  rewrite Hdot, H1, H2. unfold scan_notes. cbn [chars_of_string]. rewrite chars_of_string_of_chars. rewrite <- E.
  cbn [scan_elements]. unfold scan_note_or_rest. rewrite (scan_note_print n Hok). cbn [map]. unfold note_token.
  rewrite E. reflexivity.
Qed.

(* non-vacuity: concrete canonical notes meet the hypotheses *)
Example note_ok_example :
  note_ok {| nt_dur := Some {| cd_num := chars_of_string "16"; cd_frac := None; cd_dots := 1; cd_grace := "q" |};
             nt_pitch := "d"; nt_oct := 1; nt_core := chars_of_string "##"; nt_disp := chars_of_string "X"; nt_decos := chars_of_string ";JL" |} /\
  str (print_note {| nt_dur := Some {| cd_num := chars_of_string "16"; cd_frac := None; cd_dots := 1; cd_grace := "q" |};
             nt_pitch := "d"; nt_oct := 1; nt_core := chars_of_string "##"; nt_disp := chars_of_string "X"; nt_decos := chars_of_string ";JL" |}) = "16.qdd##X;JL"%string.
Proof.
  split; [|reflexivity]. unfold note_ok, dur_ok. cbn. repeat split; try reflexivity; try discriminate;
    try (repeat constructor; simpl; intuition discriminate); try (intros; discriminate).
Qed.
