(* Proofs about the importer model (M9): the imported tree has one stage per non-empty line and one
   node per tab-separated cell (one node for a global-comment line), for every list of rows on which
   the import succeeds - any number of rows, spines, splits and joins. *)
From Coq Require Import List String Ascii Bool ZArith Lia.
From KV Require Import Strings CatGen Cat SpineImpGen SpineImp Token KernTok Importer.
Import ListNotations.
Open Scope list_scope.

Definition stage_lengths (d : doc) : list nat := map (@List.length nat) (d_stages d).

Definition cell_count (row : list string) : nat :=
  match row with
  | [] => 0
  | first :: _ => if startswith "!!" first then 1 else List.length row
  end.
Definition nonempty (row : list string) : bool := match row with [] => false | _ => true end.

(* ---- list helpers *)
Lemma update_nth_app_last {A} (f : A -> A) (l : list A) (x : A) :
  update_nth (List.length l) f (l ++ [x]) = l ++ [f x].
Proof. induction l as [|y l IH]; simpl; [reflexivity | now rewrite IH]. Qed.

Lemma map_update_nth {A B} (g : A -> B) (f : A -> A) (f' : B -> B) n (l : list A) :
  (forall x, g (f x) = f' (g x)) -> map g (update_nth n f l) = update_nth n f' (map g l).
Proof.
  intros H. revert n. induction l as [|x l IH]; intros n; destruct n; simpl; try reflexivity.
  - now rewrite H.
  - now rewrite IH.
Qed.

(* ---- the setters do not touch the stages *)
Lemma stages_set_nodes d ns : d_stages (set_nodes d ns) = d_stages d. Proof. reflexivity. Qed.
Lemma stages_set_header_self d id : d_stages (set_header_self d id) = d_stages d. Proof. reflexivity. Qed.
Lemma stages_sig_update d id c : d_stages (sig_update d id c) = d_stages d. Proof. reflexivity. Qed.
Lemma stages_set_cancelled d a b : d_stages (set_cancelled d a b) = d_stages d. Proof. reflexivity. Qed.
Lemma stages_add_error d id : d_stages (add_error d id) = d_stages d. Proof. reflexivity. Qed.
Lemma stages_set_header_stage d st : d_stages (set_header_stage d st) = d_stages d. Proof. reflexivity. Qed.
Lemma stages_push_mst d st : d_stages (push_mst d st) = d_stages d. Proof. reflexivity. Qed.

(* ---- add_node adds exactly one node to the requested stage *)
Lemma add_node_stages d st p t lo sg h d' id :
  add_node d st p t lo sg h = IOk (d', id) ->
  d_stages d' = if Nat.eqb st (List.length (d_stages d)) then d_stages d ++ [[id]]
                else update_nth st (fun l => l ++ [id]) (d_stages d).
Proof.
  unfold add_node. destruct (Nat.ltb (List.length (d_stages d)) st); [discriminate|].
  intros H. injection H as <- <-. reflexivity.
Qed.

(* within a row: [base] are the lengths of the earlier stages, [j] cells of this row are done *)
Definition row_inv (base : list nat) (j : nat) (d : doc) : Prop :=
  stage_lengths d = base ++ (match j with O => [] | _ => [j] end).

Lemma add_node_row_inv base j d p t lo sg h d' id :
  row_inv base j d -> add_node d (List.length base) p t lo sg h = IOk (d', id) -> row_inv base (S j) d'.
Proof.
  unfold row_inv, stage_lengths. intros Hinv Hadd. rewrite (add_node_stages _ _ _ _ _ _ _ _ _ Hadd).
  assert (Hlen : List.length (d_stages d) = List.length base + match j with O => 0 | _ => 1 end).
  { rewrite <- (map_length (@List.length nat)), Hinv, app_length. destruct j; reflexivity. }
  destruct j as [|j].
  - rewrite Hlen, Nat.add_0_r, Nat.eqb_refl. rewrite map_app, Hinv, app_nil_r. reflexivity.
  - replace (Nat.eqb (List.length base) (List.length (d_stages d))) with false
      by (symmetry; apply Nat.eqb_neq; lia).
    rewrite (map_update_nth (@List.length nat) _ S) by (intros x; rewrite app_length; simpl; lia).
    rewrite Hinv. apply update_nth_app_last.
Qed.

Lemma row_inv_ext base j d d' : d_stages d' = d_stages d -> row_inv base j d -> row_inv base j d'.
Proof. unfold row_inv, stage_lengths. intros ->. auto. Qed.

(* ---- one cell *)
Lemma step_cell_inv bad row s icol col s' b base j :
  i_stage s = List.length base -> row_inv base j (i_doc s) ->
  step_cell bad row s icol col = IOk (s', b) ->
  i_stage s' = List.length base /\ row_inv base (S j) (i_doc s').
Proof.
  intros Hst Hinv. unfold step_cell. rewrite Hst.
  destruct (startswith "**" col).
  - destruct (add_node _ _ _ _ _ _ _) as [[d1 id]| |] eqn:Ha; try discriminate.
    intros H. injection H as <- <-. split; [exact Hst|]. simpl.
    eapply row_inv_ext; [apply stages_set_header_self|].
    eapply add_node_row_inv; [|exact Ha]. eapply row_inv_ext; [apply stages_set_header_stage | exact Hinv].
  - destruct (mem_str col spine_operations).
    + destruct (i_prev s) as [prev|]; [|discriminate].
      destruct (Nat.leb _ icol); [discriminate|].
      destruct (add_node _ _ _ _ _ _ _) as [[d1 id]| |] eqn:Ha; try discriminate.
      pose proof (add_node_row_inv _ _ _ _ _ _ _ _ _ _ Hinv Ha) as H1.
      destruct (String.eqb col "*-").
      { intros H. injection H as <- <-. split; [exact Hst|]. simpl.
        destruct (n_lastop _); [eapply row_inv_ext; [apply stages_set_cancelled | exact H1] | exact H1]. }
      destruct (String.eqb col "*+" || String.eqb col "*^").
      { intros H. injection H as <- <-. split; [exact Hst | exact H1]. }
      destruct (String.eqb col "*v"); [|discriminate].
      intros H. injection H as <- <-. split.
      * destruct (match icol with O => true | S _ => _ end); exact Hst.
      * assert (H2 : row_inv base (S j) (match n_lastop (get_node d1 id) with
                                           | Some op => set_cancelled d1 op (List.length base) | None => d1 end)).
        { destruct (n_lastop _); [eapply row_inv_ext; [apply stages_set_cancelled | exact H1] | exact H1]. }
        destruct (match icol with O => true | S _ => _ end); exact H2.
    + match goal with |- context [match ?X with IOk _ => _ | IErr _ => _ | IOut => _ end = _] => destruct X as [[tok is_err]| |] end;
        try discriminate.
      destruct (i_prev s) as [prev|]; [|discriminate].
      destruct (Nat.leb _ icol); [discriminate|].
      destruct (add_node _ _ _ _ _ _ _) as [[d1 id]| |] eqn:Ha; try discriminate.
      pose proof (add_node_row_inv _ _ _ _ _ _ _ _ _ _ Hinv Ha) as H1.
      intros H. injection H as <- <-. split; [exact Hst|]. simpl.
      assert (H2 : row_inv base (S j) (if is_err then add_error d1 id else d1)).
      { destruct is_err; [eapply row_inv_ext; [apply stages_add_error | exact H1] | exact H1]. }
      destruct (cat_beq _ BARLINES || _); [exact H2|].
      destruct (String.eqb _ "BoundingBoxToken"); [exact H2|].
      destruct (is_signature_token tok); [eapply row_inv_ext; [apply stages_sig_update | exact H2] | exact H2].
Qed.

Lemma step_cells_inv bad row : forall cols s icol bar s' b base j,
  i_stage s = List.length base -> row_inv base j (i_doc s) ->
  step_cells bad row s icol cols bar = IOk (s', b) ->
  i_stage s' = List.length base /\ row_inv base (j + List.length cols) (i_doc s').
Proof.
  induction cols as [|c cols IH]; intros s icol bar s' b base j Hst Hinv; simpl.
  - intros H. injection H as <- <-. rewrite Nat.add_0_r. split; assumption.
  - destruct (step_cell bad row s icol c) as [[s1 b1]| |] eqn:Hc; try discriminate.
    destruct (step_cell_inv _ _ _ _ _ _ _ _ _ Hst Hinv Hc) as [Hst1 Hinv1].
    intros H. destruct (IH _ _ _ _ _ _ _ Hst1 Hinv1 H) as [H1 H2]. split; [exact H1|].
    replace (j + S (List.length cols)) with (S j + List.length cols) by lia. exact H2.
Qed.

(* ---- one row *)
Definition state_inv (L : list nat) (s : istate) : Prop :=
  stage_lengths (i_doc s) = L /\ List.length L = S (i_stage s).

Lemma step_row_inv bad s row s' L :
  state_inv L s -> step_row bad s row = IOk s' ->
  state_inv (if nonempty row then L ++ [cell_count row] else L) s'.
Proof.
  intros [HL Hlen]. unfold step_row. destruct row as [|first rest].
  - intros H. injection H as <-. split; assumption.
  - cbn [nonempty cell_count].
    assert (Hbase : row_inv L 0 (i_doc s)) by (unfold row_inv; rewrite app_nil_r; exact HL).
    destruct (startswith "!!" first).
    + destruct (add_node _ _ _ _ _ _ _) as [[d1 id]| |] eqn:Ha; try discriminate.
      cbn [i_doc] in Ha. rewrite <- Hlen in Ha.
      pose proof (add_node_row_inv _ _ _ _ _ _ _ _ _ _ Hbase Ha) as H1.
      intros H. injection H as <-. unfold state_inv. cbn [i_doc i_stage]. split.
      * destruct (false); exact H1.
      * rewrite app_length. simpl. lia.
    + match goal with |- context [step_cells bad ?r ?s0 0 ?r false] =>
        remember s0 as st0 eqn:Est0; destruct (step_cells bad r st0 0 r false) as [[s1 bar]| |] eqn:Hc end;
        try discriminate.
      assert (Hst0 : i_stage st0 = List.length L) by (subst st0; cbn [i_stage]; lia).
      assert (Hbase0 : row_inv L 0 (i_doc st0)) by (subst st0; exact Hbase).
      clear Hbase. rename Hbase0 into Hbase.
      destruct (step_cells_inv _ _ _ _ _ _ _ _ _ 0 Hst0 Hbase Hc) as [H1 H2].
      intros H. injection H as <-. unfold state_inv. cbn [i_doc i_stage]. split.
      * unfold row_inv in H2. cbn [List.length Nat.add] in H2.
        destruct bar; [unfold stage_lengths; rewrite stages_push_mst|]; exact H2.
      * rewrite app_length. simpl. lia.
Qed.

(* ---- all rows *)
Lemma run_rows_inv bad : forall rows s s' L,
  state_inv L s -> run_rows bad s rows = IOk s' ->
  state_inv (L ++ map cell_count (filter nonempty rows)) s'.
Proof.
  induction rows as [|r rows IH]; intros s s' L Hinv; simpl.
  - intros H. injection H as <-. rewrite app_nil_r. exact Hinv.
  - destruct (step_row bad s r) as [s1| |] eqn:Hr; try discriminate.
    pose proof (step_row_inv _ _ _ _ _ Hinv Hr) as H1. intros H. specialize (IH _ _ _ H1 H).
    destruct (nonempty r); [|exact IH]. simpl. rewrite <- app_assoc in IH. exact IH.
Qed.

Lemma init_inv : state_inv [1] init_state.
Proof. split; reflexivity. Qed.

(* every text: one stage per non-empty line (plus the root stage), one node per cell *)
Theorem stages_mirror_rows bad rows s :
  run_rows bad init_state rows = IOk s ->
  stage_lengths (i_doc s) = 1 :: map cell_count (filter nonempty rows).
Proof. intros H. exact (proj1 (run_rows_inv bad rows _ _ _ init_inv H)). Qed.

Theorem loads_stage_count bad text d :
  loads bad text = IOk d ->
  List.length (d_stages d) = S (List.length (filter nonempty (rows_of_text text))) /\
  stage_lengths d = 1 :: map cell_count (filter nonempty (rows_of_text text)).
Proof.
  unfold loads. destruct (run_rows bad init_state (rows_of_text text)) as [s| |] eqn:H; try discriminate.
  intros E. injection E as <-. pose proof (stages_mirror_rows _ _ _ H) as H1. split; [|exact H1].
  unfold stage_lengths in H1. apply (f_equal (@List.length nat)) in H1. rewrite map_length in H1.
  rewrite H1. simpl. now rewrite map_length.
Qed.

(* a row that has more cells than live spine paths makes the import fail (never a mis-aligned tree) *)
Lemma surplus_cell_rejected bad row s icol col prev :
  i_prev s = Some prev -> List.length prev <= icol -> startswith "**" col = false ->
  forall r, step_cell bad row s icol col <> IOk r.
Proof.
  intros Hp Hle Hh r. unfold step_cell. rewrite Hh, Hp.
  assert (E : Nat.leb (List.length prev) icol = true) by (apply Nat.leb_le; exact Hle).
  destruct (mem_str col spine_operations).
  - rewrite E. discriminate.
  - destruct (startswith "!" col).
    + rewrite E. discriminate.
    + rewrite E. discriminate.
Qed.

(* non-vacuity: a text with a split and a join imports, with the expected stage lengths *)
Example import_example :
  match loads [] ("**kern" ++ String (ascii_of_nat 10) ("*^" ++ String (ascii_of_nat 10) ("4c" ++ String (ascii_of_nat 9) ("4e" ++
        String (ascii_of_nat 10) ("*v" ++ String (ascii_of_nat 9) ("*v" ++ String (ascii_of_nat 10) ("*-" ++ String (ascii_of_nat 10) "")))))))%string with
  | IOk d => stage_lengths d = [1; 1; 1; 2; 2; 1]
  | _ => False
  end.
Proof. vm_compute. reflexivity. Qed.

(* ------------------------------------------------------------------ C19: prefixes *)
Definition ibind {A B} (r : ires A) (f : A -> ires B) : ires B :=
  match r with IOk a => f a | IErr e => IErr e | IOut => IOut end.

(* importing r1 ++ r2 is importing r2 from the state reached after r1 *)
Theorem run_rows_app bad : forall r1 r2 s,
  run_rows bad s (r1 ++ r2) = ibind (run_rows bad s r1) (fun s' => run_rows bad s' r2).
Proof.
  induction r1 as [|r r1 IH]; intros r2 s; simpl; [reflexivity|].
  destruct (step_row bad s r); simpl; [apply IH | reflexivity | reflexivity].
Qed.

(* the measure index is only ever extended at its end *)
Lemma mst_set_nodes d ns : d_mst (set_nodes d ns) = d_mst d. Proof. reflexivity. Qed.

Lemma add_node_mst d st p t lo sg h d' id : add_node d st p t lo sg h = IOk (d', id) -> d_mst d' = d_mst d.
Proof.
  unfold add_node. destruct (Nat.ltb (List.length (d_stages d)) st); [discriminate|].
  intros H. injection H as <- <-. reflexivity.
Qed.

Lemma step_cell_mst bad row s icol col s' b : step_cell bad row s icol col = IOk (s', b) -> d_mst (i_doc s') = d_mst (i_doc s).
Proof.
  unfold step_cell. destruct (startswith "**" col).
  - destruct (add_node _ _ _ _ _ _ _) as [[d1 id]| |] eqn:Ha; try discriminate.
    intros H. injection H as <- <-. simpl. now rewrite (add_node_mst _ _ _ _ _ _ _ _ _ Ha).
  - destruct (mem_str col spine_operations).
    + destruct (i_prev s) as [prev|]; [|discriminate].
      destruct (Nat.leb _ icol); [discriminate|].
      destruct (add_node _ _ _ _ _ _ _) as [[d1 id]| |] eqn:Ha; try discriminate.
      pose proof (add_node_mst _ _ _ _ _ _ _ _ _ Ha) as H1.
      destruct (String.eqb col "*-").
      { intros H. injection H as <- <-. simpl. destruct (n_lastop _); exact H1. }
      destruct (String.eqb col "*+" || String.eqb col "*^").
      { intros H. injection H as <- <-. exact H1. }
      destruct (String.eqb col "*v"); [|discriminate].
      intros H. injection H as <- <-.
      destruct (match icol with O => true | S _ => _ end); simpl; destruct (n_lastop _); exact H1.
    + match goal with |- context [match ?X with IOk _ => _ | IErr _ => _ | IOut => _ end = _] => destruct X as [[tok is_err]| |] end;
        try discriminate.
      destruct (i_prev s) as [prev|]; [|discriminate].
      destruct (Nat.leb _ icol); [discriminate|].
      destruct (add_node _ _ _ _ _ _ _) as [[d1 id]| |] eqn:Ha; try discriminate.
      pose proof (add_node_mst _ _ _ _ _ _ _ _ _ Ha) as H1.
      intros H. injection H as <- <-. simpl.
      assert (H2 : d_mst (if is_err then add_error d1 id else d1) = d_mst (i_doc s)) by (destruct is_err; exact H1).
      destruct (cat_beq _ BARLINES || _); [exact H2|].
      destruct (String.eqb _ "BoundingBoxToken"); [exact H2|].
      destruct (is_signature_token tok); exact H2.
Qed.

Lemma step_cells_mst bad row : forall cols s icol bar s' b,
  step_cells bad row s icol cols bar = IOk (s', b) -> d_mst (i_doc s') = d_mst (i_doc s).
Proof.
  induction cols as [|c cols IH]; intros s icol bar s' b; simpl.
  - intros H. injection H as <- <-. reflexivity.
  - destruct (step_cell bad row s icol c) as [[s1 b1]| |] eqn:Hc; try discriminate.
    intros H. rewrite (IH _ _ _ _ _ H). eapply step_cell_mst; exact Hc.
Qed.

Lemma step_row_mst bad s row s' : step_row bad s row = IOk s' ->
  d_mst (i_doc s') = d_mst (i_doc s) \/ d_mst (i_doc s') = d_mst (i_doc s) ++ [S (i_stage s)].
Proof.
  unfold step_row. destruct row as [|first rest].
  - intros H. injection H as <-. now left.
  - destruct (startswith "!!" first).
    + destruct (add_node _ _ _ _ _ _ _) as [[d1 id]| |] eqn:Ha; try discriminate.
      intros H. injection H as <-. left. cbn [i_doc]. exact (add_node_mst _ _ _ _ _ _ _ _ _ Ha).
    + match goal with |- context [step_cells bad ?r ?s0 0 ?r false] =>
        remember s0 as st0 eqn:Est0; destruct (step_cells bad r st0 0 r false) as [[s1 bar]| |] eqn:Hc end;
        try discriminate.
      pose proof (step_cells_mst _ _ _ _ _ _ _ _ Hc) as H1.
      assert (E0 : d_mst (i_doc st0) = d_mst (i_doc s)) by (subst st0; reflexivity).
      assert (Es : i_stage s1 = i_stage st0).
      { clear -Hc. revert Hc. generalize 0 at 1. generalize false. generalize (first :: rest) at 2.
        intros cols. revert st0. induction cols as [|c cols IH]; intros st0 bar0 n Hc; simpl in Hc.
        - injection Hc as <- _. reflexivity.
        - destruct (step_cell bad (first :: rest) st0 n c) as [[s2 b2]| |] eqn:H2; try discriminate.
          rewrite (IH _ _ _ Hc). clear -H2. unfold step_cell in H2.
          destruct (startswith "**" c).
          + destruct (add_node _ _ _ _ _ _ _) as [[d1 id]| |]; try discriminate. injection H2 as <- _. reflexivity.
          + destruct (mem_str c spine_operations).
            * destruct (i_prev st0); [|discriminate]. destruct (Nat.leb _ n); [discriminate|].
              destruct (add_node _ _ _ _ _ _ _) as [[d1 id]| |]; try discriminate.
              destruct (String.eqb c "*-"); [injection H2 as <- _; reflexivity|].
              destruct (String.eqb c "*+" || String.eqb c "*^"); [injection H2 as <- _; reflexivity|].
              destruct (String.eqb c "*v"); [|discriminate]. injection H2 as <- _.
              destruct (match n with O => true | S _ => _ end); reflexivity.
            * match goal with H : context [match ?X with IOk _ => _ | IErr _ => _ | IOut => _ end] |- _ => destruct X as [[tok is_err]| |] end;
                try discriminate.
              destruct (i_prev st0); [|discriminate]. destruct (Nat.leb _ n); [discriminate|].
              destruct (add_node _ _ _ _ _ _ _) as [[d1 id]| |]; try discriminate. injection H2 as <- _. reflexivity. }
      intros H. injection H as <-. cbn [i_doc]. destruct bar.
      * right. unfold push_mst. cbn [d_mst]. rewrite H1, E0. subst st0. reflexivity.
      * left. rewrite H1. exact E0.
Qed.

Theorem run_rows_mst_prefix bad : forall rows s s', run_rows bad s rows = IOk s' ->
  exists ext, d_mst (i_doc s') = d_mst (i_doc s) ++ ext.
Proof.
  induction rows as [|r rows IH]; intros s s'; simpl.
  - intros H. injection H as <-. exists []. now rewrite app_nil_r.
  - destruct (step_row bad s r) as [s1| |] eqn:Hr; try discriminate.
    intros H. destruct (IH _ _ H) as [ext He]. destruct (step_row_mst _ _ _ _ Hr) as [H1|H1].
    + exists ext. now rewrite He, H1.
    + exists ([S (i_stage s)] ++ ext). now rewrite He, H1, <- app_assoc.
Qed.

(* the measure index of a prefix of the rows is a prefix of the measure index of all the rows *)
Theorem prefix_measures bad r1 r2 s1 s :
  run_rows bad init_state r1 = IOk s1 -> run_rows bad init_state (r1 ++ r2) = IOk s ->
  exists ext, d_mst (i_doc s) = d_mst (i_doc s1) ++ ext.
Proof.
  intros H1 H. rewrite run_rows_app, H1 in H. simpl in H. eapply run_rows_mst_prefix; exact H.
Qed.

(* ------------------------------------------------------------------ C07: the measure index is strictly increasing
   and addresses existing stages *)
From Coq Require Import Sorted.

Definition mst_ok (s : istate) : Prop :=
  StronglySorted lt (d_mst (i_doc s)) /\ Forall (fun m => 1 <= m <= i_stage s) (d_mst (i_doc s)).

Lemma step_row_stage bad s row s' : step_row bad s row = IOk s' ->
  i_stage s' = if nonempty row then S (i_stage s) else i_stage s.
Proof.
  intros H. destruct row as [|first rest]; [simpl in H; injection H as <-; reflexivity|].
  cbn [nonempty]. unfold step_row in H.
  destruct (startswith "!!" first).
  - destruct (add_node _ _ _ _ _ _ _) as [[d1 id]| |]; try discriminate. injection H as <-. reflexivity.
  - match type of H with context [step_cells bad ?r ?s0 0 ?r false] =>
      remember s0 as st0 eqn:Est0; destruct (step_cells bad r st0 0 r false) as [[s1 bar]| |] eqn:Hc end; try discriminate.
    injection H as <-. cbn [i_stage].
    assert (Hst0 : i_stage st0 = List.length (repeat 0 (S (i_stage s)))) by (subst st0; cbn [i_stage]; now rewrite repeat_length).
    (* reuse the stage bookkeeping of step_cells: the stage counter is not touched by cells *)
    clear -Hc Est0. revert Hc. generalize 0 at 1. generalize false. generalize (first :: rest) at 2.
    intros cols. revert st0 Est0. induction cols as [|c cols IH]; intros st0 Est0 bar0 n Hc; simpl in Hc.
    + injection Hc as <- _. subst st0. reflexivity.
    + destruct (step_cell bad (first :: rest) st0 n c) as [[s2 b2]| |] eqn:H2; try discriminate.
      assert (E2 : i_stage s2 = i_stage st0).
      { clear -H2. unfold step_cell in H2.
        destruct (startswith "**" c).
        - destruct (add_node _ _ _ _ _ _ _) as [[d1 id]| |]; try discriminate. injection H2 as <- _. reflexivity.
        - destruct (mem_str c spine_operations).
          + destruct (i_prev st0); [|discriminate]. destruct (Nat.leb _ n); [discriminate|].
            destruct (add_node _ _ _ _ _ _ _) as [[d1 id]| |]; try discriminate.
            destruct (String.eqb c "*-"); [injection H2 as <- _; reflexivity|].
            destruct (String.eqb c "*+" || String.eqb c "*^"); [injection H2 as <- _; reflexivity|].
            destruct (String.eqb c "*v"); [|discriminate]. injection H2 as <- _.
            destruct (match n with O => true | S _ => _ end); reflexivity.
          + match goal with H : context [match ?X with IOk _ => _ | IErr _ => _ | IOut => _ end] |- _ => destruct X as [[tok is_err]| |] end;
              try discriminate.
            destruct (i_prev st0); [|discriminate]. destruct (Nat.leb _ n); [discriminate|].
            destruct (add_node _ _ _ _ _ _ _) as [[d1 id]| |]; try discriminate. injection H2 as <- _. reflexivity. }
      assert (G : forall st bar1 m s3 b3, step_cells bad (first :: rest) st m cols bar1 = IOk (s3, b3) -> i_stage s3 = i_stage st).
      { clear. induction cols as [|c cols IH]; intros st bar1 m s3 b3 H; simpl in H; [injection H as <- _; reflexivity|].
        destruct (step_cell bad (first :: rest) st m c) as [[s2 b2]| |] eqn:H2; try discriminate.
        rewrite (IH _ _ _ _ _ H). clear -H2. unfold step_cell in H2.
        destruct (startswith "**" c).
        - destruct (add_node _ _ _ _ _ _ _) as [[d1 id]| |]; try discriminate. injection H2 as <- _. reflexivity.
        - destruct (mem_str c spine_operations).
          + destruct (i_prev st); [|discriminate]. destruct (Nat.leb _ m); [discriminate|].
            destruct (add_node _ _ _ _ _ _ _) as [[d1 id]| |]; try discriminate.
            destruct (String.eqb c "*-"); [injection H2 as <- _; reflexivity|].
            destruct (String.eqb c "*+" || String.eqb c "*^"); [injection H2 as <- _; reflexivity|].
            destruct (String.eqb c "*v"); [|discriminate]. injection H2 as <- _.
            destruct (match m with O => true | S _ => _ end); reflexivity.
          + match goal with H : context [match ?X with IOk _ => _ | IErr _ => _ | IOut => _ end] |- _ => destruct X as [[tok is_err]| |] end;
              try discriminate.
            destruct (i_prev st); [|discriminate]. destruct (Nat.leb _ m); [discriminate|].
            destruct (add_node _ _ _ _ _ _ _) as [[d1 id]| |]; try discriminate. injection H2 as <- _. reflexivity. }
      rewrite (G _ _ _ _ _ Hc), E2. subst st0. reflexivity.
Qed.

Lemma sorted_snoc l x : StronglySorted lt l -> Forall (fun m => m < x) l -> StronglySorted lt (l ++ [x]).
Proof.
  induction l as [|y l IH]; intros Hs Hf; simpl; [constructor; constructor|].
  inversion Hs as [|? ? Hs' Hall]; subst. inversion Hf as [|? ? Hy Hf']; subst.
  constructor; [apply IH; assumption|]. apply Forall_app. split; [exact Hall | constructor; [exact Hy | constructor]].
Qed.

Lemma step_row_mst_ok bad s row s' : mst_ok s -> step_row bad s row = IOk s' -> mst_ok s'.
Proof.
  intros [Hs Hb] H. pose proof (step_row_stage _ _ _ _ H) as Hst. destruct (step_row_mst _ _ _ _ H) as [E|E].
  - unfold mst_ok. rewrite E. split; [exact Hs|]. eapply Forall_impl; [|exact Hb]. intros m Hm. cbv beta in *.
    rewrite Hst. destruct (nonempty row); lia.
  - assert (Hne : nonempty row = true).
    { destruct row; [|reflexivity]. simpl in H. injection H as <-. exfalso.
      apply (f_equal (@List.length nat)) in E. rewrite app_length in E. simpl in E. lia. }
    rewrite Hne in Hst. unfold mst_ok. rewrite E, Hst. split.
    + apply sorted_snoc; [exact Hs|]. eapply Forall_impl; [|exact Hb]. intros m Hm. cbv beta in *. lia.
    + apply Forall_app. split; [eapply Forall_impl; [|exact Hb]; intros m Hm; cbv beta in *; lia | constructor; [lia | constructor]].
Qed.

Theorem measure_index_sorted bad : forall rows s s', mst_ok s -> run_rows bad s rows = IOk s' -> mst_ok s'.
Proof.
  induction rows as [|r rows IH]; intros s s' Hok; simpl; [intros H; injection H as <-; exact Hok|].
  destruct (step_row bad s r) as [s1| |] eqn:Hr; try discriminate. intros H.
  eapply IH; [eapply step_row_mst_ok; eassumption | exact H].
Qed.

(* every imported document: the measure index is strictly increasing and every entry is an existing stage *)
Theorem loads_measure_index bad text d : loads bad text = IOk d ->
  StronglySorted lt (d_mst d) /\ Forall (fun m => 1 <= m < List.length (d_stages d)) (d_mst d).
Proof.
  unfold loads. destruct (run_rows bad init_state (rows_of_text text)) as [s| |] eqn:H; try discriminate.
  intros E. injection E as <-.
  assert (H0 : mst_ok init_state) by (split; constructor).
  destruct (measure_index_sorted _ _ _ _ H0 H) as [Hs Hb]. split; [exact Hs|].
  destruct (run_rows_inv bad _ _ _ _ init_inv H) as [HL Hlen].
  assert (Hn : List.length (d_stages (i_doc s)) = S (i_stage s)).
  { unfold stage_lengths in HL. apply (f_equal (@List.length nat)) in HL. rewrite map_length in HL. rewrite HL. exact Hlen. }
  eapply Forall_impl; [|exact Hb]. intros m Hm. cbv beta in *. lia.
Qed.
