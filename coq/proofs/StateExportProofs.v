(* Obligation on the source, regenerated on every run: the export code the model covers holds exactly the state the model
   knows about - no new attribute, class-level table, module-level binding or caching decorator (a memo added to a class
   is the commonest way to make a pure function history-dependent; it changes the inventory and breaks this lemma). *)
From Coq Require Import List String Bool.
From KV Require Import StateGen StateBase.
Lemma state_export_as_modelled : state_export = modelled_state_export.
Proof. reflexivity. Qed.
