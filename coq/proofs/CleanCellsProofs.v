(* C02 / C03 / C20: every cell the line readers hand to the importer is free of tab, LF and CR - for every byte string.
   Hence a grid that was read can be written verbatim and read again: read . write . read = read. *)
From Coq Require Import List String Ascii Bool Arith Lia.
From KV Require Import Strings OptGen Token Importer Exporter StringProofs LineReaderProofs ReadBackProofs.
Import ListNotations.
Open Scope list_scope.

Definition avoidsl (c0 : ascii) (l : list ascii) : bool := forallb (fun c => negb (Ascii.eqb c c0)) l.

Lemma avoids_string_of_chars c0 l : avoids c0 (string_of_chars l) = avoidsl c0 l.
Proof. induction l as [|c l IH]; [reflexivity|]. cbn [string_of_chars avoids avoidsl forallb]. now rewrite IH. Qed.

Lemma avoidsl_rev c0 l : avoidsl c0 (rev l) = avoidsl c0 l.
Proof.
  unfold avoidsl. destruct (forallb _ l) eqn:E.
  - rewrite forallb_forall in *. intros x Hx. apply E. now apply in_rev.
  - destruct (forallb _ (rev l)) eqn:E2; [|reflexivity]. rewrite <- E. symmetry.
    rewrite forallb_forall in *. intros x Hx. apply E2. now apply in_rev in Hx.
Qed.

Lemma flush_ok cur : avoidsl lf cur = true -> avoidsl cr cur = true -> line_ok (string_of_chars (rev cur)) = true.
Proof. intros H1 H2. unfold line_ok. rewrite !avoids_string_of_chars, !avoidsl_rev, H1, H2. reflexivity. Qed.

Lemma filelines_aux_ok : forall n l cur, List.length l <= n -> avoidsl lf cur = true -> avoidsl cr cur = true ->
  Forall (fun s => line_ok s = true) (filelines_aux l cur).
Proof.
  induction n as [|n IH]; intros l cur Hn H1 H2.
  - destruct l; [|cbn in Hn; lia]. cbn. destruct cur; constructor; [apply flush_ok; assumption | constructor].
  - destruct l as [|c r]; [cbn; destruct cur; constructor; [apply flush_ok; assumption | constructor]|].
    cbn [List.length] in Hn. cbn [filelines_aux]. cbv zeta.
    destruct (is_byte 13 c) eqn:E13.
    + destruct r as [|d r']; [constructor; [apply flush_ok; assumption | constructor]|].
      cbn [List.length] in Hn.
      destruct (is_byte 10 d); (constructor; [apply flush_ok; assumption | apply IH; [cbn [List.length]; lia | reflexivity | reflexivity]]).
    + destruct (is_byte 10 c) eqn:E10.
      * constructor; [apply flush_ok; assumption | apply IH; [lia | reflexivity | reflexivity]].
      * apply IH; [lia | |]; cbn [avoidsl forallb].
        -- rewrite (is_byte_eqb 10 c) in E10 by lia. unfold lf, byte. rewrite E10. exact H1.
        -- rewrite (is_byte_eqb 13 c) in E13 by lia. unfold cr, byte. rewrite E13. exact H2.
Qed.

Lemma splitlines_aux_ok : forall n l cur, List.length l <= n -> avoidsl lf cur = true -> avoidsl cr cur = true ->
  Forall (fun s => line_ok s = true) (splitlines_aux l cur).
Proof.
  induction n as [|n IH]; intros l cur Hn H1 H2.
  - destruct l; [|cbn in Hn; lia]. cbn. destruct cur; constructor; [apply flush_ok; assumption | constructor].
  - destruct l as [|c r]; [cbn; destruct cur; constructor; [apply flush_ok; assumption | constructor]|].
    cbn [List.length] in Hn. cbn [splitlines_aux]. cbv zeta.
    assert (Fl : line_ok (string_of_chars (rev cur)) = true) by (apply flush_ok; assumption).
    destruct (is_byte 13 c) eqn:E13.
    { destruct r as [|d r']; [constructor; [exact Fl | constructor]|]. cbn [List.length] in Hn.
      destruct (is_byte 10 d); (constructor; [exact Fl | apply IH; [cbn [List.length]; lia | reflexivity | reflexivity]]). }
    destruct (is_byte 10 c) eqn:E10.
    { cbn [orb]. constructor; [exact Fl | apply IH; [lia | reflexivity | reflexivity]]. }
    assert (P1 : avoidsl lf (c :: cur) = true).
    { cbn [avoidsl forallb]. rewrite (is_byte_eqb 10 c) in E10 by lia. unfold lf, byte. rewrite E10. exact H1. }
    assert (P2 : avoidsl cr (c :: cur) = true).
    { cbn [avoidsl forallb]. rewrite (is_byte_eqb 13 c) in E13 by lia. unfold cr, byte. rewrite E13. exact H2. }
    cbn [orb].
    destruct (is_byte 11 c || is_byte 12 c || is_byte 28 c || is_byte 29 c || is_byte 30 c).
    { constructor; [exact Fl | apply IH; [lia | reflexivity | reflexivity]]. }
    destruct (is_byte 194 c).
    { destruct r as [|d r']; [apply IH; [cbn [List.length]; lia | exact P1 | exact P2]|]. cbn [List.length] in Hn.
      destruct (is_byte 133 d); [constructor; [exact Fl | apply IH; [lia | reflexivity | reflexivity]] | apply IH; [cbn [List.length]; lia | exact P1 | exact P2]]. }
    destruct (is_byte 226 c).
    { destruct r as [|d [|e r']]; try (apply IH; [cbn [List.length] in *; lia | exact P1 | exact P2]).
      cbn [List.length] in Hn.
      destruct (is_byte 128 d && (is_byte 168 e || is_byte 169 e));
        [constructor; [exact Fl | apply IH; [lia | reflexivity | reflexivity]] | apply IH; [cbn [List.length]; lia | exact P1 | exact P2]]. }
    apply IH; [lia | exact P1 | exact P2].
Qed.

Lemma avoids_rev_aux x : forall cur acc, avoids x (rev_string_aux cur acc) = avoids x cur && avoids x acc.
Proof.
  induction cur as [|c cur IH]; intros acc; [reflexivity|]. cbn [rev_string_aux avoids]. rewrite IH. cbn [avoids].
  destruct (negb (Ascii.eqb c x)); cbn [andb]; [reflexivity | now rewrite andb_false_r].
Qed.

Lemma split_aux_avoids_sep sep : forall s cur, avoids sep cur = true -> Forall (fun c => avoids sep c = true) (split_char_aux sep s cur).
Proof.
  induction s as [|c s IH]; intros cur H; cbn [split_char_aux].
  - constructor; [rewrite avoids_rev_aux, H; reflexivity | constructor].
  - destruct (Ascii.eqb c sep) eqn:E.
    + constructor; [rewrite avoids_rev_aux, H; reflexivity | apply IH; reflexivity].
    + apply IH. cbn [avoids]. rewrite E. exact H.
Qed.

Lemma split_aux_avoids_other sep x : forall s cur, avoids x s = true -> avoids x cur = true ->
  Forall (fun c => avoids x c = true) (split_char_aux sep s cur).
Proof.
  induction s as [|c s IH]; intros cur Hs H; cbn [split_char_aux].
  - constructor; [rewrite avoids_rev_aux, H; reflexivity | constructor].
  - cbn [avoids] in Hs. apply andb_true_iff in Hs. destruct Hs as [Hc Hs]. destruct (Ascii.eqb c sep).
    + constructor; [rewrite avoids_rev_aux, H; reflexivity | apply IH; [exact Hs | reflexivity]].
    + apply IH; [exact Hs|]. cbn [avoids]. rewrite Hc. exact H.
Qed.

Lemma row_of_line_clean line : line_ok line = true -> Forall (fun c => cell_ok c = true) (row_of_line line).
Proof.
  intros H. unfold line_ok in H. apply andb_true_iff in H. destruct H as [H1 H2].
  unfold row_of_line. destruct line as [|a line]; [constructor|].
  set (l := String a line) in *. unfold split_char.
  pose proof (split_aux_avoids_sep (byte 9) l "" eq_refl) as A.
  pose proof (split_aux_avoids_other (byte 9) lf l "" H1 eq_refl) as B.
  pose proof (split_aux_avoids_other (byte 9) cr l "" H2 eq_refl) as C.
  rewrite Forall_forall in *. intros c Hc. unfold cell_ok. change LineReaderProofs.tab with (byte 9).
  rewrite (A c Hc), (B c Hc), (C c Hc). reflexivity.
Qed.

(* every cell of every row the readers produce, for EVERY byte string *)
Theorem file_cells_clean s : forall row c, In row (rows_of_file s) -> In c row -> cell_ok c = true.
Proof.
  intros row c Hr Hc. unfold rows_of_file in Hr. apply in_map_iff in Hr. destruct Hr as [line [<- Hl]].
  pose proof (filelines_aux_ok _ (chars_of_string s) [] (le_n _) eq_refl eq_refl) as F. rewrite Forall_forall in F.
  pose proof (row_of_line_clean line (F line Hl)) as R. rewrite Forall_forall in R. exact (R c Hc).
Qed.

Theorem text_cells_clean s : forall row c, In row (rows_of_text s) -> In c row -> cell_ok c = true.
Proof.
  intros row c Hr Hc. unfold rows_of_text in Hr. apply in_map_iff in Hr. destruct Hr as [line [<- Hl]].
  pose proof (splitlines_aux_ok _ (chars_of_string s) [] (le_n _) eq_refl eq_refl) as F. rewrite Forall_forall in F.
  pose proof (row_of_line_clean line (F line Hl)) as R. rewrite Forall_forall in R. exact (R c Hc).
Qed.

(* read . write . read = read (minus the rows the writer drops) *)
Theorem read_write_read s :
  rows_of_file (render_rows (rows_of_file s)) = filter (fun r => negb (empty_row r)) (rows_of_file s) /\
  rows_of_file (render_rows (rows_of_text s)) = filter (fun r => negb (empty_row r)) (rows_of_text s).
Proof. split; apply export_read_back_file; [apply file_cells_clean | apply text_cells_clean]. Qed.
