(* Obligation on the source, regenerated on every run: the document code the model covers holds exactly the state the model
   knows about - no new attribute, class-level table, module-level binding or caching decorator (a memo added to a class
   is the commonest way to make a pure function history-dependent; it changes the inventory and breaks this lemma). *)
From Coq Require Import List String Bool.
From KV Require Import StateGen StateBase.
Lemma state_document_as_modelled : state_document = modelled_state_document.
Proof. reflexivity. Qed.
