(* The exported text is read back as the exported grid: rows_of_file / rows_of_text applied to what the exporter writes
   return, cell for cell, the rows it rendered (rows made only of "", "*" and "." are not written).  Composition of
   render_rows with the line-reader theorem file_grid_literal; used by C01 / C03 / C08 (re-import reads the exported
   cells) and C20 (dump then load). *)
From Coq Require Import List String Ascii Bool Arith Lia.
From KV Require Import Strings OptGen Token Importer Exporter StringProofs LineReaderProofs.
Import ListNotations.
Open Scope list_scope.

Lemma append_empty_r (s : string) : (s ++ "")%string = s.
Proof. induction s as [|c s IH]; [reflexivity | cbn; now rewrite IH]. Qed.

Lemma append_assoc3 (a b c : string) : ((a ++ b) ++ c)%string = (a ++ b ++ c)%string.
Proof. induction a as [|x a IH]; [reflexivity | cbn; now rewrite IH]. Qed.

Lemma concat_map_unlines (f : list string -> string) (eol : string) : forall rows,
  String.concat "" (map (fun r => (f r ++ eol)%string) rows) = unlines eol (map f rows).
Proof.
  induction rows as [|r rows IH]; [reflexivity|]. cbn [map unlines].
  destruct rows as [|r2 rows].
  - cbn [map String.concat unlines]. now rewrite append_empty_r.
  - change (String.concat "" ((f r ++ eol)%string :: map (fun r0 => (f r0 ++ eol)%string) (r2 :: rows)))
      with ((f r ++ eol) ++ "" ++ String.concat "" (map (fun r0 => (f r0 ++ eol)%string) (r2 :: rows)))%string.
    rewrite IH. cbn [append]. apply append_assoc3.
Qed.

Lemma render_rows_unlines rows :
  render_rows rows = unlines Exporter.nl (map (join Exporter.tab) (filter (fun r => negb (empty_row r)) rows)).
Proof. unfold render_rows. apply concat_map_unlines. Qed.

Lemma kept_row_not_blank r : negb (empty_row r) = true -> String.eqb (join Exporter.tab r) "" = false.
Proof.
  intros H. apply negb_true_iff in H. destruct r as [|c r]; [discriminate|].
  destruct r as [|c2 r].
  - cbn [join]. destruct c as [|x c]; [discriminate | reflexivity].
  - cbn [join]. destruct c as [|x c]; reflexivity.
Qed.

Theorem export_read_back_file rows : (forall r c, In r rows -> In c r -> cell_ok c = true) ->
  rows_of_file (render_rows rows) = filter (fun r => negb (empty_row r)) rows.
Proof.
  intros H. rewrite render_rows_unlines.
  change Exporter.nl with (String lf ""). change Exporter.tab with (String LineReaderProofs.tab "").
  apply file_grid_literal; [left; reflexivity|].
  rewrite forallb_forall. intros r Hr. apply filter_In in Hr. destruct Hr as [Hin Hk].
  unfold row_ok. apply andb_true_iff. split.
  - rewrite forallb_forall. intros c Hc. exact (H r c Hin Hc).
  - change (String LineReaderProofs.tab "") with Exporter.tab. rewrite (kept_row_not_blank r Hk). reflexivity.
Qed.

Theorem export_read_back_text rows : (forall r c, In r rows -> In c r -> cell_ok c = true) ->
  plain (chars_of_string (render_rows rows)) = true ->
  rows_of_text (render_rows rows) = filter (fun r => negb (empty_row r)) rows.
Proof. intros H Hp. rewrite <- (file_equals_text _ Hp). apply export_read_back_file. exact H. Qed.

(* at the level of dumps / load_file / loads: what is written is imported from exactly the exported rows *)
Theorem dumps_then_load bad d o rows : export_rows d o = Ok rows ->
  (forall r c, In r rows -> In c r -> cell_ok c = true) ->
  exists text, dumps d o = Ok text /\
    load_file bad text = match run_rows bad init_state (filter (fun r => negb (empty_row r)) rows) with
                         | IOk s => IOk (i_doc s) | IErr e => IErr e | IOut => IOut end.
Proof.
  intros He H. exists (render_rows rows). unfold dumps. rewrite He. split; [reflexivity|].
  unfold load_file. rewrite (export_read_back_file rows H). reflexivity.
Qed.

Example read_back_example :
  rows_of_file (render_rows [["**kern"; "**text"]; ["*"; "*"]; ["4c"; "la la"]; ["."; "."]; ["*-"; "*-"]])%string
  = [["**kern"; "**text"]; ["4c"; "la la"]; ["*-"; "*-"]]%string.
Proof. vm_compute. reflexivity. Qed.
