(* Proofs for C20 (pure part): reading a file (open(newline='') + csv) and reading its text (str.splitlines + csv)
   split into the same lines and cells, for every byte string that holds none of the extra separators that only
   str.splitlines knows (VT, FF, FS, GS, RS, NEL = C2 85, LS/PS = E2 80 A8/A9). *)
From Coq Require Import List String Ascii Bool Arith Lia Wf_nat.
From KV Require Import Strings Importer.
Import ListNotations.
Open Scope list_scope.

(* no extra separator anywhere in the byte list *)
Fixpoint plain (l : list ascii) : bool :=
  match l with
  | [] => true
  | c :: r =>
    negb (is_byte 11 c || is_byte 12 c || is_byte 28 c || is_byte 29 c || is_byte 30 c)
    && (match r with
        | d :: r' => negb (is_byte 194 c && is_byte 133 d)
                     && (match r' with e :: _ => negb (is_byte 226 c && is_byte 128 d && (is_byte 168 e || is_byte 169 e)) | [] => true end)
        | [] => true
        end)
    && plain r
  end.

Lemma plain_tail c r : plain (c :: r) = true -> plain r = true.
Proof. simpl. intros H. apply andb_true_iff in H. tauto. Qed.

Theorem same_lines : forall n l cur, List.length l <= n -> plain l = true -> splitlines_aux l cur = filelines_aux l cur.
Proof.
  induction n as [|n IH]; intros l cur Hn Hp.
  - destruct l; [reflexivity | simpl in Hn; lia].
  - destruct l as [|c r]; [reflexivity|].
    assert (Hr : plain r = true) by (eapply plain_tail; exact Hp).
    simpl in Hn. cbn [splitlines_aux filelines_aux].
    destruct (is_byte 13 c) eqn:E13.
    + destruct r as [|d r']; [reflexivity|].
      destruct (is_byte 10 d); f_equal; apply IH; simpl in *; try lia; try assumption. eapply plain_tail; exact Hr.
    + simpl in Hp. apply andb_true_iff in Hp. destruct Hp as [Hp _]. apply andb_true_iff in Hp. destruct Hp as [Hsep Hseq].
      apply negb_true_iff in Hsep.
      destruct (is_byte 10 c) eqn:E10.
      { cbn [orb]. f_equal. apply IH; [lia | exact Hr]. }
      cbn [orb]. rewrite Hsep.
      destruct (is_byte 194 c) eqn:E194.
      { destruct r as [|d r']; [apply IH; [simpl; lia | reflexivity]|].
        apply andb_true_iff in Hseq. destruct Hseq as [H1 _]. cbn [andb] in H1. apply negb_true_iff in H1. rewrite H1.
        apply IH; [simpl in *; lia | exact Hr]. }
      destruct (is_byte 226 c) eqn:E226.
      { destruct r as [|d [|e r'']]; try (apply IH; [simpl in *; lia | exact Hr]).
        apply andb_true_iff in Hseq. destruct Hseq as [_ H2]. cbn [andb] in H2. apply negb_true_iff in H2. rewrite H2.
        apply IH; [simpl in *; lia | exact Hr]. }
      apply IH; [lia | exact Hr].
Qed.

Theorem file_equals_text s : plain (chars_of_string s) = true -> rows_of_file s = rows_of_text s.
Proof.
  intros H. unfold rows_of_file, rows_of_text, filelines, splitlines. f_equal. symmetry.
  apply (same_lines (List.length (chars_of_string s))); [lia | exact H].
Qed.

Theorem load_equals_loads bad s : plain (chars_of_string s) = true -> load_file bad s = loads bad s.
Proof. intros H. unfold load_file, loads. now rewrite (file_equals_text s H). Qed.

(* CRLF, LF and CR line ends, final newline or not: concrete instances *)
Example line_end_examples :
  let nl := String (ascii_of_nat 10) "" in let cr := String (ascii_of_nat 13) "" in
  rows_of_text ("a" ++ nl ++ "b")%string = rows_of_text ("a" ++ cr ++ nl ++ "b" ++ cr ++ nl)%string /\
  rows_of_text ("a" ++ cr ++ "b")%string = rows_of_file ("a" ++ nl ++ "b" ++ nl)%string.
Proof. vm_compute. split; reflexivity. Qed.

(* the exotic separators do split the text but not the file: finding K9, witness *)
Example k9_refuted : let ff := String (ascii_of_nat 12) "" in rows_of_text ("a" ++ ff ++ "b")%string <> rows_of_file ("a" ++ ff ++ "b")%string.
Proof. vm_compute. discriminate. Qed.
