(* Proofs for C20 (pure part): reading a file (open(newline='') + csv) and reading its text (str.splitlines + csv)
   split into the same lines and cells, for every byte string that holds none of the extra separators that only
   str.splitlines knows (VT, FF, FS, GS, RS, NEL = C2 85, LS/PS = E2 80 A8/A9). *)
From Coq Require Import List String Ascii Bool Arith Lia Wf_nat.
From KV Require Import Strings Importer.
Import ListNotations.
Open Scope list_scope.

(* no extra separator anywhere in the byte list *)
Fixpoint plain (l : list ascii) : bool :=
  match l with
  | [] => true
  | c :: r =>
    negb (is_byte 11 c || is_byte 12 c || is_byte 28 c || is_byte 29 c || is_byte 30 c)
    && (match r with
        | d :: r' => negb (is_byte 194 c && is_byte 133 d)
                     && (match r' with e :: _ => negb (is_byte 226 c && is_byte 128 d && (is_byte 168 e || is_byte 169 e)) | [] => true end)
        | [] => true
        end)
    && plain r
  end.

Lemma plain_tail c r : plain (c :: r) = true -> plain r = true.
Proof. simpl. intros H. apply andb_true_iff in H. tauto. Qed.

Theorem same_lines : forall n l cur, List.length l <= n -> plain l = true -> splitlines_aux l cur = filelines_aux l cur.
Proof.
  induction n as [|n IH]; intros l cur Hn Hp.
  - destruct l; [reflexivity | simpl in Hn; lia].
  - destruct l as [|c r]; [reflexivity|].
    assert (Hr : plain r = true) by (eapply plain_tail; exact Hp).
    simpl in Hn. cbn [splitlines_aux filelines_aux].
    destruct (is_byte 13 c) eqn:E13.
    + destruct r as [|d r']; [reflexivity|].
      destruct (is_byte 10 d); f_equal; apply IH; simpl in *; try lia; try assumption. eapply plain_tail; exact Hr.
    + simpl in Hp. apply andb_true_iff in Hp. destruct Hp as [Hp _]. apply andb_true_iff in Hp. destruct Hp as [Hsep Hseq].
      apply negb_true_iff in Hsep.
      destruct (is_byte 10 c) eqn:E10.
      { cbn [orb]. f_equal. apply IH; [lia | exact Hr]. }
      cbn [orb]. rewrite Hsep.
      destruct (is_byte 194 c) eqn:E194.
      { destruct r as [|d r']; [apply IH; [simpl; lia | reflexivity]|].
        apply andb_true_iff in Hseq. destruct Hseq as [H1 _]. cbn [andb] in H1. apply negb_true_iff in H1. rewrite H1.
        apply IH; [simpl in *; lia | exact Hr]. }
      destruct (is_byte 226 c) eqn:E226.
      { destruct r as [|d [|e r'']]; try (apply IH; [simpl in *; lia | exact Hr]).
        apply andb_true_iff in Hseq. destruct Hseq as [_ H2]. cbn [andb] in H2. apply negb_true_iff in H2. rewrite H2.
        apply IH; [simpl in *; lia | exact Hr]. }
      apply IH; [lia | exact Hr].
Qed.

Theorem file_equals_text s : plain (chars_of_string s) = true -> rows_of_file s = rows_of_text s.
Proof.
  intros H. unfold rows_of_file, rows_of_text, filelines, splitlines. f_equal. symmetry.
  apply (same_lines (List.length (chars_of_string s))); [lia | exact H].
Qed.

Theorem load_equals_loads bad s : plain (chars_of_string s) = true -> load_file bad s = loads bad s.
Proof. intros H. unfold load_file, loads. now rewrite (file_equals_text s H). Qed.

(* CRLF, LF and CR line ends, final newline or not: concrete instances *)
Example line_end_examples :
  let nl := String (ascii_of_nat 10) "" in let cr := String (ascii_of_nat 13) "" in
  rows_of_text ("a" ++ nl ++ "b")%string = rows_of_text ("a" ++ cr ++ nl ++ "b" ++ cr ++ nl)%string /\
  rows_of_text ("a" ++ cr ++ "b")%string = rows_of_file ("a" ++ nl ++ "b" ++ nl)%string.
Proof. vm_compute. split; reflexivity. Qed.

(* the exotic separators do split the text but not the file: finding K9, witness *)
Example k9_refuted : let ff := String (ascii_of_nat 12) "" in rows_of_text ("a" ++ ff ++ "b")%string <> rows_of_file ("a" ++ ff ++ "b")%string.
Proof. vm_compute. discriminate. Qed.

(* ------------------------------------------------------------------ C02: the line reader takes cell text literally *)
From KV Require Import StringProofs ReaderGen.

(* the reader configuration this model stands for, as read from Importer.import_string / import_file by the translator *)
Definition modelled_reader_args : list (string * string) := [("delimiter", "'\t'"); ("quoting", "csv.QUOTE_NONE")]%string.
Definition pair_mem (kv : string * string) (l : list (string * string)) : bool :=
  existsb (fun x => String.eqb (fst x) (fst kv) && String.eqb (snd x) (snd kv)) l.
Definition same_args (a b : list (string * string)) : bool :=
  forallb (fun kv => pair_mem kv b) a && forallb (fun kv => pair_mem kv a) b.

Lemma readers_as_modelled :
  text_lines_expr = "text.splitlines()"%string /\ same_args text_reader_args modelled_reader_args = true /\
  same_args file_reader_args modelled_reader_args = true /\ assoc_str "newline" file_open_args = Some "''"%string.
Proof. repeat split; reflexivity. Qed.

Definition tab : ascii := byte 9.
Definition lf : ascii := byte 10.
Definition cr : ascii := byte 13.

Lemma is_byte_eqb n c : n < 256 -> is_byte n c = Ascii.eqb c (ascii_of_nat n).
Proof.
  intros Hn. unfold is_byte. destruct (Ascii.eqb_spec c (ascii_of_nat n)) as [->|Hne].
  - rewrite nat_ascii_embedding by exact Hn. apply Nat.eqb_refl.
  - apply Nat.eqb_neq. intros H. apply Hne. rewrite <- H. now rewrite ascii_nat_embedding.
Qed.

Lemma filelines_aux_prefix : forall a rest cur, avoids lf a = true -> avoids cr a = true ->
  filelines_aux (chars_of_string a ++ rest) cur = filelines_aux rest (rev (chars_of_string a) ++ cur).
Proof.
  induction a as [|c a IH]; intros rest cur Hl Hc; [reflexivity|].
  cbn [avoids] in Hl, Hc. apply andb_true_iff in Hl. destruct Hl as [Hl1 Hl2]. apply andb_true_iff in Hc. destruct Hc as [Hc1 Hc2].
  apply negb_true_iff in Hl1. apply negb_true_iff in Hc1.
  cbn [chars_of_string app filelines_aux rev].
  rewrite (is_byte_eqb 13 c) by lia. rewrite (is_byte_eqb 10 c) by lia. fold cr lf. unfold cr, lf, byte in *. rewrite Hc1, Hl1.
  rewrite (IH rest (c :: cur) Hl2 Hc2). now rewrite <- app_assoc.
Qed.

Definition line_ok (l : string) : bool := avoids lf l && avoids cr l.

(* lines each followed by the end-of-line sequence [eol] *)
Fixpoint unlines (eol : string) (lines : list string) : string :=
  match lines with [] => ""%string | l :: r => (l ++ eol ++ unlines eol r)%string end.

Lemma flush_rev l : string_of_chars (rev (rev (chars_of_string l) ++ [])) = l.
Proof. rewrite app_nil_r, rev_involutive. apply string_of_chars_of_string. Qed.

Theorem filelines_unlines_lf : forall lines, forallb line_ok lines = true -> filelines (unlines (String lf "") lines) = lines.
Proof.
  unfold filelines. induction lines as [|l r IH]; intros H; [reflexivity|].
  cbn [forallb] in H. apply andb_true_iff in H. destruct H as [Hl Hr]. apply andb_true_iff in Hl. destruct Hl as [H1 H2].
  cbn [unlines]. rewrite !chars_of_string_app. rewrite (filelines_aux_prefix l _ [] H1 H2).
  cbn [chars_of_string app filelines_aux]. change (is_byte 13 lf) with false. change (is_byte 10 lf) with true. cbv iota.
  rewrite flush_rev. f_equal. apply IH, Hr.
Qed.

Theorem filelines_unlines_crlf : forall lines, forallb line_ok lines = true -> filelines (unlines (String cr (String lf "")) lines) = lines.
Proof.
  unfold filelines. induction lines as [|l r IH]; intros H; [reflexivity|].
  cbn [forallb] in H. apply andb_true_iff in H. destruct H as [Hl Hr]. apply andb_true_iff in Hl. destruct Hl as [H1 H2].
  cbn [unlines]. rewrite !chars_of_string_app. rewrite (filelines_aux_prefix l _ [] H1 H2).
  cbn [chars_of_string app filelines_aux]. change (is_byte 13 cr) with true. change (is_byte 10 lf) with true. cbv iota.
  rewrite flush_rev. f_equal. apply IH, Hr.
Qed.

(* a row: cells free of tab / LF / CR whose joined text is not empty (csv yields [] for an empty line) *)
Definition cell_ok (c : string) : bool := avoids tab c && avoids lf c && avoids cr c.
Definition row_ok (row : list string) : bool := forallb cell_ok row && negb (String.eqb (join (String tab "") row) "").

Lemma avoids_join_cells c0 sep : forall l, avoids c0 sep = true -> forallb (avoids c0) l = true -> avoids c0 (join sep l) = true.
Proof.
  induction l as [|x l IH]; intros Hs H; [reflexivity|]. cbn [forallb] in H. apply andb_true_iff in H. destruct H as [Hx Hl].
  destruct l as [|y l']; [exact Hx|].
  change (join sep (x :: y :: l')) with (x ++ sep ++ join sep (y :: l'))%string. rewrite !avoids_app, Hx, Hs. cbn [andb]. apply IH; assumption.
Qed.

Lemma forallb_imp {A} (p q : A -> bool) l : (forall x, p x = true -> q x = true) -> forallb p l = true -> forallb q l = true.
Proof. intros H. rewrite !forallb_forall. intros G x Hx. apply H, G, Hx. Qed.

Lemma row_of_line_join row : row_ok row = true -> row_of_line (join (String tab "") row) = row /\ line_ok (join (String tab "") row) = true.
Proof.
  unfold row_ok. intros H. apply andb_true_iff in H. destruct H as [Hc Hne]. apply negb_true_iff in Hne.
  assert (Hrow : row <> []) by (intros ->; discriminate).
  split.
  - unfold row_of_line. destruct (join (String tab "") row) eqn:E; [discriminate|]. rewrite <- E.
    apply (split_join_char tab row Hrow). eapply forallb_imp; [|exact Hc].
    intros x Hx. unfold cell_ok in Hx. apply andb_true_iff in Hx. destruct Hx as [Hx _]. apply andb_true_iff in Hx. tauto.
  - unfold line_ok. apply andb_true_iff. split; apply avoids_join_cells; try reflexivity.
    + eapply forallb_imp; [|exact Hc]. intros x Hx. unfold cell_ok in Hx. apply andb_true_iff in Hx. destruct Hx as [Hx _]. apply andb_true_iff in Hx. tauto.
    + eapply forallb_imp; [|exact Hc]. intros x Hx. unfold cell_ok in Hx. apply andb_true_iff in Hx. tauto.
Qed.

(* the whole grid comes back cell for cell, whatever the cells hold besides tab / LF / CR: quotes, commas, spaces, any byte *)
Theorem file_grid_literal eol grid : eol = String lf "" \/ eol = String cr (String lf "") -> forallb row_ok grid = true ->
  rows_of_file (unlines eol (map (join (String tab "")) grid)) = grid.
Proof.
  intros He H. unfold rows_of_file.
  assert (Hl : forallb line_ok (map (join (String tab "")) grid) = true).
  { rewrite forallb_forall. intros x Hx. apply in_map_iff in Hx. destruct Hx as [row [<- Hin]].
    rewrite forallb_forall in H. apply (row_of_line_join row (H row Hin)). }
  destruct He as [-> | ->]; [rewrite (filelines_unlines_lf _ Hl) | rewrite (filelines_unlines_crlf _ Hl)];
    rewrite map_map; rewrite <- (map_id grid) at 2; apply map_ext_in; intros row Hin;
    rewrite forallb_forall in H; apply (row_of_line_join row (H row Hin)).
Qed.

Corollary text_grid_literal eol grid : eol = String lf "" \/ eol = String cr (String lf "") -> forallb row_ok grid = true ->
  plain (chars_of_string (unlines eol (map (join (String tab "")) grid))) = true ->
  rows_of_text (unlines eol (map (join (String tab "")) grid)) = grid.
Proof. intros He H Hp. rewrite <- (file_equals_text _ Hp). apply file_grid_literal; assumption. Qed.

Example literal_cells_example :
  let q := String (ascii_of_nat 34) "" in
  rows_of_file (unlines (String lf "") (map (join (String tab "")) [["**kern"; "**text"]; ["4c"; q ++ "Ach,"]; ["4d"; "nein" ++ q]; ["*-"; "*-"]]))%string
  = [["**kern"; "**text"]; ["4c"; q ++ "Ach,"]; ["4d"; "nein" ++ q]; ["*-"; "*-"]]%string.
Proof. vm_compute. reflexivity. Qed.
