(* Proofs about token export (M4) and the tokenizers (M5): the facts C03 / C04 / C05 rest on,
   for every token, every category selection and every list of sub-tokens. *)
From Coq Require Import List String Ascii Bool ZArith Lia Permutation Sorted.
From KV Require Import Strings CatGen Cat CatProofs EncGen Token Tokenizers.
Import ListNotations.
Open Scope list_scope.

(* ------------------------------------------------------------------ the byte-wise string order *)
Lemma ascii_nat_inj a b : ascii_nat a = ascii_nat b -> a = b.
Proof. unfold ascii_nat. intros H. rewrite <- (ascii_nat_embedding a), <- (ascii_nat_embedding b). now rewrite H. Qed.

Lemma string_ltb_trichotomy : forall a b, string_ltb a b = true \/ a = b \/ string_ltb b a = true.
Proof.
  induction a as [|x a IH]; destruct b as [|y b]; simpl; auto.
  destruct (Nat.ltb (ascii_nat x) (ascii_nat y)) eqn:E1; [auto|].
  destruct (Nat.ltb (ascii_nat y) (ascii_nat x)) eqn:E2; [auto|].
  apply Nat.ltb_ge in E1. apply Nat.ltb_ge in E2.
  assert (x = y) by (apply ascii_nat_inj; lia). subst y.
  destruct (IH b) as [H|[H|H]]; [left; exact H | right; left; now subst | right; right; exact H].
Qed.

Lemma string_ltb_trans : forall a b c, string_ltb a b = true -> string_ltb b c = true -> string_ltb a c = true.
Proof.
  induction a as [|x a IH]; destruct b as [|y b]; destruct c as [|z c]; simpl; try discriminate; auto.
  destruct (Nat.ltb (ascii_nat x) (ascii_nat y)) eqn:E1.
  - intros _. destruct (Nat.ltb (ascii_nat y) (ascii_nat z)) eqn:E2.
    + intros _. apply Nat.ltb_lt in E1. apply Nat.ltb_lt in E2.
      replace (Nat.ltb (ascii_nat x) (ascii_nat z)) with true by (symmetry; apply Nat.ltb_lt; lia). reflexivity.
    + destruct (Nat.ltb (ascii_nat z) (ascii_nat y)) eqn:E3; [discriminate|]. intros _.
      apply Nat.ltb_lt in E1. apply Nat.ltb_ge in E2. apply Nat.ltb_ge in E3.
      replace (Nat.ltb (ascii_nat x) (ascii_nat z)) with true by (symmetry; apply Nat.ltb_lt; lia). reflexivity.
  - destruct (Nat.ltb (ascii_nat y) (ascii_nat x)) eqn:E1'; [discriminate|]. intros Hab.
    apply Nat.ltb_ge in E1. apply Nat.ltb_ge in E1'. assert (Hxy : ascii_nat x = ascii_nat y) by lia. rewrite Hxy.
    destruct (Nat.ltb (ascii_nat y) (ascii_nat z)); [reflexivity|].
    destruct (Nat.ltb (ascii_nat z) (ascii_nat y)); [discriminate|]. intros Hbc. eapply IH; eassumption.
Qed.

Lemma string_ltb_irrefl : forall a, string_ltb a a = false.
Proof. induction a as [|x a IH]; simpl; [reflexivity|]. now rewrite Nat.ltb_irrefl. Qed.

Lemma string_leb_total a b : string_leb a b = true \/ string_leb b a = true.
Proof.
  unfold string_leb. destruct (string_ltb b a) eqn:E1; [|now left]. right.
  destruct (string_ltb a b) eqn:E2; [|reflexivity].
  pose proof (string_ltb_trans _ _ _ E1 E2) as H. now rewrite string_ltb_irrefl in H.
Qed.

Lemma string_leb_trans a b c : string_leb a b = true -> string_leb b c = true -> string_leb a c = true.
Proof.
  unfold string_leb. rewrite !negb_true_iff. intros H1 H2. destruct (string_ltb c a) eqn:E; [|reflexivity].
  destruct (string_ltb_trichotomy b c) as [H|[H|H]].
  - pose proof (string_ltb_trans _ _ _ H E). congruence.
  - subst. congruence.
  - congruence.
Qed.

(* ------------------------------------------------------------------ stable insertion sort *)
Section SortFacts.
  Context {A : Type} (leb : A -> A -> bool).
  Hypothesis leb_total : forall a b, leb a b = true \/ leb b a = true.
  Hypothesis leb_trans : forall a b c, leb a b = true -> leb b c = true -> leb a c = true.

  Lemma insert_perm x l : Permutation (insert_sorted leb x l) (x :: l).
  Proof.
    induction l as [|y l IH]; simpl; [reflexivity|].
    destruct (leb y x); [|reflexivity]. rewrite IH. apply perm_swap.
  Qed.

  Lemma sort_acc_perm : forall l acc, Permutation (insertion_sort_acc leb acc l) (acc ++ l).
  Proof.
    induction l as [|x l IH]; intros acc; simpl; [now rewrite app_nil_r|].
    rewrite IH. rewrite insert_perm. change (x :: acc ++ l) with ((x :: acc) ++ l).
    rewrite (Permutation_middle acc l x). reflexivity.
  Qed.

  (* sorting never invents, drops or alters an element *)
  Lemma stable_sort_perm l : Permutation (stable_sort leb l) l.
  Proof. unfold stable_sort. now rewrite sort_acc_perm. Qed.

  Definition sorted (l : list A) : Prop := StronglySorted (fun a b => leb a b = true) l.

  Lemma insert_sorted_sorted x l : sorted l -> sorted (insert_sorted leb x l).
  Proof.
    unfold sorted. induction l as [|y l IH]; intros Hs; simpl.
    - constructor; constructor.
    - inversion Hs as [|? ? Hs' Hall]; subst. destruct (leb y x) eqn:E.
      + constructor; [apply IH; exact Hs'|].
        rewrite Forall_forall in *. intros z Hz. apply (Permutation_in _ (insert_perm x l)) in Hz.
        destruct Hz as [<-|Hz]; [exact E | apply Hall; exact Hz].
      + constructor; [exact Hs|]. assert (Hxy : leb x y = true) by (destruct (leb_total x y) as [H|H]; [exact H | congruence]).
        constructor; [exact Hxy|]. rewrite Forall_forall in *. intros z Hz. eapply leb_trans; [exact Hxy | apply Hall; exact Hz].
  Qed.

  Lemma sort_acc_sorted : forall l acc, sorted acc -> sorted (insertion_sort_acc leb acc l).
  Proof. induction l as [|x l IH]; intros acc H; simpl; [exact H | apply IH, insert_sorted_sorted, H]. Qed.

  Lemma filter_sorted p l : sorted l -> sorted (filter p l).
  Proof.
    unfold sorted. induction l as [|y l IH]; intros Hs; simpl; [constructor|].
    inversion Hs as [|? ? Hs' Hall]; subst. destruct (p y); [|apply IH; exact Hs'].
    constructor; [apply IH; exact Hs'|]. rewrite Forall_forall in *. intros z Hz. apply filter_In in Hz. apply Hall, Hz.
  Qed.

  (* filtering commutes with insertion into a sorted list *)
  Lemma insert_filter p x l : sorted l ->
    filter p (insert_sorted leb x l) = if p x then insert_sorted leb x (filter p l) else filter p l.
  Proof.
    unfold sorted. induction l as [|y l IH]; intros Hs; simpl.
    - destruct (p x); reflexivity.
    - inversion Hs as [|? ? Hs' Hall]; subst. destruct (leb y x) eqn:E; simpl.
      + rewrite (IH Hs'). destruct (p y) eqn:Py, (p x) eqn:Px; simpl; try rewrite E; reflexivity.
      + destruct (p x) eqn:Px; simpl; rewrite ?Px.
        * destruct (p y) eqn:Py; simpl; [rewrite E; reflexivity|].
          (* y is dropped: everything kept after it is >= y > x, so x still goes in front *)
          destruct (filter p l) as [|z m] eqn:F; [reflexivity|]. simpl.
          assert (Hz : In z l) by (assert (In z (filter p l)) by (rewrite F; now left); apply filter_In in H; tauto).
          rewrite Forall_forall in Hall. pose proof (Hall z Hz) as Hyz.
          destruct (leb z x) eqn:Ez; [|reflexivity].
          pose proof (leb_trans _ _ _ Hyz Ez). congruence.
        * reflexivity.
  Qed.

  Lemma sort_acc_filter p : forall l acc, sorted acc ->
    filter p (insertion_sort_acc leb acc l) = insertion_sort_acc leb (filter p acc) (filter p l).
  Proof.
    induction l as [|x l IH]; intros acc Hs; simpl; [reflexivity|].
    rewrite (IH _ (insert_sorted_sorted x acc Hs)), (insert_filter p x acc Hs). destruct (p x); reflexivity.
  Qed.

  (* filtering commutes with the stable sort: the selected elements keep their relative order *)
  Theorem filter_stable_sort p l : filter p (stable_sort leb l) = stable_sort leb (filter p l).
  Proof. unfold stable_sort. rewrite sort_acc_filter; [reflexivity | constructor]. Qed.

  Theorem stable_sort_sorted l : sorted (stable_sort leb l).
  Proof. apply sort_acc_sorted. constructor. Qed.
End SortFacts.

Lemma sub_cat_leb_total a b : sub_cat_leb a b = true \/ sub_cat_leb b a = true.
Proof. unfold sub_cat_leb. destruct (Z.leb_spec (cat_value (st_cat a)) (cat_value (st_cat b))); [now left | right; apply Z.leb_le; lia]. Qed.
Lemma sub_cat_leb_trans a b c : sub_cat_leb a b = true -> sub_cat_leb b c = true -> sub_cat_leb a c = true.
Proof. unfold sub_cat_leb. rewrite !Z.leb_le. lia. Qed.

Lemma sub_full_leb_total a b : sub_full_leb a b = true \/ sub_full_leb b a = true.
Proof.
  unfold sub_full_leb.
  destruct (Z.ltb_spec (cat_value (st_cat a)) (cat_value (st_cat b))); [now left|].
  destruct (Z.ltb_spec (cat_value (st_cat b)) (cat_value (st_cat a))); [now right|].
  apply string_leb_total.
Qed.
Lemma sub_full_leb_trans a b c : sub_full_leb a b = true -> sub_full_leb b c = true -> sub_full_leb a c = true.
Proof.
  unfold sub_full_leb.
  destruct (Z.ltb_spec (cat_value (st_cat a)) (cat_value (st_cat b))) as [Hab|Hab];
  destruct (Z.ltb_spec (cat_value (st_cat b)) (cat_value (st_cat a))) as [Hba|Hba]; try lia; try discriminate;
  destruct (Z.ltb_spec (cat_value (st_cat b)) (cat_value (st_cat c))) as [Hbc|Hbc];
  destruct (Z.ltb_spec (cat_value (st_cat c)) (cat_value (st_cat b))) as [Hcb|Hcb]; try lia; try discriminate;
  destruct (Z.ltb_spec (cat_value (st_cat a)) (cat_value (st_cat c))) as [Hac|Hac];
  destruct (Z.ltb_spec (cat_value (st_cat c)) (cat_value (st_cat a))) as [Hca|Hca]; try lia; try discriminate; auto.
  apply string_leb_trans.
Qed.

(* ------------------------------------------------------------------ C05: the filter acts on sub-parts only *)
Definition filter_note (keep : cat -> bool) (n : noterest) : noterest :=
  {| nr_enc := nr_enc n; nr_pd := filter (fun s => keep (st_cat s)) (nr_pd n);
     nr_deco := filter (fun s => keep (st_cat s)) (nr_deco n) |}.

Lemma filter_true {A} (l : list A) : filter (fun _ => true) l = l.
Proof. induction l as [|x l IH]; simpl; congruence. Qed.

Lemma filter_filter {A} (p : A -> bool) (l : list A) : filter p (filter p l) = filter p l.
Proof. induction l as [|x l IH]; simpl; [reflexivity|]. destruct (p x) eqn:E; simpl; [rewrite E|]; congruence. Qed.

(* exporting with a category filter = exporting, unfiltered, the note that holds only the selected sub-parts *)
Theorem export_filter_is_deletion keep n :
  export_noterest keep None n = export_noterest (fun _ => true) None (filter_note keep n).
Proof. unfold export_noterest, filter_note. simpl. now rewrite !filter_true. Qed.

(* the selected sub-parts appear in the same relative order as in the unfiltered export *)
Theorem filtered_parts_are_subsequence keep n :
  stable_sort sub_cat_leb (filter (fun s => keep (st_cat s)) (nr_pd n))
  = filter (fun s => keep (st_cat s)) (stable_sort sub_cat_leb (nr_pd n)) /\
  stable_sort sub_full_leb (filter (fun s => keep (st_cat s)) (nr_deco n))
  = filter (fun s => keep (st_cat s)) (stable_sort sub_full_leb (nr_deco n)).
Proof.
  split; symmetry.
  - apply filter_stable_sort; [apply sub_cat_leb_total | apply sub_cat_leb_trans].
  - apply filter_stable_sort; [apply sub_full_leb_total | apply sub_full_leb_trans].
Qed.

(* include = all, exclude = nothing keeps everything *)
Lemma keep_all c : keep_of (valid None None) c = true.
Proof. unfold keep_of. apply mem_In, valid_none_none. Qed.

Theorem keep_all_is_identity n : filter_note (keep_of (valid None None)) n = n.
Proof.
  unfold filter_note. destruct n as [e pd deco]. cbn [nr_enc nr_pd nr_deco]. f_equal.
  - rewrite <- (filter_true pd) at 2. apply filter_ext. intros s. apply keep_all.
  - rewrite <- (filter_true deco) at 2. apply filter_ext. intros s. apply keep_all.
Qed.

(* a token that is not a note, rest or chord is exported as its own text whatever the filter *)
Theorem simple_export_verbatim keep conv t :
  match t with TNoteRest _ | TChord _ _ => True | _ => export_token keep conv t = Ok (tok_enc t) end.
Proof. destruct t; simpl; auto. Qed.

(* ------------------------------------------------------------------ C04: the plain encodings are the extended ones stripped *)
Theorem kern_is_stripped_ekern cats t : kern_tokenize cats t = map_res strip_separators (ekern_tokenize cats t).
Proof. reflexivity. Qed.
Theorem bkern_is_stripped_bekern cats t : bkern_tokenize cats t = map_res strip_token_separator (bekern_tokenize cats t).
Proof. reflexivity. Qed.
Theorem akern_is_stripped_aekern cats clef t : akern_tokenize cats clef t = map_res strip_separators (aekern_tokenize cats clef t).
Proof. reflexivity. Qed.
Theorem bekern_is_reduced_ekern cats t : bekern_tokenize cats t = map_res bekern_of_ekern (ekern_tokenize cats t).
Proof. reflexivity. Qed.

(* the factory hands every encoding its own tokenizer (regenerated table) *)
Lemma factory_complete : forallb (fun e => match assoc_enc e factory_table with Some _ => true | None => false end) all_encodings = true.
Proof. vm_compute. reflexivity. Qed.

Definition expected_tokenizer (e : encoding) : string :=
  match e with
  | E_eKern => "EkernTokenizer" | E_normalizedKern => "KernTokenizer" | E_bKern => "BkernTokenizer"
  | E_bEkern => "BekernTokenizer" | E_agnosticExtendedKern => "AEKernTokenizer" | E_agnosticKern => "AKernTokenizer"
  end.
Lemma factory_right : forallb (fun e => match assoc_enc e factory_table with
                                        | Some c => String.eqb c (expected_tokenizer e) | None => false end) all_encodings = true.
Proof. vm_compute. reflexivity. Qed.

Theorem tokenize_dispatch e cats clef t :
  tokenize e cats clef t =
  match e with
  | E_eKern => ekern_tokenize cats t | E_normalizedKern => kern_tokenize cats t
  | E_bKern => bkern_tokenize cats t | E_bEkern => bekern_tokenize cats t
  | E_agnosticExtendedKern => aekern_tokenize cats clef t | E_agnosticKern => akern_tokenize cats clef t
  end.
Proof. destruct e; reflexivity. Qed.

(* every spine header is '**' + encoding prefix + original type *)
Definition expected_prefix (e : encoding) : string :=
  match e with
  | E_eKern => "e" | E_normalizedKern => "" | E_bKern => "b" | E_bEkern => "be"
  | E_agnosticExtendedKern => "ae" | E_agnosticKern => "a"
  end%string.
Theorem header_prefix e enc sp :
  header_for e (THeader enc sp) = Ok (THeader ("**" ++ expected_prefix e ++ drop 2 enc)%string sp).
Proof. destruct e; reflexivity. Qed.

(* for a token that is not a note / rest / chord and whose text holds no separator, all six encodings agree *)
Theorem non_note_same_in_all_encodings e cats clef t :
  match t with TNoteRest _ | TChord _ _ => True
  | _ => strip_separators (tok_enc t) = tok_enc t -> bekern_of_ekern (tok_enc t) = tok_enc t ->
         strip_token_separator (tok_enc t) = tok_enc t ->
         (e = E_agnosticKern \/ e = E_agnosticExtendedKern -> match clef with Some ce => Gkern.create_clef ce <> None | None => True end) ->
         tokenize e cats clef t = Ok (tok_enc t)
  end.
Proof.
  destruct t; auto; cbn [tok_enc]; intros H1 H2 H3 H4; rewrite tokenize_dispatch;
    unfold kern_tokenize, bkern_tokenize, bekern_tokenize, akern_tokenize, aekern_tokenize, ekern_tokenize;
    destruct e; cbn [export_token map_res tok_enc]; rewrite ?H2, ?H3, ?H1; try reflexivity;
    (destruct clef as [ce|]; [|cbn [export_token map_res tok_enc]; rewrite ?H1; reflexivity]);
    (destruct (Gkern.create_clef ce) eqn:E; [cbn [export_token map_res tok_enc]; rewrite ?H1; reflexivity
                                            | exfalso; apply (H4 ltac:(auto)); reflexivity]).
Qed.
