(* C01 / C03: the recogniser on the canonical text of a REST - the whole text is consumed and the token is exactly the
   rest: its duration marks, the rest letter and its signifiers (scan-of-print, for every well-formed rest). *)
From Coq Require Import List String Ascii Bool Arith Lia.
From KV Require Import Strings CatGen Cat Token KernTok CanonProofs ScanProofs.
Import ListNotations.
Open Scope list_scope.

Record crest := { rs_dur : cdur; rs_decos : chars }.

Definition rest_ok (r : crest) : Prop :=
  dur_ok (rs_dur r) /\ forallb is_rest_deco (rs_decos r) = true /\ NoDup (rs_decos r).

Definition print_rest (r : crest) : chars := print_dur (rs_dur r) ++ "r"%char :: rs_decos r.
Definition rest_pd (r : crest) : list subtoken := mk_durs (dur_tokens (rs_dur r)) ++ [{| st_enc := "r"%string; st_cat := REST |}].
Definition rest_token (r : crest) : token :=
  TNoteRest {| nr_enc := str (print_rest r); nr_pd := rest_pd r; nr_deco := map deco_of (rs_decos r) |}.

Lemma rest_deco_facts_b : forallb (fun c => implb (is_rest_deco c) (negb (is_digit c) && negb (Ascii.eqb c "r") && negb (is_pitch_letter c))) all_bytes = true.
Proof. vm_compute. reflexivity. Qed.
Lemma rest_deco_facts c : is_rest_deco c = true -> is_digit c = false /\ Ascii.eqb c "r" = false /\ is_pitch_letter c = false.
Proof.
  intros H. pose proof (byte_lift _ rest_deco_facts_b c) as G. cbv beta in G. rewrite H in G. simpl in G.
  apply andb_true_iff in G. destruct G as [G G3]. apply andb_true_iff in G. destruct G as [G1 G2]. rewrite !negb_true_iff in *. tauto.
Qed.

Lemma digit_not_rest_deco_b : forallb (fun c => implb (is_digit c) (negb (is_rest_deco c))) all_bytes = true.
Proof. vm_compute. reflexivity. Qed.
Lemma digit_not_rest_deco c : is_digit c = true -> is_rest_deco c = false.
Proof. intros H. pose proof (byte_lift _ digit_not_rest_deco_b c) as G. cbv beta in G. rewrite H in G. simpl in G. now apply negb_true_iff in G. Qed.

Lemma print_dur_head d : dur_ok d -> exists x xs, print_dur d = x :: xs /\ is_digit x = true.
Proof.
  intros [Hn [Hne _]]. unfold print_dur, modern_chars. destruct (cd_num d) as [|x xs]; [contradiction|].
  simpl in Hn. apply andb_true_iff in Hn. destruct Hn as [Hx _]. eexists; eexists. split; [reflexivity | exact Hx].
Qed.

(* the note scanner declines the text of a rest (so the rest scanner gets it) *)
Lemma scan_note_rest r : rest_ok r -> scan_note {| ls_deco := []; ls_dur := [] |} (print_rest r) = None.
Proof.
  intros [Hdur [Hde Hnd]]. destruct (print_dur_head _ Hdur) as [x [xs [Ex Hx]]].
  assert (Hafter : after_dur ("r"%char :: rs_decos r)) by (right; reflexivity).
  unfold scan_note, print_rest.
  assert (Hfirst : stops is_note_deco (print_dur (rs_dur r) ++ "r"%char :: rs_decos r)).
  { rewrite Ex. cbn. apply (digit_props x Hx). }
  rewrite (take_while_none is_note_deco _ Hfirst).
  rewrite (scan_duration_print (rs_dur r) _ Hdur Hafter).
  rewrite (take_while_none is_note_deco ("r"%char :: rs_decos r)) by reflexivity.
  reflexivity.
Qed.

Theorem scan_rest_print r : rest_ok r ->
  scan_rest {| ls_deco := []; ls_dur := [] |} (print_rest r) =
  Some (print_rest r, {| ls_deco := map deco_of (rs_decos r); ls_dur := mk_durs (dur_tokens (rs_dur r)) |}, rest_pd r, []).
Proof.
  intros [Hdur [Hde Hnd]]. destruct (print_dur_head _ Hdur) as [x [xs [Ex Hx]]].
  assert (Hafter : after_dur ("r"%char :: rs_decos r)) by (right; reflexivity).
  unfold scan_rest, print_rest. cbn [ls_deco ls_dur].
  assert (Hfirst : stops is_rest_deco (print_dur (rs_dur r) ++ "r"%char :: rs_decos r)).
  { rewrite Ex. cbn. apply (digit_not_rest_deco x Hx). }
  rewrite (take_while_none is_rest_deco _ Hfirst).
  rewrite (scan_duration_print (rs_dur r) _ Hdur Hafter).
  (* after the rest letter: no second r, then the signifiers up to the end *)
  assert (Hr3 : scan_rest_letter ("r"%char :: rs_decos r) = Some (["r"%char], rs_decos r)).
  { unfold scan_rest_letter. rewrite Ascii.eqb_refl. destruct (rs_decos r) as [|c cs] eqn:E; [reflexivity|].
    simpl in Hde. apply andb_true_iff in Hde. destruct Hde as [Hc _]. destruct (rest_deco_facts c Hc) as [_ [Hcr _]]. rewrite Hcr. reflexivity. }
  rewrite Hr3. rewrite (take_while_all is_rest_deco (rs_decos r) Hde).
  assert (Hdecos : add_decos (add_decos [] []) (rs_decos r) = map deco_of (rs_decos r)).
  { cbn [add_decos]. rewrite add_decos_nodup; [reflexivity | exact Hnd | intros c _ [] | intros s []]. }
  rewrite Hdecos. rewrite (concat_dur_tokens _ Hdur). unfold rest_pd. reflexivity.
Qed.

Theorem recognise_print_rest r : rest_ok r -> kern_recognise (str (print_rest r)) = KTok (rest_token r).
Proof.
  intros Hok. pose proof Hok as [Hdur _]. destruct (print_dur_head _ Hdur) as [c [cs [Ex Hc]]].
  assert (E : exists rest, print_rest r = c :: rest) by (unfold print_rest; rewrite Ex; eexists; reflexivity).
  destruct E as [rest E].
  assert (Hs : in_chars "#-n%.qpPr =*" c = false) by apply (digit_props c Hc).
  assert (Hstar : Ascii.eqb c "*" = false /\ Ascii.eqb c "=" = false /\ Ascii.eqb c "." = false).
  { assert (G : forallb (fun c => implb (negb (in_chars "#-n%.qpPr =*" c)) (negb (Ascii.eqb c "*") && negb (Ascii.eqb c "=") && negb (Ascii.eqb c "."))) all_bytes = true)
      by (vm_compute; reflexivity).
    pose proof (byte_lift _ G c) as G'. cbv beta in G'. rewrite Hs in G'. simpl in G'.
    apply andb_true_iff in G'. destruct G' as [G' G3]. apply andb_true_iff in G'. destruct G' as [G1 G2]. rewrite !negb_true_iff in *. tauto. }
  destruct Hstar as [H1 [H2 H3]].
  unfold kern_recognise. rewrite E. unfold str at 1 2 3 4. cbn [string_of_chars].
  assert (Hdot : String.eqb (String c (string_of_chars rest)) "." = false) by (simpl; rewrite H3; reflexivity).
  rewrite Hdot, H1, H2. unfold scan_notes. cbn [chars_of_string]. rewrite chars_of_string_of_chars. rewrite <- E.
  cbn [scan_elements]. unfold scan_note_or_rest. rewrite (scan_note_rest r Hok), (scan_rest_print r Hok). cbn [map]. unfold rest_token.
  rewrite E. reflexivity.
Qed.

Example rest_example : kern_recognise "4.r;" = KTok (rest_token {| rs_dur := {| cd_num := ["4"%char]; cd_frac := None; cd_dots := 1; cd_grace := "" |}; rs_decos := [";"%char] |}).
Proof. vm_compute. reflexivity. Qed.
