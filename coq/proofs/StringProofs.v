(* Facts about the string operations of M0 that the export / strip lemmas need: str.replace with an empty replacement
   on text that is free of the pattern's bytes, and on pieces joined by the pattern. *)
From Coq Require Import List String Ascii Bool Arith Lia.
From KV Require Import Strings.
Import ListNotations.
Open Scope string_scope.

Lemma append_assoc (a b c : string) : (a ++ b) ++ c = a ++ (b ++ c).
Proof. induction a as [|x a IH]; simpl; [reflexivity | now rewrite IH]. Qed.
Lemma append_nil_r (a : string) : a ++ "" = a.
Proof. induction a as [|x a IH]; simpl; [reflexivity | now rewrite IH]. Qed.
Lemma length_append (a b : string) : String.length (a ++ b) = String.length a + String.length b.
Proof. induction a as [|x a IH]; simpl; [reflexivity | now rewrite IH]. Qed.

(* a string none of whose characters is the first character of the pattern *)
Fixpoint avoids (c0 : ascii) (s : string) : bool :=
  match s with EmptyString => true | String c s' => negb (Ascii.eqb c c0) && avoids c0 s' end.

Lemma avoids_app c0 a b : avoids c0 (a ++ b) = avoids c0 a && avoids c0 b.
Proof. induction a as [|x a IH]; simpl; [reflexivity | rewrite IH; now rewrite andb_assoc]. Qed.

Lemma startswith_avoids c0 p s : avoids c0 s = true -> startswith (String c0 p) s = false.
Proof.
  destruct s as [|c s']; simpl; [reflexivity|]. intros H. apply andb_true_iff in H. destruct H as [H _].
  apply negb_true_iff in H. rewrite Ascii.eqb_sym in H. rewrite H. reflexivity.
Qed.

(* replace pat "" leaves a pattern-free string alone (any fuel) *)
Lemma replace_fuel_avoids c0 p : forall fuel s, avoids c0 s = true -> replace_fuel fuel (String c0 p) "" s = s.
Proof.
  induction fuel as [|f IH]; intros s H; [reflexivity|]. destruct s as [|c s']; [reflexivity|].
  cbn [replace_fuel]. rewrite (startswith_avoids c0 p _ H). simpl in H. apply andb_true_iff in H. destruct H as [_ H].
  now rewrite (IH s' H).
Qed.

Lemma replace_avoids c0 p s : avoids c0 s = true -> replace (String c0 p) "" s = s.
Proof. intros H. unfold replace. apply replace_fuel_avoids. exact H. Qed.

Lemma startswith_self p s : startswith p (p ++ s) = true.
Proof. induction p as [|x p IH]; simpl; [reflexivity | now rewrite Ascii.eqb_refl, IH]. Qed.
Lemma drop_self p s : drop (String.length p) (p ++ s) = s.
Proof. induction p as [|x p IH]; simpl; [reflexivity | exact IH]. Qed.

(* enough fuel: a ++ pat ++ b with a pattern-free loses exactly that occurrence, then continues on b *)
Lemma replace_fuel_app c0 p : forall a fuel b, avoids c0 a = true -> String.length a + String.length (String c0 p) + String.length b <= fuel ->
  replace_fuel fuel (String c0 p) "" (a ++ String c0 p ++ b) = a ++ replace_fuel (fuel - String.length a - 1) (String c0 p) "" b.
Proof.
  induction a as [|x a IH]; intros fuel b Ha Hf.
  - cbn [append String.length] in *. destruct fuel as [|f]; [simpl in Hf; lia|].
    change (String c0 p ++ b) with (String c0 (p ++ b)). cbn [replace_fuel].
    change (String c0 (p ++ b)) with (String c0 p ++ b). rewrite startswith_self, drop_self. cbn [append].
    replace (S f - 0 - 1) with f by lia. reflexivity.
  - change ((String x a) ++ String c0 p ++ b) with (String x (a ++ String c0 p ++ b)).
    destruct fuel as [|f]; [simpl in Hf; lia|]. cbn [replace_fuel].
    simpl in Ha. apply andb_true_iff in Ha. destruct Ha as [Hx Ha]. apply negb_true_iff in Hx.
    match goal with |- context [if ?X then _ else _] => assert (E : X = false) end.
    { cbn [startswith]. rewrite Ascii.eqb_sym in Hx. now rewrite Hx. }
    rewrite E. rewrite (IH f b Ha) by (simpl in Hf; simpl; lia).
    cbn [String.length append]. replace (S f - S (String.length a) - 1) with (f - String.length a - 1) by lia. reflexivity.
Qed.

(* fuel beyond the length of the text changes nothing (non-empty pattern) *)
Lemma drop_shorter p0 pat' c s' : String.length (drop (String.length (String p0 pat')) (String c s')) < String.length (String c s').
Proof.
  cbn [String.length drop]. revert s'. induction pat' as [|q pat' IHp]; intros s'; simpl; [lia|].
  destruct s' as [|d s'']; simpl; [lia|]. specialize (IHp s''). lia.
Qed.

Lemma replace_fuel_enough p0 pat' : forall n s f1 f2, String.length s <= n -> String.length s <= f1 -> String.length s <= f2 ->
  replace_fuel f1 (String p0 pat') "" s = replace_fuel f2 (String p0 pat') "" s.
Proof.
  induction n as [|n IH]; intros s f1 f2 Hn H1 H2.
  - destruct s as [|c s']; [destruct f1, f2; reflexivity | simpl in Hn; lia].
  - destruct s as [|c s']; [destruct f1, f2; reflexivity|].
    destruct f1 as [|f1]; [simpl in H1; lia|]. destruct f2 as [|f2]; [simpl in H2; lia|]. cbn [replace_fuel].
    destruct (startswith (String p0 pat') (String c s')) eqn:E.
    + cbn [append]. pose proof (drop_shorter p0 pat' c s') as Hd. apply IH; simpl in *; lia.
    + f_equal. apply IH; simpl in *; lia.
Qed.

Lemma replace_app c0 p a b : avoids c0 a = true ->
  replace (String c0 p) "" (a ++ String c0 p ++ b) = a ++ replace (String c0 p) "" b.
Proof.
  intros Ha. unfold replace.
  rewrite (replace_fuel_app c0 p a _ b Ha) by (rewrite !length_append; cbn [String.length]; lia).
  f_equal. apply (replace_fuel_enough c0 p (String.length b)); [lia | rewrite !length_append; cbn [String.length]; lia | lia].
Qed.

(* joining pattern-free pieces with the pattern and removing the pattern gives the concatenation *)
Lemma replace_join c0 p : forall parts, forallb (avoids c0) parts = true ->
  replace (String c0 p) "" (join (String c0 p) parts) = String.concat "" parts.
Proof.
  induction parts as [|x parts IH]; intros H; [reflexivity|].
  simpl in H. apply andb_true_iff in H. destruct H as [Hx Hp].
  destruct parts as [|y parts'].
  - simpl. apply replace_avoids. exact Hx.
  - change (join (String c0 p) (x :: y :: parts')) with (x ++ String c0 p ++ join (String c0 p) (y :: parts')).
    rewrite (replace_app c0 p x _ Hx), (IH Hp). reflexivity.
Qed.

(* ------------------------------------------------------------------ splitting *)
Lemma rev_aux_app : forall a b, rev_string_aux a b = (rev_string_aux a "" ++ b)%string.
Proof.
  induction a as [|x a IH]; intros b; simpl; [reflexivity|].
  rewrite (IH (String x b)), (IH (String x "")). rewrite append_assoc. reflexivity.
Qed.

Lemma rev_aux_invol : forall a, rev_string_aux (rev_string_aux a "") "" = a.
Proof.
  assert (G : forall a b, rev_string_aux (rev_string_aux a b) "" = (rev_string_aux b "" ++ a)%string).
  { induction a as [|x a IH]; intros b; simpl; [now rewrite append_nil_r|].
    rewrite IH. simpl. rewrite (rev_aux_app b (String x "")), append_assoc. reflexivity. }
  intros a. rewrite G. reflexivity.
Qed.

(* reading over a separator-free prefix only moves it (reversed) into the accumulator *)
Lemma split_char_aux_prefix sep : forall a rest cur, avoids sep a = true ->
  split_char_aux sep (a ++ rest) cur = split_char_aux sep rest (rev_string_aux a cur).
Proof.
  induction a as [|x a IH]; intros rest cur H; [reflexivity|].
  simpl in H. apply andb_true_iff in H. destruct H as [Hx Ha]. apply negb_true_iff in Hx.
  cbn [append split_char_aux]. rewrite Hx. rewrite (IH rest (String x cur) Ha). reflexivity.
Qed.

(* str.split(sep) undoes sep.join(parts) for separator-free parts *)
Theorem split_join_char sep : forall parts, parts <> [] -> forallb (avoids sep) parts = true ->
  split_char sep (join (String sep "") parts) = parts.
Proof.
  unfold split_char. induction parts as [|x parts IH]; intros Hne H; [contradiction|].
  simpl in H. apply andb_true_iff in H. destruct H as [Hx Hp].
  destruct parts as [|y parts'].
  - simpl. rewrite <- (append_nil_r x) at 1. rewrite (split_char_aux_prefix sep x "" "" Hx). simpl. now rewrite rev_aux_invol.
  - change (join (String sep "") (x :: y :: parts')) with (x ++ String sep "" ++ join (String sep "") (y :: parts'))%string.
    rewrite (split_char_aux_prefix sep x _ "" Hx). cbn [append split_char_aux]. rewrite Ascii.eqb_refl. rewrite rev_aux_invol.
    f_equal. apply IH; [discriminate | exact Hp].
Qed.

(* the first piece of str.split(pattern): everything before the first occurrence *)
Lemma split_str_fuel_prefix c0 p : forall a fuel rest cur, avoids c0 a = true -> String.length a <= fuel ->
  split_str_fuel fuel (String c0 p) (a ++ rest) cur
  = split_str_fuel (fuel - String.length a) (String c0 p) rest (rev_string_aux a cur).
Proof.
  induction a as [|x a IH]; intros fuel rest cur Ha Hf.
  - cbn [append String.length rev_string_aux]. now rewrite Nat.sub_0_r.
  - simpl in Ha. apply andb_true_iff in Ha. destruct Ha as [Hx Ha]. apply negb_true_iff in Hx.
    destruct fuel as [|f]; [simpl in Hf; lia|].
    change ((String x a) ++ rest)%string with (String x (a ++ rest)). cbn [split_str_fuel].
    assert (E : startswith (String c0 p) (String x (a ++ rest)) = false) by (cbn [startswith]; rewrite Ascii.eqb_sym in Hx; now rewrite Hx).
    rewrite E. rewrite (IH f rest (String x cur) Ha) by (simpl in Hf; lia). reflexivity.
Qed.

Theorem split_str_first c0 p a b : avoids c0 a = true ->
  match split_str (String c0 p) (a ++ String c0 p ++ b) with x :: _ => x | [] => ""%string end = a.
Proof.
  intros Ha. unfold split_str.
  rewrite (split_str_fuel_prefix c0 p a _ _ "" Ha) by (rewrite length_append; lia).
  remember (S (String.length (a ++ String c0 p ++ b)) - String.length a) as f eqn:Ef.
  destruct f as [|f]; [rewrite !length_append in Ef; cbn [String.length] in Ef; lia|].
  change (String c0 p ++ b)%string with (String c0 (p ++ b)). cbn [split_str_fuel].
  change (String c0 (p ++ b)) with (String c0 p ++ b)%string. rewrite startswith_self. now rewrite rev_aux_invol.
Qed.

Theorem split_str_none c0 p a : avoids c0 a = true -> split_str (String c0 p) a = [a].
Proof.
  intros Ha. unfold split_str. rewrite <- (append_nil_r a) at 2.
  rewrite (split_str_fuel_prefix c0 p a _ "" "" Ha) by lia.
  replace (S (String.length a) - String.length a) with 1 by lia. simpl. now rewrite rev_aux_invol.
Qed.

Lemma split_str_fuel_nonempty sep : forall f s cur, split_str_fuel f sep s cur <> [].
Proof.
  induction f as [|f IH]; intros s cur; simpl; [discriminate|].
  destruct s; [discriminate|]. destruct (startswith sep (String a s)); [discriminate | apply IH].
Qed.

Lemma contains_str_app c0 p a b : avoids c0 a = true -> contains_str (String c0 p) (a ++ String c0 p ++ b) = true.
Proof.
  intros Ha. unfold contains_str, split_str.
  rewrite (split_str_fuel_prefix c0 p a _ _ "" Ha) by (rewrite length_append; lia).
  remember (S (String.length (a ++ String c0 p ++ b)) - String.length a) as f eqn:Ef.
  destruct f as [|f]; [rewrite !length_append in Ef; cbn [String.length] in Ef; lia|].
  change (String c0 p ++ b)%string with (String c0 (p ++ b)). cbn [split_str_fuel].
  change (String c0 (p ++ b)) with (String c0 p ++ b)%string. rewrite startswith_self.
  match goal with |- context [split_str_fuel f ?sep ?s ?cur] => pose proof (split_str_fuel_nonempty sep f s cur) as Hn; destruct (split_str_fuel f sep s cur) end;
    [contradiction | reflexivity].
Qed.

Lemma contains_str_none c0 p a : avoids c0 a = true -> contains_str (String c0 p) a = false.
Proof. intros Ha. unfold contains_str. rewrite (split_str_none c0 p a Ha). reflexivity. Qed.
