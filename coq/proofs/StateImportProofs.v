(* Obligation on the source, regenerated on every run: the import code the model covers holds exactly the state the model
   knows about - no new attribute, class-level table, module-level binding or caching decorator (a memo added to a class
   is the commonest way to make a pure function history-dependent; it changes the inventory and breaks this lemma). *)
From Coq Require Import List String Bool.
From KV Require Import StateGen StateBase.
Lemma state_import_as_modelled : state_import = modelled_state_import.
Proof. reflexivity. Qed.
