(* C17: the token listing visits every node of the tree exactly once, in pre-order (a node, then the sub-trees of its
   children left to right).  For every document whose links form a tree (tree_ok: every imported document). *)
From Coq Require Import List Arith Lia Permutation.
From KV Require Import Strings Token Importer Queries TreeProofs.
Import ListNotations.

(* the pre-order as a structural definition: depth bounded by the fuel *)
Fixpoint pre (fuel : nat) (d : doc) (i : nat) : list nat :=
  match fuel with
  | O => []
  | S f => i :: flat_map (pre f d) (n_children (get_node d i))
  end.

Lemma flat_map_ext_in {A B} (f g : A -> list B) l : (forall x, In x l -> f x = g x) -> flat_map f l = flat_map g l.
Proof. induction l as [|x l IH]; intros H; [reflexivity|]. cbn. rewrite (H x (or_introl eq_refl)), IH; [reflexivity|]. intros y Hy. apply H. now right. Qed.

Section Tree.
  Variable d : doc.
  Hypothesis T : tree_ok d.
  Let n := List.length (d_nodes d).

  Lemma child_gt p c : p < n -> In c (n_children (get_node d p)) -> p < c /\ c < n.
  Proof.
    intros Hp Hin. destruct (t_children d T p c Hp Hin) as [C1 C2]. destruct (t_parent d T c p C1 C2) as [P1 _]. split; assumption.
  Qed.

  (* children have larger ids, so n - i bounds the depth below i: more fuel changes nothing *)
  Lemma pre_fuel : forall f1 f2 i, i < n -> n - i <= f1 -> n - i <= f2 -> pre f1 d i = pre f2 d i.
  Proof.
    induction f1 as [|f1 IH]; intros f2 i Hi H1 H2; [lia|]. destruct f2 as [|f2]; [lia|].
    cbn [pre]. f_equal. apply flat_map_ext_in. intros c Hc. destruct (child_gt i c Hi Hc) as [G1 G2]. apply IH; lia.
  Qed.

  Lemma pre_unfold i : i < n -> pre n d i = i :: flat_map (pre n d) (n_children (get_node d i)).
  Proof.
    intros Hi. destruct n as [|m] eqn:E; [lia|]. cbn [pre]. f_equal. apply flat_map_ext_in. intros c Hc.
    assert (G := child_gt i c). fold n in G. rewrite E in G. destruct (G Hi Hc) as [G1 G2].
    assert (P := pre_fuel m (S m) c). fold n in P. rewrite E in P. apply P; lia.
  Qed.

  Lemma pre_ge : forall f i x, i < n -> In x (pre f d i) -> i <= x /\ x < n.
  Proof.
    induction f as [|f IH]; intros i x Hi Hin; [contradiction|]. cbn [pre] in Hin. destruct Hin as [<-|Hin]; [lia|].
    apply in_flat_map in Hin. destruct Hin as [c [Hc Hx]]. destruct (child_gt i c Hi Hc) as [G1 G2].
    destruct (IH c x G2 Hx). lia.
  Qed.

  (* inside the sub-tree of a, every node but a has its parent inside too *)
  Lemma pre_parent : forall f a c, a < n -> In c (pre f d a) -> c <> a ->
    exists p, n_parent (get_node d c) = Some p /\ In p (pre f d a).
  Proof.
    induction f as [|f IH]; intros a c Ha Hin Hne; [contradiction|]. cbn [pre] in Hin. destruct Hin as [->|Hin]; [contradiction|].
    apply in_flat_map in Hin. destruct Hin as [c' [Hc' Hx]]. destruct (child_gt a c' Ha Hc') as [G1 G2].
    destruct (Nat.eq_dec c c') as [->|Hd].
    - exists a. split; [apply (t_children d T a c' Ha Hc') | now left].
    - destruct (IH c' c G2 Hx Hd) as [p [P1 P2]]. exists p. split; [exact P1|]. cbn [pre]. right. apply in_flat_map. exists c'. split; assumption.
  Qed.

  (* the ancestors of a node form a chain *)
  Lemma pre_chain : forall f2 f1 a b x, a < n -> b < n -> In x (pre f1 d a) -> In x (pre f2 d b) -> a <= b -> In b (pre f1 d a).
  Proof.
    induction f2 as [|f2 IH]; intros f1 a b x Ha Hb H1 H2 Hab; [contradiction|]. cbn [pre] in H2. destruct H2 as [<-|H2]; [exact H1|].
    apply in_flat_map in H2. destruct H2 as [c [Hc Hx]]. destruct (child_gt b c Hb Hc) as [G1 G2].
    assert (Hca : In c (pre f1 d a)) by (apply (IH f1 a c x Ha G2 H1 Hx); lia).
    destruct (pre_parent f1 a c Ha Hca ltac:(lia)) as [p [P1 P2]].
    destruct (t_children d T b c Hb Hc) as [_ C2]. rewrite C2 in P1. injection P1 as <-. exact P2.
  Qed.

  Lemma siblings_disjoint f p c1 c2 x : p < n -> In c1 (n_children (get_node d p)) -> In c2 (n_children (get_node d p)) -> c1 <> c2 ->
    In x (pre f d c1) -> In x (pre f d c2) -> False.
  Proof.
    assert (G : forall c1 c2, In c1 (n_children (get_node d p)) -> In c2 (n_children (get_node d p)) -> c1 < c2 -> p < n ->
                In x (pre f d c1) -> In x (pre f d c2) -> False).
    { intros a b Ha Hb Hlt Hp H1 H2. destruct (child_gt p a Hp Ha) as [A1 A2]. destruct (child_gt p b Hp Hb) as [B1 B2].
      assert (Hin : In b (pre f d a)) by (apply (pre_chain f f a b x A2 B2 H1 H2); lia).
      destruct (pre_parent f a b A2 Hin ltac:(lia)) as [q [Q1 Q2]].
      destruct (t_children d T p b Hp Hb) as [_ C2]. rewrite C2 in Q1. injection Q1 as <-.
      destruct (pre_ge f a p A2 Q2). lia. }
    intros Hp H1 H2 Hne Hx1 Hx2. destruct (Nat.lt_total c1 c2) as [Hlt|[->|Hgt]]; [eapply (G c1 c2); eassumption | contradiction | eapply (G c2 c1); eassumption].
  Qed.

  Lemma NoDup_app_intro {A} (l1 l2 : list A) : NoDup l1 -> NoDup l2 -> (forall x, In x l1 -> In x l2 -> False) -> NoDup (l1 ++ l2).
  Proof.
    induction l1 as [|a l1 IH]; intros H1 H2 Hd; [exact H2|]. inversion H1 as [|? ? Ha Hl]; subst. cbn. constructor.
    - intros Hin. apply in_app_iff in Hin. destruct Hin as [Hin|Hin]; [contradiction|]. apply (Hd a); [now left | exact Hin].
    - apply IH; [exact Hl | exact H2|]. intros x Hx1 Hx2. apply (Hd x); [now right | exact Hx2].
  Qed.

  Lemma NoDup_flat_map {A B} (g : A -> list B) l : NoDup l -> (forall x, In x l -> NoDup (g x)) ->
    (forall x y z, In x l -> In y l -> x <> y -> In z (g x) -> In z (g y) -> False) -> NoDup (flat_map g l).
  Proof.
    induction l as [|a l IH]; intros Hl Hg Hd; [constructor|]. inversion Hl as [|? ? Ha Hl']; subst. cbn. apply NoDup_app_intro.
    - apply Hg. now left.
    - apply IH; [exact Hl' | intros x Hx; apply Hg; now right|]. intros x y z Hx Hy. apply Hd; now right.
    - intros z Hz1 Hz2. apply in_flat_map in Hz2. destruct Hz2 as [y [Hy Hzy]].
      apply (Hd a y z); [now left | now right | intros ->; contradiction | exact Hz1 | exact Hzy].
  Qed.

  Lemma pre_nodup : forall f i, i < n -> NoDup (pre f d i).
  Proof.
    induction f as [|f IH]; intros i Hi; [constructor|]. cbn [pre]. constructor.
    - intros Hin. apply in_flat_map in Hin. destruct Hin as [c [Hc Hx]]. destruct (child_gt i c Hi Hc) as [G1 G2].
      destruct (pre_ge f c i G2 Hx). lia.
    - apply NoDup_flat_map.
      + apply (t_nodup d T i Hi).
      + intros c Hc. apply IH. apply (child_gt i c Hi Hc).
      + intros c1 c2 z H1 H2 Hne Hz1 Hz2. exact (siblings_disjoint f i c1 c2 z Hi H1 H2 Hne Hz1 Hz2).
  Qed.

  (* every node is in the pre-order of the root *)
  Lemma pre_complete : forall j, j < n -> In j (pre n d 0).
  Proof.
    assert (H0 : 0 < n) by apply T.
    induction j as [j IH] using lt_wf_ind. intros Hj. destruct (Nat.eq_dec j 0) as [->|Hne].
    - rewrite pre_unfold by exact H0. now left.
    - destruct (n_parent (get_node d j)) as [p|] eqn:Ep; [|exfalso; apply (t_hasparent d T j); [lia | exact Hj | exact Ep]].
      destruct (t_parent d T j p Hj Ep) as [P1 P2].
      assert (Hp : In p (pre n d 0)) by (apply IH; lia).
      (* membership is closed under children *)
      assert (Closed : forall f a, a < n -> n - a <= f -> In p (pre f d a) -> In j (pre f d a)).
      { induction f as [|f IHf]; intros a Ha Hf Hin; [contradiction|]. cbn [pre] in *. destruct Hin as [->|Hin].
        - right. apply in_flat_map. exists j. split; [exact P2|]. destruct f as [|f']; [lia|]. now left.
        - right. apply in_flat_map in Hin. destruct Hin as [c [Hc Hx]]. destruct (child_gt a c Ha Hc) as [G1 G2].
          apply in_flat_map. exists c. split; [exact Hc|]. apply IHf; [exact G2 | lia | exact Hx]. }
      apply (Closed n 0 H0); [lia | exact Hp].
  Qed.

  Theorem pre_is_permutation : Permutation (pre n d 0) (seq 0 n).
  Proof.
    assert (H0 : 0 < n) by apply T.
    apply NoDup_Permutation; [apply pre_nodup; exact H0 | apply seq_NoDup|].
    intros x. rewrite in_seq. split.
    - intros Hin. destruct (pre_ge n 0 x H0 Hin). lia.
    - intros [_ Hx]. apply pre_complete. exact Hx.
  Qed.

  (* Node.dfs_iterative (explicit stack) computes that pre-order *)
  Lemma dfs_is_pre : forall fuel stack, Forall (fun i => i < n) stack -> List.length (flat_map (pre n d) stack) < fuel ->
    dfs fuel d stack = flat_map (pre n d) stack.
  Proof.
    induction fuel as [|f IH]; intros stack Hs Hf; [lia|]. destruct stack as [|i rest]; [reflexivity|].
    inversion Hs as [|? ? Hi Hrest]; subst. cbn [dfs flat_map]. rewrite (pre_unfold i Hi). cbn [app]. f_equal.
    rewrite IH.
    - now rewrite flat_map_app.
    - apply Forall_app. split; [|exact Hrest]. rewrite Forall_forall. intros c Hc. apply (child_gt i c Hi Hc).
    - cbn [flat_map] in Hf. rewrite (pre_unfold i Hi) in Hf. cbn [app List.length] in Hf. rewrite flat_map_app. lia.
  Qed.

  Theorem dfs_order_is_preorder : dfs_order d = pre n d 0.
  Proof.
    assert (H0 : 0 < n) by apply T. unfold dfs_order. fold n. rewrite dfs_is_pre.
    - cbn [flat_map]. apply app_nil_r.
    - constructor; [exact H0 | constructor].
    - cbn [flat_map]. rewrite app_nil_r. rewrite (Permutation_length pre_is_permutation), seq_length. lia.
  Qed.

  Theorem dfs_visits_each_node_once : Permutation (dfs_order d) (seq 0 n) /\ NoDup (dfs_order d).
  Proof.
    rewrite dfs_order_is_preorder. split; [apply pre_is_permutation | apply pre_nodup, T].
  Qed.
End Tree.

Theorem listing_is_preorder bad text d : loads bad text = IOk d ->
  dfs_order d = pre (List.length (d_nodes d)) d 0 /\
  Permutation (dfs_order d) (seq 0 (List.length (d_nodes d))) /\ NoDup (dfs_order d) /\
  (forall i, i < List.length (d_nodes d) ->
     pre (List.length (d_nodes d)) d i = i :: flat_map (pre (List.length (d_nodes d)) d) (n_children (get_node d i))).
Proof.
  intros H. pose proof (loads_tree_ok bad text d H) as T. split; [apply dfs_order_is_preorder, T|].
  destruct (dfs_visits_each_node_once d T) as [P N]. split; [exact P|]. split; [exact N|]. intros i Hi. apply pre_unfold; assumption.
Qed.
