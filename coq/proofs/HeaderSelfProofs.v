(* C06: all sub-spines of a spine share its header, so spine selection keeps or deletes whole spine paths.
   Invariant: a node whose token is a HeaderToken is its own header; with hdr_ok (TreeProofs) a node and its parent
   have the same header type unless the node is a header itself. *)
From Coq Require Import List String Ascii Bool Arith Lia.
From KV Require Import Strings CatGen Cat Token SpineImpGen SpineImp KernTok Importer Exporter TreeProofs ErrorProofs.
Import ListNotations.
Open Scope list_scope.

Definition tok_not_header (t : token) : bool := match t with THeader _ _ => false | _ => true end.
Definition kres_nh (r : kres) : bool := match r with KTok t => tok_not_header t | KOut => true end.

Lemma scan_barline_nh s : kres_nh (scan_barline s) = true.
Proof. unfold scan_barline. break_all; reflexivity. Qed.
Lemma scan_clef_nh s l : kres_nh (scan_clef s l) = true.
Proof. unfold scan_clef, simple. break_all; reflexivity. Qed.
Lemma scan_interpretation_nh s : kres_nh (scan_interpretation s) = true.
Proof.
  unfold scan_interpretation, simple. cbv zeta.
  repeat match goal with
         | |- kres_nh (scan_clef _ _) = true => apply scan_clef_nh
         | |- kres_nh (if ?b then _ else _) = true => destruct b
         | |- kres_nh (match ?x with _ => _ end) = true => destruct x
         | |- kres_nh (KTok _) = true => reflexivity
         | |- kres_nh KOut = true => reflexivity
         end.
Qed.
Lemma scan_notes_nh s : kres_nh (scan_notes s) = true.
Proof. unfold scan_notes. cbv zeta. destruct (scan_elements _ _ _) as [[els st]|]; [|reflexivity]. destruct els as [|e [|e2 r]]; reflexivity. Qed.
Lemma kern_recognise_nh s : kres_nh (kern_recognise s) = true.
Proof.
  unfold kern_recognise. destruct s as [|c s']; [reflexivity|].
  destruct (String.eqb _ "."); [reflexivity|]. destruct (Ascii.eqb c "*"); [apply scan_interpretation_nh|].
  destruct (Ascii.eqb c "="); [apply scan_barline_nh | apply scan_notes_nh].
Qed.

Lemma import_cell_not_header bad h s t : import_cell bad h s = RTok t -> tok_not_header t = true.
Proof.
  unfold import_cell. destruct (String.eqb s ""); [discriminate|].
  pose proof (kern_recognise_nh s) as K.
  destruct (mem_str s bad).
  - unfold import_token. destruct (import_kind _ _ _ _ _) as [e|[c [t'|]]|txt c] eqn:E; try discriminate.
    + exfalso. unfold import_kind in E. destruct (kind_of_header h); try discriminate; destruct (String.eqb s ""); discriminate.
    + intros H. injection H as <-. reflexivity.
  - destruct (kern_recognise s) as [t0|] eqn:Ek.
    + unfold import_token. destruct (import_kind _ _ _ _ _) as [e|[c [t'|]]|txt c] eqn:E; try discriminate.
      * intros H. injection H as <-. unfold import_kind in E.
        destruct (kind_of_header h); try discriminate; destruct (String.eqb s ""); try discriminate.
        -- injection E as _ <-. exact K.
        -- injection E as _ <-. exact K.
        -- destruct (if negated then _ else _); [discriminate|]. injection E as _ <-. exact K.
      * intros H. injection H as <-. reflexivity.
    + destruct (oracle_cat bad s) as [c0|]; [|discriminate].
      unfold import_token. destruct (import_kind _ _ _ _ _) as [e|[c [t'|]]|txt c] eqn:E; try discriminate.
      * exfalso. unfold import_kind in E. destruct (kind_of_header h); try discriminate; destruct (String.eqb s ""); try discriminate.
        destruct (if negated then _ else _); discriminate.
      * intros H. injection H as <-. reflexivity.
Qed.

(* ---- the invariant: a HeaderToken node is its own header *)
Definition hself (d : doc) : Prop :=
  forall i e sp, i < List.length (d_nodes d) -> n_tok (get_node d i) = Some (THeader e sp) -> n_header (get_node d i) = Some i.

Lemma hself_empty : hself empty_doc.
Proof. intros i e sp Hi H. cbn in Hi. assert (i = 0) by lia. subst. discriminate. Qed.

Lemma hself_same d d' : same_nodes_hdr d d' -> hself d -> hself d'.
Proof.
  intros [L H] Hd i e sp Hi Ht. rewrite L in Hi. destruct (H i) as [C Hh]. unfold core in C. injection C as _ _ Et _ _.
  rewrite Et in Ht. rewrite Hh. exact (Hd i e sp Hi Ht).
Qed.

Lemma hself_add_plain d st p t lo sg h d' id : tree_ok d -> hself d -> p < List.length (d_nodes d) -> tok_not_header t = true ->
  add_node d st p t lo sg h = IOk (d', id) -> hself d'.
Proof.
  intros T Hd Hp Hnh Ha. destruct (add_node_spec _ _ _ _ _ _ _ _ _ T Hp Ha) as [Eid [El [_ [_ [Et [_ [_ [_ Hold]]]]]]]].
  intros i e sp Hi Hti. rewrite El in Hi. destruct (Nat.eq_dec i id) as [->|Hne].
  - rewrite Et in Hti. injection Hti as ->. discriminate.
  - destruct (Hold i ltac:(lia)) as [C Hh]. unfold core in C. injection C as _ _ Et' _ _. rewrite Et' in Hti. rewrite Hh.
    apply (Hd i e sp); [lia | exact Hti].
Qed.

Lemma get_set_header_self d id i : n_header (get_node (set_header_self d id) i) =
  if Nat.eqb i id && Nat.ltb i (List.length (d_nodes d)) then Some id else n_header (get_node d i).
Proof.
  unfold set_header_self, get_node. cbn [set_nodes d_nodes].
  destruct (Nat.eqb i id) eqn:E.
  - apply Nat.eqb_eq in E. subst. destruct (Nat.ltb id (List.length (d_nodes d))) eqn:L; cbn [andb].
    + apply Nat.ltb_lt in L. rewrite nth_update_nth_eq by exact L. reflexivity.
    + apply Nat.ltb_ge in L. rewrite !nth_overflow; [reflexivity | exact L | rewrite update_nth_length; exact L].
  - apply Nat.eqb_neq in E. cbn [andb]. rewrite nth_update_nth_neq by lia. reflexivity.
Qed.

Lemma hself_add_header d st p e sp d' id : tree_ok d -> hself d -> p < List.length (d_nodes d) ->
  add_node d st p (THeader e sp) None [] None = IOk (d', id) -> hself (set_header_self d' id).
Proof.
  intros T Hd Hp Ha. destruct (add_node_spec _ _ _ _ _ _ _ _ _ T Hp Ha) as [Eid [El [_ [_ [Et [_ [_ [_ Hold]]]]]]]].
  assert (S : same_links d' (set_header_self d' id)) by apply links_set_header_self.
  destruct S as [L HS].
  intros i e' sp' Hi Hti. rewrite L, El in Hi. rewrite get_set_header_self.
  destruct (HS i) as [C _]. unfold core in C. injection C as _ _ Etok _ _. rewrite Etok in Hti.
  destruct (Nat.eq_dec i id) as [->|Hne].
  - rewrite Nat.eqb_refl. rewrite El. replace (Nat.ltb id (S id)) with true by (symmetry; apply Nat.ltb_lt; lia). reflexivity.
  - replace (Nat.eqb i id) with false by (symmetry; apply Nat.eqb_neq; exact Hne). cbn [andb].
    destruct (Hold i ltac:(lia)) as [C Hh]. unfold core in C. injection C as _ _ Et' _ _. rewrite Et' in Hti. rewrite Hh.
    apply (Hd i e' sp'); [lia | exact Hti].
Qed.

Ltac hdr_same := first [apply hdr_same_sig | apply hdr_same_cancel | apply hdr_same_error | apply hdr_same_hstage | apply hdr_same_mst | apply hdr_same_refl].

Lemma step_cell_hself bad row s icol col s' b : state_ok s -> hself (i_doc s) -> step_cell bad row s icol col = IOk (s', b) -> hself (i_doc s').
Proof.
  intros [T Hn Hp Hh] Hd. unfold step_cell.
  destruct (startswith "**" col).
  - destruct (add_node _ _ _ _ _ _ _) as [[d1 id]| |] eqn:Ha; try discriminate.
    assert (T0 : tree_ok (set_header_stage (i_doc s) (i_stage s))) by (eapply tree_ok_same_links; [apply links_set_header_stage | exact T]).
    assert (Hd0 : hself (set_header_stage (i_doc s) (i_stage s))) by (eapply hself_same; [hdr_same | exact Hd]).
    intros H. injection H as <- <-. unfold push_next, set_doc. cbn [i_doc].
    exact (hself_add_header _ _ _ _ _ _ _ T0 Hd0 Hh Ha).
  - destruct (mem_str col spine_operations).
    + destruct (i_prev s) as [prev|] eqn:Ep; [|discriminate].
      destruct (Nat.leb _ icol); [discriminate|].
      assert (Hpar : nth icol prev 0 < List.length (d_nodes (i_doc s))) by (apply nth_ids_ok; [assumption | apply T]).
      destruct (add_node _ _ _ _ _ _ _) as [[d1 id]| |] eqn:Ha; try discriminate.
      assert (H1 : hself d1) by (eapply hself_add_plain; [exact T | exact Hd | exact Hpar | | exact Ha]; reflexivity).
      assert (Gen : forall d2, same_nodes_hdr d1 d2 -> hself d2) by (intros d2 S2; eapply hself_same; eassumption).
      destruct (String.eqb col "*-").
      { intros H. injection H as <- <-. unfold set_doc. cbn [i_doc]. apply Gen. destruct (n_lastop _); hdr_same. }
      destruct (String.eqb col "*+" || String.eqb col "*^").
      { intros H. injection H as <- <-. exact H1. }
      destruct (String.eqb col "*v"); [|discriminate].
      intros H. injection H as <- <-.
      destruct (match icol with O => true | S _ => _ end); unfold push_next, set_doc; cbn [i_doc]; apply Gen; destruct (n_lastop _); hdr_same.
    + match goal with |- context [match ?X with IOk _ => _ | IErr _ => _ | IOut => _ end = _] => destruct X as [[tok is_err]| |] eqn:Etok end;
        try discriminate.
      destruct (i_prev s) as [prev|] eqn:Ep; [|discriminate].
      destruct (Nat.leb _ icol) eqn:Eleb; [discriminate|].
      assert (Hpar : nth icol prev 0 < List.length (d_nodes (i_doc s))) by (apply nth_ids_ok; [assumption | apply T]).
      assert (Hnh : tok_not_header tok = true).
      { destruct (startswith "!" col).
        - injection Etok as <- _. reflexivity.
        - destruct (n_header _) as [hid|]; [|discriminate].
          destruct (import_cell bad _ col) as [t| |] eqn:Ei; try discriminate.
          + injection Etok as <- _. exact (import_cell_not_header _ _ _ _ Ei).
          + injection Etok as <- _. reflexivity. }
      destruct (add_node _ _ _ _ _ _ _) as [[d1 id]| |] eqn:Ha; try discriminate.
      pose proof (hself_add_plain _ _ _ _ _ _ _ _ _ T Hd Hpar Hnh Ha) as H1.
      intros H. injection H as <- <-. unfold push_next, set_doc. cbn [i_doc].
      set (d2 := if is_err then add_error d1 id else d1).
      assert (S2 : same_nodes_hdr d1 d2) by (unfold d2; destruct is_err; hdr_same).
      eapply hself_same; [|exact H1].
      destruct (cat_beq _ BARLINES || _); [exact S2|]. destruct (String.eqb _ "BoundingBoxToken"); [exact S2|].
      destruct (is_signature_token tok); [eapply hdr_same_trans; [exact S2 | hdr_same] | exact S2].
Qed.

Lemma step_cells_hself bad row : forall cols s icol bar s' b, state_ok s -> hself (i_doc s) ->
  step_cells bad row s icol cols bar = IOk (s', b) -> hself (i_doc s').
Proof.
  induction cols as [|c cols IH]; intros s icol bar s' b Hs Hd; simpl.
  - intros H. injection H as <- <-. exact Hd.
  - destruct (step_cell bad row s icol c) as [[s1 b1]| |] eqn:Hc; try discriminate.
    intros H. eapply IH; [eapply step_cell_ok; eassumption | eapply step_cell_hself; eassumption | exact H].
Qed.

Lemma step_row_hself bad s row s' : state_ok s -> hself (i_doc s) -> step_row bad s row = IOk s' -> hself (i_doc s').
Proof.
  intros Hs Hd. pose proof Hs as [T Hn Hp Hh]. unfold step_row. destruct row as [|first rest].
  - intros H. injection H as <-. exact Hd.
  - set (prev := match i_next s with [] => i_prev s | n :: l0 => Some (n :: l0) end).
    assert (Hprev : match prev with Some l => ids_ok (i_doc s) l | None => True end).
    { unfold prev. destruct (i_next s) eqn:E; [exact Hp | exact Hn]. }
    clearbody prev.
    destruct (startswith "!!" first).
    + destruct (add_node _ _ _ _ _ _ _) as [[d1 id]| |] eqn:Ha; try discriminate. cbn [i_doc i_prehdr] in Ha.
      intros H. injection H as <-. cbn [i_doc]. eapply hself_add_plain; [exact T | exact Hd | exact Hh | | exact Ha]; reflexivity.
    + match goal with |- context [step_cells bad ?r ?s0 0 ?r false] =>
        assert (Hs0 : state_ok s0) by (apply state_ok_intro; [exact T | apply ids_ok_nil | exact Hprev | exact Hh]);
        assert (Hd0 : hself (i_doc s0)) by exact Hd;
        destruct (step_cells bad r s0 0 r false) as [[s1 bar]| |] eqn:Hc end; try discriminate.
      pose proof (step_cells_hself _ _ _ _ _ _ _ _ Hs0 Hd0 Hc) as H1.
      intros H. injection H as <-. cbn [i_doc]. destruct bar; [eapply hself_same; [hdr_same | exact H1] | exact H1].
Qed.

Theorem run_rows_hself bad : forall rows s s', state_ok s -> hself (i_doc s) -> run_rows bad s rows = IOk s' -> hself (i_doc s').
Proof.
  induction rows as [|r rows IH]; intros s s' Hs Hd; simpl; [intros H; injection H as <-; exact Hd|].
  destruct (step_row bad s r) as [s1| |] eqn:Hr; try discriminate.
  intros H. eapply IH; [eapply step_row_ok; eassumption | eapply step_row_hself; eassumption | exact H].
Qed.

Theorem loads_hself bad text d : loads bad text = IOk d -> hself d.
Proof.
  unfold loads. destruct (run_rows bad init_state (rows_of_text text)) as [s| |] eqn:H; try discriminate.
  intros E. injection E as <-. exact (run_rows_hself _ _ _ _ init_state_ok hself_empty H).
Qed.

(* ---- the header type (text, spine id) of a node is that of its header node; a node and its parent agree *)
Lemma header_type_of d i h : hdr_ok d -> hself d -> i < List.length (d_nodes d) -> n_header (get_node d i) = Some h ->
  header_type d i = header_type d h /\ exists e sp, header_type d h = Some (e, sp).
Proof.
  intros Hd Hs Hi Hh. destruct (Hd i h Hi Hh) as [Hle [[e [sp [Ht Hhh]]] _]].
  assert (Hth : header_type d h = Some (e, sp)) by (unfold header_type, node_tok; rewrite Ht; reflexivity).
  split; [|eauto]. rewrite Hth. unfold header_type, node_tok.
  destruct (n_tok (get_node d i)) as [t|] eqn:Eti.
  - destruct t; try (rewrite Hh; unfold node_tok; rewrite Ht; reflexivity).
    (* the node is a header itself: then it is its own header, i = h *)
    pose proof (Hs i _ _ Hi Eti) as Hself. rewrite Hh in Hself. injection Hself as ->. rewrite Eti in Ht. injection Ht as -> ->. reflexivity.
  - rewrite Hh. unfold node_tok. rewrite Ht. reflexivity.
Qed.

Theorem spine_path_shares_header bad text d : loads bad text = IOk d ->
  forall i h, i < List.length (d_nodes d) -> n_header (get_node d i) = Some h -> h <> i ->
  exists p, n_parent (get_node d i) = Some p /\ header_type d i = header_type d p /\
            (forall o, spine_selected o (header_type d i) = spine_selected o (header_type d p)).
Proof.
  intros HL i h Hi Hh Hne.
  pose proof (loads_headers bad text d HL) as Hd. pose proof (loads_hself bad text d HL) as Hs. pose proof (loads_tree_ok bad text d HL) as T.
  destruct (Hd i h Hi Hh) as [_ [_ [C|[p [P1 P2]]]]]; [contradiction|].
  exists p. split; [exact P1|].
  destruct (t_parent d T i p Hi P1) as [Hlt _].
  destruct (header_type_of d i h Hd Hs Hi Hh) as [E1 _].
  destruct (header_type_of d p h Hd Hs ltac:(lia) P2) as [E2 _].
  assert (E : header_type d i = header_type d p) by congruence.
  split; [exact E|]. intros o. now rewrite E.
Qed.
