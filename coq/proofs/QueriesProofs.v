(* Proofs for C17 over the model of the document queries (any document, any number of nodes). *)
From Coq Require Import List String Ascii Bool ZArith Lia.
From KV Require Import Strings CatGen Cat CatProofs Token Importer Exporter Queries.
Import ListNotations.
Open Scope list_scope.

Definition full_listing (d : doc) : list token := node_tokens d (dfs_order d).

(* the unfiltered query lists every token of the traversal *)
Lemma all_tokens_unfiltered d : get_all_tokens d None = full_listing d.
Proof.
  unfold get_all_tokens, full_listing. induction (node_tokens d (dfs_order d)) as [|t l IH]; cbn [filter]; [reflexivity|].
  assert (H : mem (tok_cat t) (valid None None) = true) by (apply mem_In, valid_none_none).
  rewrite H, IH. reflexivity.
Qed.

(* a category-filtered listing is exactly the sub-sequence whose category lies in the closure of the filter *)
Theorem filtered_is_subsequence d f :
  get_all_tokens d (Some f) = filter (fun t => mem (tok_cat t) (valid (Some f) None)) (get_all_tokens d None).
Proof. rewrite all_tokens_unfiltered. reflexivity. Qed.

Theorem filtered_membership d f t :
  In t (get_all_tokens d (Some f)) <-> In t (full_listing d) /\ exists a, In a f /\ desc a (tok_cat t).
Proof.
  rewrite filtered_is_subsequence, all_tokens_unfiltered, filter_In, mem_In, valid_none_exclude. tauto.
Qed.

(* ---- unique listing = first occurrences *)
Lemma mem_str_In k l : mem_str k l = true <-> In k l.
Proof.
  induction l as [|x l IH]; simpl; [split; [discriminate | tauto]|].
  rewrite orb_true_iff, IH, String.eqb_eq. split; intros [H|H]; auto.
Qed.

Lemma mem_str_false k l : mem_str k l = false <-> ~ In k l.
Proof.
  rewrite <- mem_str_In. destruct (mem_str k l); split; intros H; try discriminate; try reflexivity.
  exfalso. apply H. reflexivity.
Qed.

Lemma first_occ_spec : forall l seen e,
  In e (map tok_enc (first_occurrences seen l)) <-> In e (map tok_enc l) /\ ~ In e seen.
Proof.
  induction l as [|t l IH]; intros seen e; simpl; [tauto|].
  destruct (mem_str (tok_enc t) seen) eqn:E.
  - apply mem_str_In in E. rewrite IH. split; [tauto|].
    intros [[H|H] Hn]; [subst; contradiction | tauto].
  - apply mem_str_false in E. simpl. rewrite IH. simpl. split.
    + intros [H|[H1 H2]].
      * subst. split; [now left | exact E].
      * split; [now right|]. intros H3. apply H2. now right.
    + intros [[H|H] Hn]; [now left|].
      destruct (string_dec (tok_enc t) e) as [Heq|Hne]; [now left|].
      right. split; [exact H|]. intros [H3|H3]; contradiction.
Qed.

Lemma first_occ_nodup : forall l seen, NoDup (map tok_enc (first_occurrences seen l)).
Proof.
  induction l as [|t l IH]; intros seen; simpl; [constructor|].
  destruct (mem_str (tok_enc t) seen); [apply IH|]. simpl. constructor; [|apply IH].
  rewrite first_occ_spec. simpl. tauto.
Qed.

Theorem unique_no_repeats d f : NoDup (map tok_enc (get_unique_tokens d f)).
Proof. apply first_occ_nodup. Qed.

Theorem unique_same_encodings d f e :
  In e (map tok_enc (get_unique_tokens d f)) <-> In e (map tok_enc (get_all_tokens d f)).
Proof. unfold get_unique_tokens. rewrite first_occ_spec. simpl. tauto. Qed.

(* the unique listing keeps FIRST occurrences: it is the listing with later repeats removed, order kept *)
Lemma first_occ_head t l : first_occurrences [] (t :: l) = t :: first_occurrences [tok_enc t] l.
Proof. reflexivity. Qed.

(* ---- frequencies sum to the listing *)
Definition total (fr : list (string * (nat * cat))) : nat := fold_right (fun e acc => fst (snd e) + acc) 0 fr.

Lemma total_freq_add e c fr : total (freq_add e c fr) = S (total fr).
Proof.
  induction fr as [|[e' [n c']] fr IH]; simpl; [reflexivity|].
  destruct (String.eqb e e'); simpl; [lia | rewrite IH; lia].
Qed.

Lemma total_fold l : forall fr, total (fold_left (fun acc t => freq_add (tok_enc t) (tok_cat t) acc) l fr) = List.length l + total fr.
Proof.
  induction l as [|t l IH]; intros fr; simpl; [reflexivity|]. rewrite IH, total_freq_add. lia.
Qed.

Theorem frequencies_sum d f : total (frequencies d f) = List.length (get_all_tokens d f).
Proof. unfold frequencies. rewrite total_fold. simpl. lia. Qed.

Lemma freq_add_keys e c fr k : In k (map fst (freq_add e c fr)) <-> k = e \/ In k (map fst fr).
Proof.
  induction fr as [|[e' [n c']] fr IH]; simpl; [intuition|].
  destruct (String.eqb e e') eqn:E; simpl.
  - apply String.eqb_eq in E. subst. intuition.
  - rewrite IH. intuition.
Qed.

Theorem frequencies_keys d f k : In k (map fst (frequencies d f)) <-> In k (map tok_enc (get_all_tokens d f)).
Proof.
  unfold frequencies. generalize (get_all_tokens d f) as l. intros l.
  assert (G : forall fr, In k (map fst (fold_left (fun acc t => freq_add (tok_enc t) (tok_cat t) acc) l fr))
                        <-> In k (map tok_enc l) \/ In k (map fst fr)).
  { induction l as [|t l IH]; intros fr; simpl; [tauto|]. rewrite IH, freq_add_keys. intuition. }
  rewrite G. simpl. tauto.
Qed.

(* the comment query returns only comment tokens, restricted by the key prefix when one is given *)
Theorem metacomments_key d k c : In c (get_metacomments d (Some k) false) -> startswith ("!!!" ++ k) c = true.
Proof.
  unfold get_metacomments. rewrite in_flat_map. intros [t [_ H]].
  destruct (startswith ("!!!" ++ k) (tok_enc t)) eqn:E; simpl in H; [destruct H as [<-|[]]; exact E | contradiction].
Qed.
