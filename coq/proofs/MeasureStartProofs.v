(* C07 / C18 / C19: WHICH lines open a measure.  For every text that imports: a (non-comment) line appends its stage to
   the measure index exactly when one of its ordinary cells - no header, no spine operator - holds a token of category
   BARLINES (whatever the type of its spine), or a token under CORE while no measure is open yet; nothing else ever
   changes the measure index. *)
From Coq Require Import List String Ascii Bool Arith Lia.
From KV Require Import Strings CatGen Cat Token SpineImpGen SpineImp KernTok Importer TreeProofs ImporterProofs ErrorProofs HeaderSelfProofs GridTokensProofs.
Import ListNotations.
Open Scope list_scope.

Definition opens_tok (none_yet : bool) (t : token) : bool :=
  cat_beq (tok_cat t) BARLINES || (is_child CORE (tok_cat t) && none_yet).

Definition cell_flag (none_yet : bool) (d : doc) (id : nat) (c : string) : bool :=
  if startswith "**" c then false else if mem_str c spine_operations then false
  else match n_tok (get_node d id) with Some t => opens_tok none_yet t | None => false end.

Fixpoint row_flag (none_yet : bool) (d : doc) (ids : list nat) (cols : list string) : bool :=
  match ids, cols with
  | id :: ids', c :: cols' => cell_flag none_yet d id c || row_flag none_yet d ids' cols'
  | _, _ => false
  end.

Lemma step_cell_flag bad row s icol col s' b : state_ok s -> step_cell bad row s icol col = IOk (s', b) ->
  b = cell_flag (Nat.eqb (List.length (d_mst (i_doc s))) 0) (i_doc s') (List.length (d_nodes (i_doc s))) col.
Proof.
  intros [T Hn Hp Hh]. unfold step_cell, cell_flag.
  destruct (startswith "**" col).
  - destruct (add_node _ _ _ _ _ _ _) as [[d1 id]| |]; try discriminate. intros H. injection H as _ <-. reflexivity.
  - destruct (mem_str col spine_operations).
    + destruct (i_prev s) as [prev|]; [|discriminate]. destruct (Nat.leb _ icol); [discriminate|].
      destruct (add_node _ _ _ _ _ _ _) as [[d1 id]| |]; try discriminate.
      destruct (String.eqb col "*-"); [intros H; injection H as _ <-; reflexivity|].
      destruct (String.eqb col "*+" || String.eqb col "*^"); [intros H; injection H as _ <-; reflexivity|].
      destruct (String.eqb col "*v"); [|discriminate]. intros H. injection H as _ <-. reflexivity.
    + match goal with |- context [match ?X with IOk _ => _ | IErr _ => _ | IOut => _ end = _] => destruct X as [[tok is_err]| |] eqn:Etok end;
        try discriminate.
      destruct (i_prev s) as [prev|] eqn:Ep; [|discriminate].
      destruct (Nat.leb _ icol) eqn:Eleb; [discriminate|].
      assert (Hpar : nth icol prev 0 < List.length (d_nodes (i_doc s))) by (apply nth_ids_ok; [assumption | apply T]).
      destruct (add_node _ _ _ _ _ _ _) as [[d1 id]| |] eqn:Ha; try discriminate.
      destruct (add_node_spec _ _ _ _ _ _ _ _ _ T Hpar Ha) as [Eid [El [_ [_ [Et [_ [_ [_ Hold]]]]]]]].
      pose proof (add_node_mst _ _ _ _ _ _ _ _ _ Ha) as Em.
      intros H. injection H as <- <-. unfold push_next, set_doc. cbn [i_doc].
      set (d2 := if is_err then add_error d1 id else d1).
      assert (S2 : same_nodes_hdr d1 d2) by (unfold d2; destruct is_err; hdr_same).
      assert (Em2 : d_mst d2 = d_mst (i_doc s)) by (unfold d2; destruct is_err; exact Em).
      match goal with |- _ = match n_tok (get_node ?D _) with _ => _ end => set (d3 := D) end.
      assert (S3 : same_nodes_hdr d1 d3).
      { unfold d3. destruct (cat_beq _ BARLINES || _); [exact S2|]. destruct (String.eqb _ "BoundingBoxToken"); [exact S2|].
        destruct (is_signature_token tok); [eapply hdr_same_trans; [exact S2 | hdr_same] | exact S2]. }
      destruct S3 as [_ H3]. rewrite <- Eid. destruct (H3 id) as [C _]. unfold core in C. injection C as _ _ Et3 _ _.
      rewrite Et3, Et. unfold opens_tok. rewrite Em2. reflexivity.
Qed.

Lemma row_flag_grows z d d' : grows d d' -> forall ids cols, Forall (fun id => id < List.length (d_nodes d)) ids ->
  row_flag z d' ids cols = row_flag z d ids cols.
Proof.
  intros [_ G]. induction ids as [|id ids IH]; intros cols Hb; [reflexivity|]. destruct cols as [|c cols]; [reflexivity|].
  inversion Hb; subst. cbn [row_flag]. rewrite IH by assumption. unfold cell_flag. destruct (G id ltac:(assumption)) as [-> _]. reflexivity.
Qed.

Lemma step_cells_size bad row : forall cols s icol bar s' b, state_ok s -> hdr_ok (i_doc s) ->
  step_cells bad row s icol cols bar = IOk (s', b) ->
  List.length (d_nodes (i_doc s')) = List.length (d_nodes (i_doc s)) + List.length cols /\ grows (i_doc s) (i_doc s').
Proof.
  induction cols as [|c cols IH]; intros s icol bar s' b Hs Hd; cbn [step_cells List.length].
  - intros H. injection H as <- _. split; [lia | apply grows_refl].
  - destruct (step_cell bad row s icol c) as [[s1 b1]| |] eqn:Hc; try discriminate.
    destruct (step_cell_grid _ _ _ _ _ _ _ Hs Hd Hc) as [G [L _]]. intros H.
    destruct (IH s1 _ _ _ _ (step_cell_ok _ _ _ _ _ _ _ Hs Hc) (step_cell_hdr _ _ _ _ _ _ _ Hs Hd Hc) H) as [L2 G2].
    split; [lia | eapply grows_trans; eassumption].
Qed.

Lemma cells_flag bad row : forall cols s icol bar s' b, state_ok s -> hdr_ok (i_doc s) ->
  step_cells bad row s icol cols bar = IOk (s', b) ->
  b = bar || row_flag (Nat.eqb (List.length (d_mst (i_doc s))) 0) (i_doc s') (seq (List.length (d_nodes (i_doc s))) (List.length cols)) cols.
Proof.
  induction cols as [|c cols IH]; intros s icol bar s' b Hs Hd; cbn [step_cells List.length seq row_flag].
  - intros H. injection H as _ <-. now rewrite orb_false_r.
  - destruct (step_cell bad row s icol c) as [[s1 b1]| |] eqn:Hc; try discriminate.
    pose proof (step_cell_flag _ _ _ _ _ _ _ Hs Hc) as F1.
    destruct (step_cell_grid _ _ _ _ _ _ _ Hs Hd Hc) as [G1 [L1 _]].
    pose proof (step_cell_ok _ _ _ _ _ _ _ Hs Hc) as Hs1. pose proof (step_cell_hdr _ _ _ _ _ _ _ Hs Hd Hc) as Hd1.
    pose proof (step_cell_mst _ _ _ _ _ _ _ Hc) as M1.
    intros H. pose proof (IH s1 (S icol) (bar || b1) s' b Hs1 Hd1 H) as F2. rewrite M1, L1 in F2.
    rewrite F2, F1. rewrite <- orb_assoc. f_equal. f_equal.
    (* the token of the node just made is still there at the end of the line *)
    destruct (step_cells_size bad row _ _ _ _ _ _ Hs1 Hd1 H) as [_ G2].
    unfold cell_flag. destruct G2 as [_ G2]. destruct (G2 (List.length (d_nodes (i_doc s))) ltac:(lia)) as [-> _]. reflexivity.
Qed.

(* one line: the measure index grows by this stage exactly when the line's flag is set *)
Theorem step_row_measure bad s row s' : state_ok s -> hdr_ok (i_doc s) -> step_row bad s row = IOk s' ->
  d_mst (i_doc s') = d_mst (i_doc s) ++
    (match row with
     | [] => []
     | first :: _ =>
       if startswith "!!" first then []
       else if row_flag (Nat.eqb (List.length (d_mst (i_doc s))) 0) (i_doc s') (seq (List.length (d_nodes (i_doc s))) (List.length row)) row
            then [S (i_stage s)] else []
     end).
Proof.
  intros Hs Hd. pose proof Hs as [T Hn Hp Hh]. unfold step_row. destruct row as [|first rest].
  - intros H. injection H as <-. now rewrite app_nil_r.
  - set (prev := match i_next s with [] => i_prev s | n :: l0 => Some (n :: l0) end).
    assert (Hprev : match prev with Some l => ids_ok (i_doc s) l | None => True end).
    { unfold prev. destruct (i_next s) eqn:E; [exact Hp | exact Hn]. }
    clearbody prev.
    destruct (startswith "!!" first).
    + destruct (add_node _ _ _ _ _ _ _) as [[d1 id]| |] eqn:Ha; try discriminate.
      intros H. injection H as <-. cbn [i_doc]. rewrite app_nil_r. exact (add_node_mst _ _ _ _ _ _ _ _ _ Ha).
    + set (s0 := {| i_doc := i_doc s; i_row := i_row s; i_stage := S (i_stage s); i_next := []; i_prev := prev; i_prehdr := i_prehdr s |}).
      assert (Hs0 : state_ok s0) by (apply state_ok_intro; [exact T | apply ids_ok_nil | exact Hprev | exact Hh]).
      destruct (step_cells bad (first :: rest) s0 0 (first :: rest) false) as [[s1 bar]| |] eqn:Hc; try discriminate.
      pose proof (cells_flag bad _ _ _ _ _ _ _ Hs0 Hd Hc) as F. cbn [s0 i_doc orb] in F.
      pose proof (step_cells_mst _ _ _ _ _ _ _ _ Hc) as M. cbn [s0 i_doc] in M.
      intros H. injection H as <-. cbn [i_doc].
      assert (Bnd : Forall (fun id => id < List.length (d_nodes (i_doc s1))) (seq (List.length (d_nodes (i_doc s))) (List.length (first :: rest)))).
      { destruct (step_cells_size bad _ _ _ _ _ _ _ Hs0 Hd Hc) as [L _]. cbn [s0 i_doc] in L.
        rewrite Forall_forall. intros x Hx. apply in_seq in Hx. lia. }
      destruct bar.
      * cbn [push_mst d_mst]. rewrite (row_flag_grows _ (i_doc s1) (push_mst (i_doc s1) (S (i_stage s))) (grows_same _ _ (hdr_same_mst _ _)) _ _ Bnd).
        rewrite <- F. now rewrite M.
      * rewrite <- F. now rewrite M, app_nil_r.
Qed.

Definition measure_step_spec (s : istate) (row : list string) (s' : istate) : Prop :=
  d_mst (i_doc s') = d_mst (i_doc s) ++
    (match row with
     | [] => []
     | first :: _ =>
       if startswith "!!" first then []
       else if row_flag (Nat.eqb (List.length (d_mst (i_doc s))) 0) (i_doc s') (seq (List.length (d_nodes (i_doc s))) (List.length row)) row
            then [S (i_stage s)] else []
     end).

Theorem step_row_measure_spec bad s row s' : state_ok s -> hdr_ok (i_doc s) -> step_row bad s row = IOk s' -> measure_step_spec s row s'.
Proof. exact (step_row_measure bad s row s'). Qed.
