(* C01 / C03 at DOCUMENT level, for single-spine **kern documents: importing a header line, any number of cells and the
   terminator builds one stage per line with one node per cell holding the token of that cell; the default export of
   that document is the list of the tokens' exports.  Hence for a document whose cells are in normal form (each cell is
   the export of its own token - canonical notes, rests, chords, barlines, interpretations ...) export o import is the
   identity on the text, and export o import o export o import = export o import. *)
From Coq Require Import List String Ascii Bool Arith Lia.
From KV Require Import Strings CatGen Cat EncGen OptGen Token Tokenizers SpineImpGen SpineImp KernTok Importer Exporter
  StringProofs CatProofs TreeProofs ImporterProofs LineReaderProofs ReadBackProofs.
Import ListNotations.
Open Scope list_scope.

Definition hdr_tok : token := THeader "**kern" 0.
Definition term_tok : token := TSimple "*-" SPINE_OPERATION "SpineOperationToken".

Record sp1 (toks : list token) (d : doc) : Prop := {
  p_len : List.length (d_nodes d) = List.length toks + 2;
  p_stages : d_stages d = map (fun j => [j]) (seq 0 (List.length toks + 2));
  p_hdr : n_tok (get_node d 1) = Some hdr_tok /\ n_header (get_node d 1) = Some 1;
  p_root : n_tok (get_node d 0) = None /\ n_header (get_node d 0) = None;
  p_toks : forall j, j < List.length toks ->
           n_tok (get_node d (j + 2)) = nth_error toks j /\ n_header (get_node d (j + 2)) = Some 1 }.

Record sp1s (toks : list token) (s : istate) : Prop := {
  q_doc : sp1 toks (i_doc s);
  q_stage : i_stage s = List.length toks + 1;
  q_next : i_next s = [List.length toks + 1];
  q_prehdr : i_prehdr s = 0 }.

(* a plain cell: no header, no spine operator, no comment *)
Definition plain_cell (c : string) : Prop :=
  startswith "!!" c = false /\ startswith "**" c = false /\ mem_str c spine_operations = false /\ startswith "!" c = false.

Lemma add_node_succeeds d st p t lo sg h : st <= List.length (d_stages d) ->
  exists d', add_node d st p t lo sg h = IOk (d', List.length (d_nodes d)).
Proof.
  intros H. unfold add_node. replace (Nat.ltb (List.length (d_stages d)) st) with false by (symmetry; apply Nat.ltb_ge; exact H).
  eexists. reflexivity.
Qed.

(* what matters of a document here: its nodes' tokens / headers (same_nodes_hdr) and its stages *)
Definition same_view (d d' : doc) : Prop := same_nodes_hdr d d' /\ d_stages d' = d_stages d.

Lemma sp1_view toks d d' : same_view d d' -> sp1 toks d -> sp1 toks d'.
Proof.
  intros [[L H] St] [A B [C1 C2] [R1 R2] D]. constructor.
  - now rewrite L.
  - now rewrite St.
  - destruct (H 1) as [Cc Hh]. unfold core in Cc. injection Cc as _ _ Et _ _. rewrite Et, Hh. split; assumption.
  - destruct (H 0) as [Cc Hh]. unfold core in Cc. injection Cc as _ _ Et _ _. rewrite Et, Hh. split; assumption.
  - intros j Hj. destruct (H (j + 2)) as [Cc Hh]. unfold core in Cc. injection Cc as _ _ Et _ _. rewrite Et, Hh. exact (D j Hj).
Qed.

Lemma view_refl d : same_view d d. Proof. split; [apply hdr_same_refl | reflexivity]. Qed.
Lemma view_sig d id c : same_view d (sig_update d id c). Proof. split; [apply hdr_same_sig | reflexivity]. Qed.
Lemma view_mst d st : same_view d (push_mst d st). Proof. split; [apply hdr_same_mst | reflexivity]. Qed.
Lemma view_cancel d a b : same_view d (set_cancelled d a b). Proof. split; [apply hdr_same_cancel | reflexivity]. Qed.
Lemma view_trans a b c : same_view a b -> same_view b c -> same_view a c.
Proof. intros [H1 S1] [H2 S2]. split; [eapply hdr_same_trans; eassumption | congruence]. Qed.

Lemma seq_snoc n : seq 0 (S n) = seq 0 n ++ [n].
Proof. rewrite seq_S. reflexivity. Qed.

(* one more node on the single spine *)
Lemma sp1_extend toks d t lo sg d1 : tree_ok d -> sp1 toks d ->
  add_node d (List.length toks + 2) (List.length toks + 1) t lo sg (Some 1) = IOk (d1, List.length toks + 2) ->
  sp1 (toks ++ [t]) d1.
Proof.
  intros T [A B [C1 C2] [R1 R2] D] Ha.
  assert (Hp : List.length toks + 1 < List.length (d_nodes d)) by lia.
  destruct (add_node_spec _ _ _ _ _ _ _ _ _ T Hp Ha) as [Eid [El [_ [_ [Et [Eh [_ [_ Hold]]]]]]]].
  pose proof (add_node_stages _ _ _ _ _ _ _ _ _ Ha) as Es.
  rewrite B in Es. rewrite map_length, seq_length in Es. rewrite Nat.eqb_refl in Es.
  constructor.
  - rewrite El, app_length. simpl. lia.
  - rewrite Es, app_length. cbn [List.length]. replace (List.length toks + 1 + 2) with (S (List.length toks + 2)) by lia.
    rewrite seq_snoc, map_app. reflexivity.
  - destruct (Hold 1 ltac:(lia)) as [Cc Hh]. unfold core in Cc. injection Cc as _ _ Et1 _ _. rewrite Et1, Hh. split; assumption.
  - destruct (Hold 0 ltac:(lia)) as [Cc Hh]. unfold core in Cc. injection Cc as _ _ Et0 _ _. rewrite Et0, Hh. split; assumption.
  - intros j Hj. rewrite app_length in Hj. cbn [List.length] in Hj.
    destruct (Nat.eq_dec j (List.length toks)) as [->|Hne].
    + rewrite Et, Eh. rewrite nth_error_app2 by lia. rewrite Nat.sub_diag. split; reflexivity.
    + destruct (Hold (j + 2) ltac:(lia)) as [Cc Hh]. unfold core in Cc. injection Cc as _ _ Etj _ _. rewrite Etj, Hh.
      rewrite nth_error_app1 by lia. apply D. lia.
Qed.

Lemma last_header toks d : sp1 toks d -> n_header (get_node d (List.length toks + 1)) = Some 1.
Proof.
  intros [A B [C1 C2] _ D]. destruct toks as [|t toks] using rev_ind; [exact C2|].
  rewrite app_length. cbn [List.length]. replace (List.length toks + 1 + 1) with (List.length toks + 2) by lia.
  apply D. rewrite app_length. cbn [List.length]. lia.
Qed.

(* ---- the header line *)
Lemma header_row bad : exists s, step_row bad init_state ["**kern"%string] = IOk s /\ sp1s [] s /\ state_ok s.
Proof.
  destruct (step_row bad init_state ["**kern"%string]) as [s| |] eqn:E; [|cbv in E; discriminate|cbv in E; discriminate].
  exists s. split; [reflexivity|]. split; [|eapply step_row_ok; [apply init_state_ok | exact E]].
  cbv in E. injection E as <-.
  constructor; try reflexivity. constructor; try reflexivity; [split; reflexivity | split; reflexivity | intros j Hj; simpl in Hj; lia].
Qed.

(* ---- a data line *)
Lemma data_row bad toks s c t : state_ok s -> sp1s toks s -> plain_cell c -> import_cell bad "**kern" c = RTok t ->
  exists s', step_row bad s [c] = IOk s' /\ sp1s (toks ++ [t]) s' /\ state_ok s'.
Proof.
  intros Hs [Q Est En Eph] [P1 [P2 [P3 P4]]] Hi.
  assert (Hok : forall s', step_row bad s [c] = IOk s' -> state_ok s') by (intros s' H; eapply step_row_ok; eassumption).
  pose proof Hs as [T _ _ _].
  pose proof Q as [A B [C1 C2] _ D].
  unfold step_row in *. rewrite P1 in *. rewrite En in *. cbn [step_cells] in *.
  unfold step_cell in *. cbn [i_doc i_stage i_prev i_row i_next i_prehdr] in *. rewrite P2, P3, P4 in *.
  cbn [List.length Nat.leb nth] in *.
  rewrite (last_header toks _ Q) in *.
  unfold header_text in *. rewrite C1 in *. cbn [tok_enc hdr_tok] in *. rewrite Hi in *.
  rewrite Est in *.
  destruct (add_node_succeeds (i_doc s) (S (List.length toks + 1)) (List.length toks + 1) t
              (get_last_spine_operator (i_doc s) (List.length toks + 1)) (n_sigs (get_node (i_doc s) (List.length toks + 1))) (Some 1))
    as [d1 Ha]; [rewrite B, map_length, seq_length; lia|].
  rewrite A in Ha. rewrite Ha in *.
  assert (Ha' : add_node (i_doc s) (List.length toks + 2) (List.length toks + 1) t
                  (get_last_spine_operator (i_doc s) (List.length toks + 1)) (n_sigs (get_node (i_doc s) (List.length toks + 1))) (Some 1)
                = IOk (d1, List.length toks + 2)).
  { replace (List.length toks + 2) with (S (List.length toks + 1)) at 1 by lia. exact Ha. }
  pose proof (sp1_extend toks (i_doc s) t _ _ d1 T Q Ha') as Q1.
  set (opens := cat_beq (tok_cat t) BARLINES || is_child CORE (tok_cat t) && Nat.eqb (List.length (d_mst d1)) 0) in *.
  set (d3 := if opens then d1 else if String.eqb (tok_class t) "BoundingBoxToken" then d1
             else if is_signature_token t then sig_update d1 (List.length toks + 2) (tok_class t) else d1) in *.
  assert (V3 : same_view d1 d3).
  { unfold d3. destruct opens; [apply view_refl|]. destruct (String.eqb _ _); [apply view_refl|]. destruct (is_signature_token t); [apply view_sig | apply view_refl]. }
  cbn [push_next set_doc i_doc i_row i_stage i_next i_prev i_prehdr app orb] in *.
  eexists. split; [reflexivity|]. split; [|apply Hok; reflexivity].
  constructor; cbn [i_doc i_stage i_next i_prehdr].
  - apply (sp1_view _ d3); [destruct opens; [apply view_mst | apply view_refl] | apply (sp1_view _ d1 d3 V3 Q1)].
  - rewrite app_length. cbn [List.length]. lia.
  - rewrite app_length. cbn [List.length]. f_equal. lia.
  - exact Eph.
Qed.

(* ---- the terminator line *)
Lemma term_row bad toks s : state_ok s -> sp1s toks s ->
  exists s', step_row bad s ["*-"%string] = IOk s' /\ sp1 (toks ++ [term_tok]) (i_doc s').
Proof.
  intros Hs [Q Est En Eph].
  pose proof Hs as [T _ _ _].
  pose proof Q as [A B [C1 C2] _ D].
  unfold step_row. change (startswith "!!" "*-") with false. cbv iota. rewrite En. cbn [step_cells].
  unfold step_cell. cbn [i_doc i_stage i_prev i_row i_next i_prehdr].
  change (startswith "**" "*-") with false. change (mem_str "*-" spine_operations) with true. cbv iota.
  cbn [List.length Nat.leb nth].
  rewrite (last_header toks _ Q). rewrite Est.
  destruct (add_node_succeeds (i_doc s) (S (List.length toks + 1)) (List.length toks + 1) term_tok
              (get_last_spine_operator (i_doc s) (List.length toks + 1)) (n_sigs (get_node (i_doc s) (List.length toks + 1))) (Some 1))
    as [d1 Ha]; [rewrite B, map_length, seq_length; lia|].
  rewrite A in Ha. unfold term_tok in Ha. rewrite Ha.
  assert (Ha' : add_node (i_doc s) (List.length toks + 2) (List.length toks + 1) term_tok
                  (get_last_spine_operator (i_doc s) (List.length toks + 1)) (n_sigs (get_node (i_doc s) (List.length toks + 1))) (Some 1)
                = IOk (d1, List.length toks + 2)).
  { replace (List.length toks + 2) with (S (List.length toks + 1)) at 1 by lia. exact Ha. }
  pose proof (sp1_extend toks (i_doc s) term_tok _ _ d1 T Q Ha') as Q1.
  change (String.eqb "*-" "*-") with true. cbv iota.
  cbn [set_doc i_doc i_row i_stage i_next i_prev i_prehdr orb].
  eexists. split; [reflexivity|]. cbn [i_doc].
  apply (sp1_view _ d1); [|exact Q1]. destruct (n_lastop _); [apply view_cancel | apply view_refl].
Qed.

(* ---- all the lines *)
Lemma data_rows bad : forall cells toks toks0 s rest, state_ok s -> sp1s toks0 s ->
  Forall2 (fun c t => plain_cell c /\ import_cell bad "**kern" c = RTok t) cells toks ->
  exists s', run_rows bad s (map (fun c => [c]) cells ++ rest) = run_rows bad s' rest /\ sp1s (toks0 ++ toks) s' /\ state_ok s'.
Proof.
  induction cells as [|c cells IH]; intros toks toks0 s rest Hs Q F; inversion F as [|? t ? toks' [Hp Hi] F']; subst.
  - exists s. split; [reflexivity|]. split; [rewrite app_nil_r; exact Q | exact Hs].
  - destruct (data_row bad toks0 s c t Hs Q Hp Hi) as [s1 [E1 [Q1 Hs1]]].
    destruct (IH toks' (toks0 ++ [t]) s1 rest Hs1 Q1 F') as [s2 [E2 [Q2 Hs2]]].
    exists s2. cbn [map app run_rows]. rewrite E1. split; [exact E2|]. split; [|exact Hs2].
    rewrite <- app_assoc in Q2. exact Q2.
Qed.

Definition one_spine (cells : list string) : list (list string) := ["**kern"%string] :: map (fun c => [c]) cells ++ [["*-"%string]].

Theorem import_one_spine bad cells toks :
  Forall2 (fun c t => plain_cell c /\ import_cell bad "**kern" c = RTok t) cells toks ->
  exists s, run_rows bad init_state (one_spine cells) = IOk s /\ sp1 (toks ++ [term_tok]) (i_doc s).
Proof.
  intros F. destruct (header_row bad) as [s1 [E1 [Q1 Hs1]]].
  destruct (data_rows bad cells toks [] s1 [["*-"%string]] Hs1 Q1 F) as [s2 [E2 [Q2 Hs2]]].
  destruct (term_row bad _ s2 Hs2 Q2) as [s3 [E3 Q3]].
  exists s3. unfold one_spine. cbn [run_rows]. rewrite E1, E2. cbn [run_rows]. rewrite E3. split; [reflexivity | exact Q3].
Qed.

(* ---- the export of such a document *)
Definition good (t : token) (x : string) : Prop :=
  match t with THeader _ _ => False | _ => True end /\ tok_hidden t = false /\
  kern_tokenize all_cats t = Ok x /\ mem_str x nullish_tokens = false.

Lemma mem_all c : mem c all_cats = true.
Proof. apply mem_In. apply all_cats_complete. Qed.

Lemma good_term : good term_tok "*-".
Proof. repeat split. Qed.

Lemma cell_export d id t x : n_tok (get_node d id) = Some t -> n_header (get_node d id) = Some 1 ->
  n_tok (get_node d 1) = Some hdr_tok -> good t x -> append_row d default_opts id = Ok (Some x).
Proof.
  intros Et Eh E1 [Hnh [Hhid [Hx Hnull]]].
  assert (Ht : header_type d id = Some ("**kern"%string, 0)).
  { unfold header_type, node_tok. rewrite Et. destruct t; try contradiction; rewrite Eh, E1; reflexivity. }
  unfold append_row. rewrite Ht. change (spine_selected default_opts (Some ("**kern"%string, 0))) with true. cbv iota. cbn [negb].
  unfold node_tok. rewrite Et. rewrite Hhid. cbn [negb andb]. change (o_cats default_opts) with all_cats. rewrite mem_all, orb_true_r. cbn [negb].
  unfold export_node, node_tok. rewrite Et.
  assert (Hf : header_for (o_enc default_opts) t = Ok t) by (destruct t; try contradiction; reflexivity).
  rewrite Hf. change (o_enc default_opts) with E_normalizedKern. change (o_cats default_opts) with all_cats.
  assert (Hk : forall clef, tokenize E_normalizedKern all_cats clef t = kern_tokenize all_cats t) by (intros clef; reflexivity).
  rewrite Hk, Hx.
  destruct (String.eqb x "") eqn:E; [apply String.eqb_eq in E; subst; discriminate | reflexivity].
Qed.

Lemma header_export d : n_tok (get_node d 1) = Some hdr_tok -> append_row d default_opts 1 = Ok (Some "**kern"%string).
Proof.
  intros E1. unfold append_row, header_type, node_tok. rewrite E1. cbn [hdr_tok].
  change (spine_selected default_opts (Some ("**kern"%string, 0))) with true. cbv iota. cbn [negb tok_hidden is_complex andb orb].
  change (o_cats default_opts) with all_cats. rewrite mem_all. cbn [negb].
  unfold export_node, node_tok. rewrite E1. vm_compute. reflexivity.
Qed.

Lemma root_export d : n_tok (get_node d 0) = None -> n_header (get_node d 0) = None -> append_row d default_opts 0 = Ok None.
Proof. intros E0 H0. unfold append_row, header_type, node_tok. rewrite E0, H0. reflexivity. Qed.

Lemma rows_of_toks d : n_tok (get_node d 1) = Some hdr_tok -> forall toks outs a, Forall2 good toks outs ->
  (forall j, j < List.length toks -> nth (a + j) (d_stages d) [] = [a + j] /\
             n_tok (get_node d (a + j)) = nth_error toks j /\ n_header (get_node d (a + j)) = Some 1) ->
  main_rows d default_opts a (List.length toks) = Ok (map (fun x => [x]) outs).
Proof.
  intros E1. induction toks as [|t toks IH]; intros outs a F H; inversion F as [|? x ? outs' G F']; subst; [reflexivity|].
  cbn [List.length main_rows].
  destruct (H 0 ltac:(simpl; lia)) as [S0 [T0 H0]]. rewrite Nat.add_0_r in S0, T0, H0. cbn [nth_error] in T0.
  rewrite S0. cbn [row_of_stage]. rewrite (cell_export d a t x T0 H0 E1 G).
  rewrite (IH outs' (S a) F').
  - cbn [map]. unfold all_nullish. cbn [forallb]. destruct G as [_ [_ [_ Hn]]]. rewrite Hn. reflexivity.
  - intros j Hj. replace (S a + j) with (a + S j) by lia. apply (H (S j)). simpl. lia.
Qed.

Theorem export_one_spine d toks outs : sp1 toks d -> Forall2 good toks outs ->
  export_rows d default_opts = Ok (["**kern"%string] :: map (fun x => [x]) outs).
Proof.
  intros [A B [C1 C2] [R1 R2] D] F.
  assert (Ls : List.length (d_stages d) = List.length toks + 2) by (rewrite B, map_length, seq_length; reflexivity).
  assert (Nth : forall j, j < List.length toks + 2 -> nth j (d_stages d) [] = [j]).
  { intros j Hj. rewrite B. rewrite (nth_indep _ [] [0]) by (rewrite map_length, seq_length; exact Hj).
    change [0] with ((fun j0 : nat => [j0]) 0). rewrite map_nth. rewrite seq_nth by exact Hj. reflexivity. }
  unfold export_rows, export_body. cbn [o_from o_to default_opts]. cbv iota. cbn [negb].
  rewrite Ls. replace (S (List.length toks + 2 - 1) - 0) with (S (S (List.length toks))) by lia.
  cbn [main_rows]. rewrite (Nth 0) by lia. cbn [row_of_stage]. rewrite (root_export d R1 R2).
  rewrite (Nth 1) by lia. cbn [row_of_stage]. rewrite (header_export d C1).
  rewrite (rows_of_toks d C1 toks outs 2 F).
  - cbn [app]. reflexivity.
  - intros j Hj. split; [apply Nth; lia|]. replace (2 + j) with (j + 2) by lia. apply D. exact Hj.
Qed.

(* ---- import then export *)
Theorem one_spine_export bad cells toks outs :
  Forall2 (fun c t => plain_cell c /\ import_cell bad "**kern" c = RTok t) cells toks -> Forall2 good toks outs ->
  exists s, run_rows bad init_state (one_spine cells) = IOk s /\ export_rows (i_doc s) default_opts = Ok (one_spine outs).
Proof.
  intros F G. destruct (import_one_spine bad cells toks F) as [s [E Q]]. exists s. split; [exact E|].
  rewrite (export_one_spine (i_doc s) (toks ++ [term_tok]) (outs ++ ["*-"%string]) Q).
  - unfold one_spine. now rewrite map_app.
  - apply Forall2_app; [exact G | constructor; [exact good_term | constructor]].
Qed.

(* a cell in normal form: it is the export of its own token *)
Definition normal_cell (bad : list string) (c : string) : Prop :=
  plain_cell c /\ exists t, import_cell bad "**kern" c = RTok t /\ good t c.

Lemma normal_split bad : forall cells, Forall (normal_cell bad) cells ->
  exists toks, Forall2 (fun c t => plain_cell c /\ import_cell bad "**kern" c = RTok t) cells toks /\ Forall2 good toks cells.
Proof.
  induction cells as [|c cells IH]; intros H; [exists []; split; constructor|].
  inversion H as [|? ? [Hp [t [Hi Hg]]] H']; subst. destruct (IH H') as [toks [F G]].
  exists (t :: toks). split; constructor; auto.
Qed.

(* export o import = identity on the grid of a single-spine document in normal form *)
Theorem one_spine_identity bad cells : Forall (normal_cell bad) cells ->
  exists s, run_rows bad init_state (one_spine cells) = IOk s /\ export_rows (i_doc s) default_opts = Ok (one_spine cells).
Proof. intros H. destruct (normal_split bad cells H) as [toks [F G]]. exact (one_spine_export bad cells toks cells F G). Qed.

Lemma one_spine_no_empty_row bad cells : Forall (normal_cell bad) cells ->
  filter (fun r => negb (empty_row r)) (one_spine cells) = one_spine cells.
Proof.
  intros H. unfold one_spine. cbn [filter]. change (empty_row ["**kern"%string]) with false. cbn [negb]. f_equal.
  rewrite filter_app. cbn [filter]. change (empty_row ["*-"%string]) with false. cbn [negb]. f_equal.
  induction cells as [|c cells IH]; [reflexivity|]. inversion H as [|? ? [_ [t [_ [_ [_ [_ Hn]]]]]] H']; subst.
  cbn [map filter]. unfold empty_row at 1. cbn [forallb]. change empty_row_tokens with nullish_tokens. rewrite Hn. cbn [andb negb].
  f_equal. exact (IH H').
Qed.

(* ... and on the TEXT: the exported text of such a document is read, imported and exported to itself *)
Theorem one_spine_text_fixed_point bad cells : Forall (normal_cell bad) cells -> (forall c, In c cells -> cell_ok c = true) ->
  let text := render_rows (one_spine cells) in
  exists d, load_file bad text = IOk d /\ dumps d default_opts = Ok text /\
            (plain (chars_of_string text) = true -> loads bad text = IOk d).
Proof.
  intros H Hc text.
  assert (Hrows : rows_of_file text = one_spine cells).
  { unfold text. rewrite export_read_back_file; [apply (one_spine_no_empty_row bad cells H)|].
    intros r c Hr Hin. unfold one_spine in Hr. destruct Hr as [<-|Hr]; [destruct Hin as [<-|[]]; reflexivity|].
    apply in_app_or in Hr. destruct Hr as [Hr|[<-|[]]]; [|destruct Hin as [<-|[]]; reflexivity].
    apply in_map_iff in Hr. destruct Hr as [c0 [<- Hc0]]. destruct Hin as [<-|[]]. exact (Hc c0 Hc0). }
  destruct (one_spine_identity bad cells H) as [s [E X]].
  exists (i_doc s). split; [unfold load_file; rewrite Hrows, E; reflexivity|]. split.
  - unfold dumps. rewrite X. reflexivity.
  - intros Hp. unfold loads. rewrite <- (file_equals_text _ Hp), Hrows, E. reflexivity.
Qed.

(* how a **kern cell gets its token: through the recogniser *)
Lemma import_cell_kern bad c t : c <> ""%string -> mem_str c bad = false -> kern_recognise c = KTok t ->
  import_cell bad "**kern" c = RTok t.
Proof.
  intros Hne Hb Hk. unfold import_cell. destruct (String.eqb c "") eqn:E; [apply String.eqb_eq in E; contradiction|].
  rewrite Hb, Hk. unfold import_token. change (kind_of_header "**kern") with (resolve_kind 8 (create_importer "**kern")).
  vm_compute resolve_kind. unfold import_kind. rewrite E. reflexivity.
Qed.

(* ---- canonical notes are cells in normal form *)
From KV Require Import CanonProofs ScanProofs ExportFixedProofs.

Lemma first_char_plain c r : Ascii.eqb c "!" = false -> Ascii.eqb c "*" = false -> plain_cell (String c r).
Proof.
  intros H1 H2. unfold plain_cell. cbn [startswith]. rewrite (Ascii.eqb_sym "!" c), (Ascii.eqb_sym "*" c), H1, H2.
  repeat split. unfold spine_operations. cbn [mem_str String.eqb]. rewrite H2. reflexivity.
Qed.

Lemma head_not_special_b : forallb (fun c => implb (is_digit c || is_pitch_letter c)
                                     (negb (Ascii.eqb c "!") && negb (Ascii.eqb c "*") && negb (Ascii.eqb c "."))) all_bytes = true.
Proof. vm_compute. reflexivity. Qed.

Lemma head_not_special c : is_digit c = true \/ is_pitch_letter c = true ->
  Ascii.eqb c "!" = false /\ Ascii.eqb c "*" = false /\ Ascii.eqb c "." = false.
Proof.
  intros H. pose proof (byte_lift _ head_not_special_b c) as G. cbv beta in G.
  assert (E : is_digit c || is_pitch_letter c = true) by (destruct H as [-> | ->]; [reflexivity | apply orb_true_r]).
  rewrite E in G. cbn [implb] in G. apply andb_true_iff in G. destruct G as [G G3]. apply andb_true_iff in G. destruct G as [G1 G2].
  repeat split; apply negb_true_iff; assumption.
Qed.

Theorem canonical_note_is_normal bad n : note_ok n -> canonical_order n -> mem_str (str (print_note n)) bad = false ->
  normal_cell bad (str (print_note n)).
Proof.
  intros Hok Hc Hb. destruct (print_note_head n Hok) as [c [r [Ep Hh]]]. destruct (head_not_special c Hh) as [H1 [H2 H3]].
  assert (Es : str (print_note n) = String c (str r)) by (rewrite Ep; reflexivity).
  split; [rewrite Es; apply first_char_plain; assumption|].
  exists (note_token n). split.
  - apply import_cell_kern; [rewrite Es; discriminate | exact Hb | apply recognise_print; exact Hok].
  - repeat split; [apply kern_export_canonical; assumption|].
    rewrite Es. unfold nullish_tokens. cbn [mem_str String.eqb]. rewrite H2, H3. destruct (str r); reflexivity.
Qed.

(* the document-level statement for single-spine scores of canonical notes *)
Corollary canonical_notes_document_fixed_point bad notes :
  Forall (fun n => note_ok n /\ canonical_order n /\ mem_str (str (print_note n)) bad = false) notes ->
  (forall n, In n notes -> cell_ok (str (print_note n)) = true) ->
  let text := render_rows (one_spine (map (fun n => str (print_note n)) notes)) in
  exists d, load_file bad text = IOk d /\ dumps d default_opts = Ok text.
Proof.
  intros H Hc text.
  destruct (one_spine_text_fixed_point bad (map (fun n => str (print_note n)) notes)) as [d [E1 [E2 _]]].
  - rewrite Forall_forall in *. intros c Hin. apply in_map_iff in Hin. destruct Hin as [n [<- Hn]].
    destruct (H n Hn) as [A [B C]]. apply canonical_note_is_normal; assumption.
  - intros c Hin. apply in_map_iff in Hin. destruct Hin as [n [<- Hn]]. exact (Hc n Hn).
  - exists d. split; assumption.
Qed.

Example one_spine_example :
  match loads [] "**kern
*clefG2
=1
4c;L
8.dd#
2r
==
*-
" with IOk d => dumps d default_opts | _ => Err "import" end = Ok "**kern
*clefG2
=
4c;L
8.dd#
2r
==
*-
"%string.
Proof. vm_compute. reflexivity. Qed.

(* ---- canonical rests and chords, and tokens exported verbatim, are cells in normal form too *)
From KV Require Import RestProofs RestFixedProofs ChordProofs ChordFixedProofs TokenProofs.

Lemma digit_head_normal bad c r t : is_digit c = true -> mem_str (String c r) bad = false ->
  kern_recognise (String c r) = KTok t -> match t with THeader _ _ => False | _ => True end -> tok_hidden t = false ->
  kern_tokenize all_cats t = Ok (String c r) -> normal_cell bad (String c r).
Proof.
  intros Hd Hb Hk Hnh Hhid Hx. destruct (head_not_special c (or_introl Hd)) as [H1 [H2 H3]].
  split; [apply first_char_plain; assumption|]. exists t. split; [apply import_cell_kern; [discriminate | exact Hb | exact Hk]|].
  repeat split; try assumption. unfold nullish_tokens. cbn [mem_str String.eqb]. rewrite H2, H3. destruct r; reflexivity.
Qed.

Theorem canonical_rest_is_normal bad r : rest_ok r -> rest_canonical_order r -> mem_str (str (print_rest r)) bad = false ->
  normal_cell bad (str (print_rest r)).
Proof.
  intros Hok Hc Hb. pose proof Hok as [Hdur _]. destruct (print_dur_head _ Hdur) as [c [cs [Ex Hd]]].
  assert (Es : str (print_rest r) = String c (str (cs ++ "r"%char :: rs_decos r))).
  { unfold print_rest. rewrite Ex. reflexivity. }
  rewrite Es in *. apply (digit_head_normal bad c _ (rest_token r) Hd Hb).
  - rewrite <- Es. apply recognise_print_rest. exact Hok.
  - exact I.
  - reflexivity.
  - rewrite <- Es. apply kern_export_canonical_rest; assumption.
Qed.

Theorem canonical_chord_is_normal bad D notes : 2 <= List.length notes -> chord_ok D notes -> Forall canonical_order notes ->
  mem_str (str (print_chord notes)) bad = false -> normal_cell bad (str (print_chord notes)).
Proof.
  intros Hlen Hok Hc Hb. assert (Hne : notes <> []) by (intros ->; simpl in Hlen; lia).
  destruct (print_chord_head D notes Hne Hok) as [c [r [E Hd]]].
  assert (Es : str (print_chord notes) = String c (str r)) by (rewrite E; reflexivity).
  rewrite Es in *. apply (digit_head_normal bad c _ (TChord (String c (str r)) (map (chord_note D) notes)) Hd Hb).
  - rewrite <- Es. apply recognise_print_chord; assumption.
  - exact I.
  - reflexivity.
  - rewrite <- Es. apply kern_export_canonical_chord; assumption.
Qed.

(* any cell the recogniser keeps as ONE simple token carrying the cell text (interpretations, ...) *)
Theorem verbatim_cell_is_normal bad c k cls : plain_cell c -> c <> ""%string -> mem_str c bad = false ->
  kern_recognise c = KTok (TSimple c k cls) -> strip_separators c = c -> mem_str c nullish_tokens = false ->
  normal_cell bad c.
Proof.
  intros Hp Hne Hb Hk Hs Hn. split; [exact Hp|]. exists (TSimple c k cls). split; [apply import_cell_kern; assumption|].
  repeat split; try assumption. unfold kern_tokenize, ekern_tokenize. cbn [export_token map_res tok_enc]. now rewrite Hs.
Qed.

Example mixed_document_cells_are_normal :
  Forall (normal_cell []) ["*clefG2"; "*M4/4"; "4c;L"; "8.dd#"]%string.
Proof.
  assert (V : forall c k cls, plain_cell c -> c <> ""%string -> kern_recognise c = KTok (TSimple c k cls) -> strip_separators c = c ->
              mem_str c nullish_tokens = false -> normal_cell [] c)
    by (intros; eapply verbatim_cell_is_normal; try eassumption; reflexivity).
  apply Forall_cons; [eapply (V "*clefG2"%string); try reflexivity; try discriminate; repeat split|].
  apply Forall_cons; [eapply (V "*M4/4"%string); try reflexivity; try discriminate; repeat split|].
  apply Forall_cons; [split; [repeat split|]; eexists; split; [vm_compute; reflexivity|]; repeat split|].
  apply Forall_cons; [split; [repeat split|]; eexists; split; [vm_compute; reflexivity|]; repeat split|].
  apply Forall_nil.
Qed.

(* ---- the same document under ANY option set without a measure range (categories, encoding, spine selection):
        the export is, line by line, a function of that line's token and of (categories, encoding) only *)
Definition cell_of_tok (o : opts) (t : token) : res string :=
  if negb (negb (tok_hidden t) && (is_complex t || mem (tok_cat t) (o_cats o))) then Ok (placeholder t)
  else match tokenize (o_enc o) (o_cats o) None t with
       | Err e => Err e
       | Ok s => Ok (if String.eqb s "" then placeholder t else s)
       end.

Definition header_cell (o : opts) : res string :=
  if negb (negb (tok_hidden hdr_tok) && (is_complex hdr_tok || mem (tok_cat hdr_tok) (o_cats o))) then Ok (placeholder hdr_tok)
  else match header_for (o_enc o) hdr_tok with
       | Err e => Err e
       | Ok t' => match tokenize (o_enc o) (o_cats o) None t' with
                  | Err e => Err e
                  | Ok s => Ok (if String.eqb s "" then placeholder hdr_tok else s)
                  end
       end.

(* the four non-agnostic encodings never look at the clef *)
Definition clef_free (e : encoding) : Prop := forall cats clef t, tokenize e cats clef t = tokenize e cats None t.

Lemma clef_free_kern : clef_free E_normalizedKern. Proof. intros cats clef t. reflexivity. Qed.
Lemma clef_free_ekern : clef_free E_eKern. Proof. intros cats clef t. reflexivity. Qed.
Lemma clef_free_bkern : clef_free E_bKern. Proof. intros cats clef t. reflexivity. Qed.
Lemma clef_free_bekern : clef_free E_bEkern. Proof. intros cats clef t. reflexivity. Qed.

Definition kept_rows (l : list string) : list (list string) :=
  map (fun x => [x]) (filter (fun x => negb (mem_str x nullish_tokens)) l).

Lemma cell_export_o o d id t x : spine_selected o (Some ("**kern"%string, 0)) = true -> clef_free (o_enc o) ->
  n_tok (get_node d id) = Some t -> n_header (get_node d id) = Some 1 -> n_tok (get_node d 1) = Some hdr_tok ->
  match t with THeader _ _ => False | _ => True end -> cell_of_tok o t = Ok x -> append_row d o id = Ok (Some x).
Proof.
  intros Hsel Hcf Et Eh E1 Hnh Hx.
  assert (Ht : header_type d id = Some ("**kern"%string, 0)).
  { unfold header_type, node_tok. rewrite Et. destruct t; try contradiction; rewrite Eh, E1; reflexivity. }
  unfold append_row. rewrite Ht, Hsel. cbn [negb]. unfold node_tok. rewrite Et.
  unfold cell_of_tok in Hx.
  destruct (negb (negb (tok_hidden t) && (is_complex t || mem (tok_cat t) (o_cats o)))); [injection Hx as <-; reflexivity|].
  unfold export_node, node_tok. rewrite Et.
  assert (Hf : header_for (o_enc o) t = Ok t) by (destruct t; try contradiction; reflexivity).
  rewrite Hf, (Hcf (o_cats o) _ t).
  destruct (tokenize (o_enc o) (o_cats o) None t) as [s|e]; [|discriminate]. injection Hx as <-. reflexivity.
Qed.

Lemma header_export_o o d h : spine_selected o (Some ("**kern"%string, 0)) = true -> clef_free (o_enc o) ->
  n_tok (get_node d 1) = Some hdr_tok -> header_cell o = Ok h -> append_row d o 1 = Ok (Some h).
Proof.
  intros Hsel Hcf E1 Hh.
  assert (Ht : header_type d 1 = Some ("**kern"%string, 0)) by (unfold header_type, node_tok; rewrite E1; reflexivity).
  unfold append_row. rewrite Ht, Hsel. cbn [negb]. unfold node_tok. rewrite E1.
  unfold header_cell in Hh.
  destruct (negb (negb (tok_hidden hdr_tok) && (is_complex hdr_tok || mem (tok_cat hdr_tok) (o_cats o)))); [injection Hh as <-; reflexivity|].
  unfold export_node, node_tok. rewrite E1.
  destruct (header_for (o_enc o) hdr_tok) as [t'|e]; [|discriminate].
  rewrite (Hcf (o_cats o) _ t').
  destruct (tokenize (o_enc o) (o_cats o) None t') as [s|e]; [|discriminate]. injection Hh as <-. reflexivity.
Qed.

Lemma root_export_o o d : n_tok (get_node d 0) = None -> n_header (get_node d 0) = None -> append_row d o 0 = Ok None.
Proof. intros E0 H0. unfold append_row, header_type, node_tok. rewrite E0, H0. reflexivity. Qed.

Lemma rows_of_toks_o o d : spine_selected o (Some ("**kern"%string, 0)) = true -> clef_free (o_enc o) ->
  n_tok (get_node d 1) = Some hdr_tok -> forall toks outs a,
  Forall2 (fun t x => match t with THeader _ _ => False | _ => True end /\ cell_of_tok o t = Ok x) toks outs ->
  (forall j, j < List.length toks -> nth (a + j) (d_stages d) [] = [a + j] /\
             n_tok (get_node d (a + j)) = nth_error toks j /\ n_header (get_node d (a + j)) = Some 1) ->
  main_rows d o a (List.length toks) = Ok (kept_rows outs).
Proof.
  intros Hsel Hcf E1. induction toks as [|t toks IH]; intros outs a F H; inversion F as [|? x ? outs' [G1 G2] F']; subst; [reflexivity|].
  cbn [List.length main_rows].
  destruct (H 0 ltac:(simpl; lia)) as [S0 [T0 H0]]. rewrite Nat.add_0_r in S0, T0, H0. cbn [nth_error] in T0.
  rewrite S0. cbn [row_of_stage]. rewrite (cell_export_o o d a t x Hsel Hcf T0 H0 E1 G1 G2).
  rewrite (IH outs' (S a) F').
  - unfold kept_rows. cbn [filter map]. unfold all_nullish. cbn [forallb]. rewrite andb_true_r.
    destruct (mem_str x nullish_tokens); reflexivity.
  - intros j Hj. replace (S a + j) with (a + S j) by lia. apply (H (S j)). simpl. lia.
Qed.

Theorem export_one_spine_opts o d toks outs h : sp1 toks d ->
  spine_selected o (Some ("**kern"%string, 0)) = true -> clef_free (o_enc o) -> o_from o = None -> o_to o = None ->
  header_cell o = Ok h ->
  Forall2 (fun t x => match t with THeader _ _ => False | _ => True end /\ cell_of_tok o t = Ok x) toks outs ->
  export_rows d o = Ok (kept_rows (h :: outs)).
Proof.
  intros [A B [C1 C2] [R1 R2] D] Hsel Hcf Hfrom Hto Hh F.
  assert (Ls : List.length (d_stages d) = List.length toks + 2) by (rewrite B, map_length, seq_length; reflexivity).
  assert (Nth : forall j, j < List.length toks + 2 -> nth j (d_stages d) [] = [j]).
  { intros j Hj. rewrite B. rewrite (nth_indep _ [] [0]) by (rewrite map_length, seq_length; exact Hj).
    change [0] with ((fun j0 : nat => [j0]) 0). rewrite map_nth. rewrite seq_nth by exact Hj. reflexivity. }
  unfold export_rows, export_body. rewrite Hfrom, Hto. cbv iota. cbn [negb].
  rewrite Ls. replace (S (List.length toks + 2 - 1) - 0) with (S (S (List.length toks))) by lia.
  cbn [main_rows]. rewrite (Nth 0) by lia. cbn [row_of_stage]. rewrite (root_export_o o d R1 R2).
  rewrite (Nth 1) by lia. cbn [row_of_stage]. rewrite (header_export_o o d h Hsel Hcf C1 Hh).
  rewrite (rows_of_toks_o o d Hsel Hcf C1 toks outs 2 F).
  - unfold kept_rows. cbn [filter map add_terminator]. unfold all_nullish. cbn [forallb]. rewrite andb_true_r.
    destruct (mem_str h nullish_tokens); reflexivity.
  - intros j Hj. split; [apply Nth; lia|]. replace (2 + j) with (j + 2) by lia. apply D. exact Hj.
Qed.
