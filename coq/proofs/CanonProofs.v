(* Proofs for C01 (canonicity): what the listener collects and what export prints for the signifiers of
   a note depends only on the SET of signifier characters - not on their order, slot or repetition. *)
From Coq Require Import List String Ascii Bool ZArith Lia Permutation Sorted.
From KV Require Import Strings CatGen Cat CatProofs Token Tokenizers KernTok TokenProofs.
Import ListNotations.
Open Scope list_scope.

Definition deco_of (c : ascii) : subtoken := {| st_enc := String c ""; st_cat := DECORATION |}.

Lemma nodup_snoc {A} (l : list A) x : NoDup l -> ~ In x l -> NoDup (l ++ [x]).
Proof.
  induction l as [|y l IH]; intros Hn Hx; simpl; [constructor; [tauto | constructor]|].
  inversion Hn as [|? ? Hy Hn']; subst. constructor.
  - rewrite in_app_iff. simpl. intros [H|[H|[]]]; [contradiction | subst; apply Hx; now left].
  - apply IH; [exact Hn' | intros H; apply Hx; now right].
Qed.

(* ---- what add_decos (the listener's _add_decoration loop) builds *)
Definition all_deco (l : list subtoken) : Prop := forall s, In s l -> exists c, s = deco_of c.

Lemma existsb_enc acc c : all_deco acc ->
  existsb (fun s => String.eqb (st_enc s) (String c "")) acc = true <-> In (deco_of c) acc.
Proof.
  intros Ha. rewrite existsb_exists. split.
  - intros [s [Hs He]]. apply String.eqb_eq in He. destruct (Ha s Hs) as [c' ->]. simpl in He.
    injection He as ->. exact Hs.
  - intros H. exists (deco_of c). split; [exact H | apply String.eqb_refl].
Qed.

Lemma add_decos_spec : forall l acc, all_deco acc -> NoDup acc ->
  all_deco (add_decos acc l) /\ NoDup (add_decos acc l) /\
  (forall s, In s (add_decos acc l) <-> In s acc \/ exists c, In c l /\ s = deco_of c).
Proof.
  induction l as [|c l IH]; intros acc Ha Hn; simpl.
  - split; [exact Ha|]. split; [exact Hn|]. intros s. split; [tauto|]. intros [H|[c [[] _]]]. exact H.
  - destruct (existsb (fun s => String.eqb (st_enc s) (String c "")) acc) eqn:E.
    + destruct (IH acc Ha Hn) as [H1 [H2 H3]]. split; [exact H1|]. split; [exact H2|].
      intros s. rewrite H3. apply (existsb_enc acc c Ha) in E. split.
      * intros [H|[c' [Hc ->]]]; [now left | right; exists c'; split; [now right | reflexivity]].
      * intros [H|[c' [[<-|Hc] ->]]]; [now left | now left | right; exists c'; tauto].
    + assert (Hnin : ~ In (deco_of c) acc).
      { intros H. apply (existsb_enc acc c Ha) in H. congruence. }
      assert (Ha' : all_deco (acc ++ [deco_of c])).
      { intros s Hs. apply in_app_iff in Hs. destruct Hs as [Hs|[<-|[]]]; [apply Ha; exact Hs | now exists c]. }
      assert (Hn' : NoDup (acc ++ [deco_of c])).
      { apply nodup_snoc; assumption. }
      destruct (IH _ Ha' Hn') as [H1 [H2 H3]]. split; [exact H1|]. split; [exact H2|].
      intros s. rewrite H3, in_app_iff. simpl. split.
      * intros [[H|[<-|[]]]|[c' [Hc ->]]]; [now left | right; exists c; tauto | right; exists c'; tauto].
      * intros [H|[c' [[<-|Hc] ->]]]; [tauto | tauto | right; exists c'; tauto].
Qed.

Lemma add_decos_set l : all_deco (add_decos [] l) /\ NoDup (add_decos [] l) /\
  (forall s, In s (add_decos [] l) <-> exists c, In c l /\ s = deco_of c).
Proof.
  destruct (add_decos_spec l [] (fun s H => match H with end) (NoDup_nil _)) as [H1 [H2 H3]].
  split; [exact H1|]. split; [exact H2|]. intros s. rewrite H3. simpl. tauto.
Qed.

(* ---- a sorted duplicate-free list is determined by its set of elements *)
Section Unique.
  Context {A : Type} (leb : A -> A -> bool).
  Hypothesis leb_antisym : forall a b, leb a b = true -> leb b a = true -> a = b.
  Hypothesis leb_refl : forall a, leb a a = true.

  Lemma sorted_unique : forall l1 l2, sorted leb l1 -> sorted leb l2 -> NoDup l1 -> NoDup l2 ->
    (forall x, In x l1 <-> In x l2) -> l1 = l2.
  Proof.
    unfold sorted. induction l1 as [|x l1 IH]; intros l2 S1 S2 N1 N2 Hset.
    - destruct l2 as [|y l2]; [reflexivity|]. exfalso. apply (Hset y). now left.
    - destruct l2 as [|y l2]; [exfalso; apply (Hset x); now left|].
      inversion S1 as [|? ? S1' A1]; inversion S2 as [|? ? S2' A2]; subst.
      inversion N1 as [|? ? X1 N1']; inversion N2 as [|? ? Y2 N2']; subst.
      rewrite Forall_forall in A1, A2.
      assert (Hxy : x = y).
      { assert (Hx : In x (y :: l2)) by (apply Hset; now left).
        assert (Hy : In y (x :: l1)) by (apply Hset; now left).
        destruct Hx as [->|Hx]; [reflexivity|]. destruct Hy as [<-|Hy]; [reflexivity|].
        apply leb_antisym; [apply A1; exact Hy | apply A2; exact Hx]. }
      subst y. f_equal. apply IH; try assumption.
      intros z. split; intros Hz.
      + assert (H : In z (x :: l2)) by (apply Hset; now right). destruct H as [<-|H]; [contradiction | exact H].
      + assert (H : In z (x :: l1)) by (apply Hset; now right). destruct H as [<-|H]; [contradiction | exact H].
  Qed.
End Unique.

Lemma string_leb_antisym a b : string_leb a b = true -> string_leb b a = true -> a = b.
Proof.
  unfold string_leb. rewrite !negb_true_iff. intros H1 H2.
  destruct (string_ltb_trichotomy a b) as [H|[H|H]]; congruence.
Qed.

Lemma deco_leb_antisym c1 c2 : sub_full_leb (deco_of c1) (deco_of c2) = true ->
  sub_full_leb (deco_of c2) (deco_of c1) = true -> deco_of c1 = deco_of c2.
Proof.
  unfold sub_full_leb. simpl. intros H1 H2.
  assert (E : String c1 "" = String c2 "") by (now apply string_leb_antisym). injection E as ->. reflexivity.
Qed.

(* ---- canonicity: the sorted signifier list is a function of the SET of signifier characters *)
Definition same_chars (l1 l2 : list ascii) : Prop := forall c, In c l1 <-> In c l2.

Theorem canonical_decorations l1 l2 : same_chars l1 l2 ->
  stable_sort sub_full_leb (add_decos [] l1) = stable_sort sub_full_leb (add_decos [] l2).
Proof.
  intros Hs.
  destruct (add_decos_set l1) as [A1 [N1 S1]]. destruct (add_decos_set l2) as [A2 [N2 S2]].
  set (m1 := stable_sort sub_full_leb (add_decos [] l1)). set (m2 := stable_sort sub_full_leb (add_decos [] l2)).
  assert (P1 : Permutation m1 (add_decos [] l1)) by (apply stable_sort_perm).
  assert (P2 : Permutation m2 (add_decos [] l2)) by (apply stable_sort_perm).
  (* decide equality inside the sub-type of decoration sub-tokens: use the order restricted to them *)
  assert (D1 : all_deco m1) by (intros s H; apply A1; eapply Permutation_in; [exact P1 | exact H]).
  assert (D2 : all_deco m2) by (intros s H; apply A2; eapply Permutation_in; [exact P2 | exact H]).
  assert (So1 : sorted sub_full_leb m1) by (apply stable_sort_sorted; [apply sub_full_leb_total | apply sub_full_leb_trans]).
  assert (So2 : sorted sub_full_leb m2) by (apply stable_sort_sorted; [apply sub_full_leb_total | apply sub_full_leb_trans]).
  assert (Nd1 : NoDup m1) by (eapply Permutation_NoDup; [symmetry; exact P1 | exact N1]).
  assert (Nd2 : NoDup m2) by (eapply Permutation_NoDup; [symmetry; exact P2 | exact N2]).
  assert (Hset : forall x, In x m1 <-> In x m2).
  { intros x. split; intros H.
    - apply (Permutation_in _ P1) in H. apply S1 in H. destruct H as [c [Hc ->]].
      apply (Permutation_in _ (Permutation_sym P2)). apply S2. exists c. split; [apply Hs; exact Hc | reflexivity].
    - apply (Permutation_in _ P2) in H. apply S2 in H. destruct H as [c [Hc ->]].
      apply (Permutation_in _ (Permutation_sym P1)). apply S1. exists c. split; [apply Hs; exact Hc | reflexivity]. }
  clearbody m1 m2. clear P1 P2 S1 S2 N1 N2 A1 A2.
  (* sorted_unique with antisymmetry available only on decoration sub-tokens: inline induction *)
  revert m2 D2 So2 Nd2 Hset. unfold sorted in *.
  induction m1 as [|x m1 IH]; intros m2 D2 So2 Nd2 Hset.
  - destruct m2 as [|y m2]; [reflexivity|]. exfalso. apply (Hset y). now left.
  - destruct m2 as [|y m2]; [exfalso; apply (Hset x); now left|].
    inversion So1 as [|? ? S1' B1]; inversion So2 as [|? ? S2' B2]; subst.
    inversion Nd1 as [|? ? X1 N1']; inversion Nd2 as [|? ? Y2 N2']; subst.
    rewrite Forall_forall in B1, B2.
    assert (Hxy : x = y).
    { assert (Hx : In x (y :: m2)) by (apply Hset; now left).
      assert (Hy : In y (x :: m1)) by (apply Hset; now left).
      destruct Hx as [->|Hx]; [reflexivity|]. destruct Hy as [<-|Hy]; [reflexivity|].
      destruct (D1 x (or_introl eq_refl)) as [cx ->]. destruct (D2 y (or_introl eq_refl)) as [cy ->].
      apply deco_leb_antisym; [apply B1; exact Hy | apply B2; exact Hx]. }
    subst y. f_equal. apply IH; try assumption.
    + intros s H. apply D1. now right.
    + intros s H. apply D2. now right.
    + intros z. split; intros Hz.
      * assert (H : In z (x :: m2)) by (apply Hset; now right). destruct H as [<-|H]; [contradiction | exact H].
      * assert (H : In z (x :: m1)) by (apply Hset; now right). destruct H as [<-|H]; [contradiction | exact H].
Qed.

(* the exported text of a note is therefore the same for any two layouts that yield the same
   duration / pitch / accidental sub-tokens and the same set of signifier characters *)
Theorem canonical_export keep e1 e2 pd l1 l2 : same_chars l1 l2 ->
  export_noterest keep None {| nr_enc := e1; nr_pd := pd; nr_deco := add_decos [] l1 |}
  = export_noterest keep None {| nr_enc := e2; nr_pd := pd; nr_deco := add_decos [] l2 |}.
Proof.
  intros Hs. unfold export_noterest. cbn [nr_pd nr_deco].
  assert (Hf : stable_sort sub_full_leb (filter (fun s => keep (st_cat s)) (add_decos [] l1))
             = stable_sort sub_full_leb (filter (fun s => keep (st_cat s)) (add_decos [] l2))).
  { rewrite <- !(filter_stable_sort sub_full_leb sub_full_leb_total sub_full_leb_trans).
    now rewrite (canonical_decorations l1 l2 Hs). }
  rewrite Hf. reflexivity.
Qed.

(* repetition and order are irrelevant: concrete instances of [same_chars] *)
Lemma same_chars_perm l1 l2 : Permutation l1 l2 -> same_chars l1 l2.
Proof. intros P c. split; apply Permutation_in; [exact P | symmetry; exact P]. Qed.
Lemma same_chars_dup l c : In c l -> same_chars (c :: l) l.
Proof. intros H x. simpl. split; [intros [<-|Hx]; assumption | tauto]. Qed.
Lemma same_chars_app_comm a b : same_chars (a ++ b) (b ++ a).
Proof. intros c. rewrite !in_app_iff. tauto. Qed.

Example canonical_example :
  stable_sort sub_full_leb (add_decos [] (chars_of_string "LJL;")) = stable_sort sub_full_leb (add_decos [] (chars_of_string ";JL")).
Proof. vm_compute. reflexivity. Qed.
