(* Structural invariants of the imported tree (C02): node ids are positions in the store, parents precede their
   children, a node is registered exactly in the children list of its parent, existing nodes never change their
   identity / stage / token / parent / header / last spine operator when later cells are imported.
   All by induction over the cells and rows of the importer model, for every text. *)
From Coq Require Import List String Ascii Bool ZArith Lia.
From KV Require Import Strings CatGen Cat SpineImpGen SpineImp Token KernTok Importer ImporterProofs.
Import ListNotations.
Open Scope list_scope.

(* ---- list helpers *)
Lemma nth_update_nth_eq {A} (f : A -> A) d : forall (l : list A) n, n < List.length l -> nth n (update_nth n f l) d = f (nth n l d).
Proof. induction l as [|x l IH]; intros n H; simpl in *; [lia|]. destruct n; simpl; [reflexivity | apply IH; lia]. Qed.

Lemma nth_update_nth_neq {A} (f : A -> A) d : forall (l : list A) n m, n <> m -> nth m (update_nth n f l) d = nth m l d.
Proof.
  induction l as [|x l IH]; intros n m H; simpl; [destruct n; reflexivity|].
  destruct n, m; simpl; try reflexivity; try lia. apply IH. lia.
Qed.

Lemma update_nth_length {A} (f : A -> A) : forall (l : list A) n, List.length (update_nth n f l) = List.length l.
Proof. induction l as [|x l IH]; intros n; destruct n; simpl; auto. Qed.

(* the part of a node that never changes once it exists *)
Definition core (n : node) := (n_id n, n_stage n, n_tok n, n_parent n, n_lastop n).

(* ---- the invariant *)
Record tree_ok (d : doc) : Prop := {
  t_nonempty : 0 < List.length (d_nodes d);
  t_ids : forall i, i < List.length (d_nodes d) -> n_id (get_node d i) = i;
  t_parent : forall i p, i < List.length (d_nodes d) -> n_parent (get_node d i) = Some p ->
               p < i /\ In i (n_children (get_node d p));
  t_children : forall p c, p < List.length (d_nodes d) -> In c (n_children (get_node d p)) ->
               c < List.length (d_nodes d) /\ n_parent (get_node d c) = Some p;
  t_root : n_parent (get_node d 0) = None;
  t_hasparent : forall i, 0 < i -> i < List.length (d_nodes d) -> n_parent (get_node d i) <> None;
  t_nodup : forall p, p < List.length (d_nodes d) -> NoDup (n_children (get_node d p)) }.

Lemma empty_tree_ok : tree_ok empty_doc.
Proof.
  constructor; simpl.
  - lia.
  - intros i H. assert (i = 0) by lia. subst. reflexivity.
  - intros i p H. assert (i = 0) by lia. subst. discriminate.
  - intros p c H. assert (p = 0) by lia. subst. simpl. tauto.
  - reflexivity.
  - intros i H0 H. lia.
  - intros p H. assert (p = 0) by lia. subst. constructor.
Qed.

(* setters that do not touch identity / parents / children *)
Definition same_links (d d' : doc) : Prop :=
  List.length (d_nodes d') = List.length (d_nodes d) /\
  forall i, core (get_node d' i) = core (get_node d i) /\ n_children (get_node d' i) = n_children (get_node d i).

Lemma same_links_refl d : same_links d d.
Proof. split; [reflexivity | intros i; split; reflexivity]. Qed.

Lemma same_links_trans a b c : same_links a b -> same_links b c -> same_links a c.
Proof.
  intros [L1 H1] [L2 H2]. split; [congruence|]. intros i. destruct (H1 i) as [A1 B1], (H2 i) as [A2 B2]. split; congruence.
Qed.

Lemma tree_ok_same_links d d' : same_links d d' -> tree_ok d -> tree_ok d'.
Proof.
  intros [L H] T. assert (Hc : forall i, n_id (get_node d' i) = n_id (get_node d i) /\ n_parent (get_node d' i) = n_parent (get_node d i)
                                  /\ n_children (get_node d' i) = n_children (get_node d i)).
  { intros i. destruct (H i) as [A B]. unfold core in A. injection A as A1 A2 A3 A4 A5. repeat split; assumption. }
  constructor.
  - rewrite L. apply T.
  - intros i Hi. rewrite L in Hi. destruct (Hc i) as [-> _]. now apply T.
  - intros i p Hi Hp. rewrite L in Hi. destruct (Hc i) as [_ [E _]]. rewrite E in Hp.
    destruct (t_parent d T i p Hi Hp) as [P1 P2]. split; [exact P1|]. destruct (Hc p) as [_ [_ ->]]. exact P2.
  - intros p c Hp Hin. rewrite L in *. destruct (Hc p) as [_ [_ E]]. rewrite E in Hin.
    destruct (t_children d T p c Hp Hin) as [C1 C2]. split; [exact C1|]. destruct (Hc c) as [_ [-> _]]. exact C2.
  - destruct (Hc 0) as [_ [-> _]]. apply T.
  - intros i H0 Hi. rewrite L in Hi. destruct (Hc i) as [_ [-> _]]. now apply T.
  - intros p Hp. rewrite L in Hp. destruct (Hc p) as [_ [_ ->]]. now apply T.
Qed.

Lemma update_self_links (d : doc) id (f : node -> node) :
  (forall n, core (f n) = core n /\ n_children (f n) = n_children n) ->
  same_links d (set_nodes d (update_nth id f (d_nodes d))).
Proof.
  intros Hf. split; [simpl; apply update_nth_length|]. intros i. unfold get_node. simpl.
  destruct (Nat.eq_dec id i) as [->|Hne].
  - destruct (Nat.lt_ge_cases i (List.length (d_nodes d))) as [Hl|Hl].
    + rewrite nth_update_nth_eq by exact Hl. apply Hf.
    + rewrite !nth_overflow; [split; reflexivity | exact Hl | rewrite update_nth_length; exact Hl].
  - rewrite nth_update_nth_neq by exact Hne. split; reflexivity.
Qed.

Lemma links_set_header_self d id : same_links d (set_header_self d id).
Proof. apply update_self_links. intros n. split; reflexivity. Qed.
Lemma links_sig_update d id c : same_links d (sig_update d id c).
Proof. apply update_self_links. intros n. split; reflexivity. Qed.
Lemma links_set_cancelled d a b : same_links d (set_cancelled d a b).
Proof. split; [reflexivity | intros i; split; reflexivity]. Qed.
Lemma links_add_error d id : same_links d (add_error d id).
Proof. split; [reflexivity | intros i; split; reflexivity]. Qed.
Lemma links_set_header_stage d st : same_links d (set_header_stage d st).
Proof. split; [reflexivity | intros i; split; reflexivity]. Qed.
Lemma links_push_mst d st : same_links d (push_mst d st).
Proof. split; [reflexivity | intros i; split; reflexivity]. Qed.

(* ---- add_node *)
Lemma add_node_spec d st p t lo sg h d' id : tree_ok d -> p < List.length (d_nodes d) ->
  add_node d st p t lo sg h = IOk (d', id) ->
  id = List.length (d_nodes d) /\ List.length (d_nodes d') = S id /\ tree_ok d' /\
  n_parent (get_node d' id) = Some p /\ n_tok (get_node d' id) = Some t /\ n_header (get_node d' id) = h /\
  n_stage (get_node d' id) = st /\ n_lastop (get_node d' id) = lo /\
  (forall i, i < id -> core (get_node d' i) = core (get_node d i) /\ n_header (get_node d' i) = n_header (get_node d i)).
Proof.
  intros T Hp. unfold add_node. destruct (Nat.ltb (List.length (d_stages d)) st); [discriminate|].
  intros H. injection H as <- <-. set (id := List.length (d_nodes d)).
  set (upd := fun q : node => {| n_id := n_id q; n_stage := n_stage q; n_tok := n_tok q; n_parent := n_parent q; n_header := n_header q;
                                 n_lastop := n_lastop q; n_sigs := n_sigs q; n_children := n_children q ++ [id] |}).
  set (nd := {| n_id := id; n_stage := st; n_tok := Some t; n_parent := Some p; n_header := h; n_lastop := lo; n_sigs := sg; n_children := [] |}).
  assert (Hlen : List.length (update_nth p upd (d_nodes d) ++ [nd]) = S id)
    by (rewrite app_length, update_nth_length; simpl; unfold id; lia).
  assert (Hnew : nth id (update_nth p upd (d_nodes d) ++ [nd]) root_node = nd).
  { rewrite app_nth2; rewrite update_nth_length; [|unfold id; lia]. unfold id. now rewrite Nat.sub_diag. }
  assert (Hold : forall i, i < id -> nth i (update_nth p upd (d_nodes d) ++ [nd]) root_node
                                    = if Nat.eqb i p then upd (nth i (d_nodes d) root_node) else nth i (d_nodes d) root_node).
  { intros i Hi. rewrite app_nth1 by (rewrite update_nth_length; exact Hi).
    destruct (Nat.eqb i p) eqn:E.
    - apply Nat.eqb_eq in E. subst. apply nth_update_nth_eq. exact Hi.
    - apply Nat.eqb_neq in E. apply nth_update_nth_neq. lia. }
  split; [reflexivity|]. cbn [set_stages set_nodes d_nodes]. split; [exact Hlen|].
  unfold get_node. cbn [set_stages set_nodes d_nodes]. rewrite Hnew. cbn [n_parent n_tok n_header n_stage n_lastop nd].
  split; [|split; [reflexivity|]; split; [reflexivity|]; split; [reflexivity|]; split; [reflexivity|]; split; [reflexivity|]].
  - (* tree_ok *)
    constructor; cbn [set_stages set_nodes d_nodes].
    + rewrite Hlen. lia.
    + intros i Hi. rewrite Hlen in Hi. unfold get_node. cbn [set_stages set_nodes d_nodes].
      destruct (Nat.eq_dec i id) as [->|Hne]; [rewrite Hnew; reflexivity|].
      rewrite Hold by lia. destruct (Nat.eqb i p); [cbn [n_id upd] | ]; apply (t_ids d T); unfold id in *; lia.
    + intros i q Hi Hq. rewrite Hlen in Hi. unfold get_node in *. cbn [set_stages set_nodes d_nodes] in *.
      destruct (Nat.eq_dec i id) as [->|Hne].
      * rewrite Hnew in Hq. cbn [n_parent nd] in Hq. injection Hq as <-. split; [exact Hp|].
        rewrite Hold by exact Hp. rewrite Nat.eqb_refl. cbn [n_children upd]. apply in_app_iff. right. now left.
      * assert (Hi' : i < id) by lia. rewrite Hold in Hq by exact Hi'.
        assert (Hq' : n_parent (nth i (d_nodes d) root_node) = Some q) by (destruct (Nat.eqb i p); exact Hq).
        destruct (t_parent d T i q Hi' Hq') as [Q1 Q2]. split; [exact Q1|].
        rewrite Hold by lia. destruct (Nat.eqb q p); [cbn [n_children upd]; apply in_app_iff; left|]; exact Q2.
    + intros q c Hq Hin. rewrite Hlen in *. unfold get_node in *. cbn [set_stages set_nodes d_nodes] in *.
      destruct (Nat.eq_dec q id) as [->|Hne].
      * rewrite Hnew in Hin. contradiction.
      * assert (Hq' : q < id) by lia. rewrite Hold in Hin by exact Hq'.
        destruct (Nat.eqb q p) eqn:E.
        -- apply Nat.eqb_eq in E. subst q. cbn [n_children upd] in Hin. apply in_app_iff in Hin. destruct Hin as [Hin|[<-|[]]].
           ++ destruct (t_children d T p c Hp Hin) as [C1 C2]. split; [unfold id in *; lia|].
              rewrite Hold by exact C1. destruct (Nat.eqb c p); exact C2.
           ++ split; [lia|]. rewrite Hnew. reflexivity.
        -- destruct (t_children d T q c Hq' Hin) as [C1 C2]. split; [unfold id in *; lia|].
           rewrite Hold by exact C1. destruct (Nat.eqb c p); exact C2.
    + unfold get_node. cbn [set_stages set_nodes d_nodes]. rewrite Hold by (apply T).
      destruct (Nat.eqb 0 p); [cbn [n_parent upd]|]; apply (t_root d T).
    + intros i H0 Hi. rewrite Hlen in Hi. unfold get_node. cbn [set_stages set_nodes d_nodes].
      destruct (Nat.eq_dec i id) as [->|Hne]; [rewrite Hnew; discriminate|].
      rewrite Hold by lia. destruct (Nat.eqb i p); [cbn [n_parent upd]|]; apply (t_hasparent d T); unfold id in *; lia.
    + intros q Hq. rewrite Hlen in Hq. unfold get_node. cbn [set_stages set_nodes d_nodes].
      destruct (Nat.eq_dec q id) as [->|Hne]; [rewrite Hnew; constructor|].
      assert (Hq' : q < id) by lia. rewrite Hold by exact Hq'.
      destruct (Nat.eqb q p) eqn:E; [|apply (t_nodup d T); exact Hq'].
      apply Nat.eqb_eq in E. subst q. cbn [n_children upd].
      assert (Hnd := t_nodup d T p Hp).
      assert (Hnot : ~ In id (n_children (get_node d p))).
      { intros Hin. destruct (t_children d T p id Hp Hin) as [C1 _]. unfold id in C1. lia. }
      clear -Hnd Hnot. unfold get_node in *. induction (n_children (nth p (d_nodes d) root_node)) as [|x l IH]; cbn [app].
      * constructor; [intros []|constructor].
      * inversion Hnd as [|? ? Hx Hl]; subst. constructor.
        -- intros Hin. apply in_app_iff in Hin. destruct Hin as [Hin|[<-|[]]]; [contradiction|]. apply Hnot. now left.
        -- apply IH; [exact Hl|]. intros Hin. apply Hnot. now right.
  - intros i Hi. rewrite Hold by exact Hi. destruct (Nat.eqb i p); split; reflexivity.
Qed.

(* ---- the importer state keeps the invariant *)
Definition ids_ok (d : doc) (l : list nat) : Prop := Forall (fun i => i < List.length (d_nodes d)) l.

Record state_ok (s : istate) : Prop := {
  s_tree : tree_ok (i_doc s);
  s_next : ids_ok (i_doc s) (i_next s);
  s_prev : match i_prev s with Some l => ids_ok (i_doc s) l | None => True end;
  s_prehdr : i_prehdr s < List.length (d_nodes (i_doc s)) }.

Lemma ids_ok_mono d d' l : List.length (d_nodes d) <= List.length (d_nodes d') -> ids_ok d l -> ids_ok d' l.
Proof. intros H. unfold ids_ok. apply Forall_impl. intros a Ha. lia. Qed.

Lemma nth_ids_ok d l k : ids_ok d l -> 0 < List.length (d_nodes d) -> nth k l 0 < List.length (d_nodes d).
Proof.
  intros H H0. destruct (Nat.lt_ge_cases k (List.length l)) as [Hk|Hk].
  - unfold ids_ok in H. rewrite Forall_forall in H. apply H. now apply nth_In.
  - rewrite nth_overflow by exact Hk. exact H0.
Qed.

Lemma ids_ok_len d d' l : List.length (d_nodes d') = List.length (d_nodes d) -> ids_ok d l -> ids_ok d' l.
Proof. intros H. apply ids_ok_mono. lia. Qed.

Lemma ids_ok_app d l1 l2 : ids_ok d l1 -> ids_ok d l2 -> ids_ok d (l1 ++ l2).
Proof. intros H1 H2. apply Forall_app. split; assumption. Qed.

Lemma ids_ok_cons d x l : x < List.length (d_nodes d) -> ids_ok d l -> ids_ok d (x :: l).
Proof. intros H1 H2. constructor; assumption. Qed.

Lemma ids_ok_nil d : ids_ok d [].
Proof. constructor. Qed.

Lemma same_links_len d d' : same_links d d' -> List.length (d_nodes d') = List.length (d_nodes d).
Proof. intros [L _]. exact L. Qed.

Ltac links := first [apply links_set_header_self | apply links_sig_update | apply links_set_cancelled
                    | apply links_add_error | apply links_set_header_stage | apply links_push_mst | apply same_links_refl].

Lemma state_ok_intro d nxt prv ph row stg : tree_ok d -> ids_ok d nxt -> (match prv with Some l => ids_ok d l | None => True end) ->
  ph < List.length (d_nodes d) ->
  state_ok {| i_doc := d; i_row := row; i_stage := stg; i_next := nxt; i_prev := prv; i_prehdr := ph |}.
Proof. intros. constructor; assumption. Qed.

Lemma step_cell_ok bad row s icol col s' b : state_ok s -> step_cell bad row s icol col = IOk (s', b) -> state_ok s'.
Proof.
  intros [T Hn Hp Hh]. unfold step_cell.
  assert (H0 : 0 < List.length (d_nodes (i_doc s))) by apply T.
  destruct (startswith "**" col).
  - destruct (add_node _ _ _ _ _ _ _) as [[d1 id]| |] eqn:Ha; try discriminate.
    assert (T0 : tree_ok (set_header_stage (i_doc s) (i_stage s))) by (eapply tree_ok_same_links; [links | exact T]).
    destruct (add_node_spec _ _ _ _ _ _ _ _ _ T0 Hh Ha) as [Eid [El [T1 _]]].
    intros H. injection H as <- <-. unfold push_next, set_doc. cbn [i_doc i_row i_stage i_next i_prev i_prehdr].
    assert (L : List.length (d_nodes (set_header_self d1 id)) = S id) by (rewrite (same_links_len _ _ (links_set_header_self d1 id)); exact El).
    assert (Eid' : id = List.length (d_nodes (i_doc s))) by exact Eid.
    apply state_ok_intro.
    + eapply tree_ok_same_links; [links | exact T1].
    + apply ids_ok_app; [eapply ids_ok_mono; [|exact Hn]; lia | apply ids_ok_cons; [lia | apply ids_ok_nil]].
    + destruct (i_prev s); [eapply ids_ok_mono; [|exact Hp]; lia | exact I].
    + lia.
  - destruct (mem_str col spine_operations).
    + destruct (i_prev s) as [prev|] eqn:Ep; [|discriminate].
      destruct (Nat.leb _ icol); [discriminate|].
      assert (Hpar : nth icol prev 0 < List.length (d_nodes (i_doc s))) by (apply nth_ids_ok; assumption).
      destruct (add_node _ _ _ _ _ _ _) as [[d1 id]| |] eqn:Ha; try discriminate.
      destruct (add_node_spec _ _ _ _ _ _ _ _ _ T Hpar Ha) as [Eid [El [T1 _]]].
      assert (Gen : forall d2 nxt, same_links d1 d2 -> (nxt = i_next s \/ nxt = i_next s ++ [id] \/ nxt = i_next s ++ [id; id]) ->
                    state_ok {| i_doc := d2; i_row := i_row s; i_stage := i_stage s; i_next := nxt; i_prev := i_prev s; i_prehdr := i_prehdr s |}).
      { intros d2 nxt SL Hnx. pose proof (same_links_len _ _ SL) as L2. apply state_ok_intro.
        - eapply tree_ok_same_links; eassumption.
        - assert (B : ids_ok d2 (i_next s)) by (eapply ids_ok_mono; [|exact Hn]; lia).
          assert (Bi : id < List.length (d_nodes d2)) by lia.
          destruct Hnx as [->|[->| ->]]; [exact B | |]; apply ids_ok_app; try exact B; repeat apply ids_ok_cons; try exact Bi; apply ids_ok_nil.
        - rewrite Ep. eapply ids_ok_mono; [|exact Hp]. lia.
        - lia. }
      destruct (String.eqb col "*-").
      { intros H. injection H as <- <-. unfold set_doc. cbn [i_doc i_row i_stage i_next i_prev i_prehdr].
        apply Gen; [destruct (n_lastop _); links | now left]. }
      destruct (String.eqb col "*+" || String.eqb col "*^").
      { intros H. injection H as <- <-. unfold push_next, set_doc. cbn [i_doc i_row i_stage i_next i_prev i_prehdr].
        apply Gen; [links | right; right; reflexivity]. }
      destruct (String.eqb col "*v"); [|discriminate].
      intros H. injection H as <- <-.
      destruct (match icol with O => true | S _ => _ end); unfold push_next, set_doc; cbn [i_doc i_row i_stage i_next i_prev i_prehdr];
        (apply Gen; [destruct (n_lastop _); links | auto]).
    + match goal with |- context [match ?X with IOk _ => _ | IErr _ => _ | IOut => _ end = _] => destruct X as [[tok is_err]| |] end;
        try discriminate.
      destruct (i_prev s) as [prev|] eqn:Ep; [|discriminate].
      destruct (Nat.leb _ icol); [discriminate|].
      assert (Hpar : nth icol prev 0 < List.length (d_nodes (i_doc s))) by (apply nth_ids_ok; assumption).
      destruct (add_node _ _ _ _ _ _ _) as [[d1 id]| |] eqn:Ha; try discriminate.
      destruct (add_node_spec _ _ _ _ _ _ _ _ _ T Hpar Ha) as [Eid [El [T1 _]]].
      intros H. injection H as <- <-. unfold push_next, set_doc. cbn [i_doc i_row i_stage i_next i_prev i_prehdr].
      set (d2 := if is_err then add_error d1 id else d1).
      assert (SL2 : same_links d1 d2) by (unfold d2; destruct is_err; links).
      match goal with |- state_ok {| i_doc := ?d3; i_row := _; i_stage := _; i_next := _; i_prev := _; i_prehdr := _ |} =>
        assert (SL3 : same_links d1 d3) end.
      { destruct (cat_beq _ BARLINES || _); [exact SL2|]. destruct (String.eqb _ "BoundingBoxToken"); [exact SL2|].
        destruct (is_signature_token tok); [eapply same_links_trans; [exact SL2 | links] | exact SL2]. }
      pose proof (same_links_len _ _ SL3) as L3. apply state_ok_intro.
      * eapply tree_ok_same_links; eassumption.
      * apply ids_ok_app; [eapply ids_ok_mono; [|exact Hn]; lia | apply ids_ok_cons; [lia | apply ids_ok_nil]].
      * rewrite Ep. eapply ids_ok_mono; [|exact Hp]. lia.
      * lia.
Qed.

Lemma step_cells_ok bad row : forall cols s icol bar s' b, state_ok s -> step_cells bad row s icol cols bar = IOk (s', b) -> state_ok s'.
Proof.
  induction cols as [|c cols IH]; intros s icol bar s' b Hs; simpl.
  - intros H. injection H as <- <-. exact Hs.
  - destruct (step_cell bad row s icol c) as [[s1 b1]| |] eqn:Hc; try discriminate.
    intros H. eapply IH; [eapply step_cell_ok; eassumption | exact H].
Qed.

Lemma step_row_ok bad s row s' : state_ok s -> step_row bad s row = IOk s' -> state_ok s'.
Proof.
  intros Hs. pose proof Hs as [T Hn Hp Hh]. unfold step_row. destruct row as [|first rest].
  - intros H. injection H as <-. exact Hs.
  - set (prev := match i_next s with [] => i_prev s | n :: l0 => Some (n :: l0) end).
    assert (Hprev : match prev with Some l => ids_ok (i_doc s) l | None => True end).
    { unfold prev. destruct (i_next s) eqn:E; [exact Hp | exact Hn]. }
    clearbody prev.
    destruct (startswith "!!" first).
    + destruct (add_node _ _ _ _ _ _ _) as [[d1 id]| |] eqn:Ha; try discriminate. cbn [i_doc i_prehdr] in Ha.
      destruct (add_node_spec _ _ _ _ _ _ _ _ _ T Hh Ha) as [Eid [El [T1 _]]].
      intros H. injection H as <-. cbn [i_doc]. apply state_ok_intro.
      * exact T1.
      * apply ids_ok_nil.
      * destruct prev; [eapply ids_ok_mono; [|exact Hprev]; lia | exact I].
      * lia.
    + match goal with |- context [step_cells bad ?r ?s0 0 ?r false] =>
        assert (Hs0 : state_ok s0) by (apply state_ok_intro; [exact T | apply ids_ok_nil | exact Hprev | exact Hh]);
        destruct (step_cells bad r s0 0 r false) as [[s1 bar]| |] eqn:Hc end; try discriminate.
      pose proof (step_cells_ok _ _ _ _ _ _ _ _ Hs0 Hc) as [T1 Hn1 Hp1 Hh1].
      intros H. injection H as <-. cbn [i_doc i_next i_prev i_prehdr].
      assert (SL : same_links (i_doc s1) (if bar then push_mst (i_doc s1) (S (i_stage s)) else i_doc s1)) by (destruct bar; links).
      pose proof (same_links_len _ _ SL) as L. apply state_ok_intro.
      * eapply tree_ok_same_links; eassumption.
      * eapply ids_ok_len; [exact L | exact Hn1].
      * assert (Hp2 : match i_prev s1 with Some l => ids_ok (if bar then push_mst (i_doc s1) (S (i_stage s)) else i_doc s1) l | None => True end).
        { destruct (i_prev s1); [eapply ids_ok_len; [exact L | exact Hp1] | exact I]. }
        destruct (i_next s1); [|exact Hp2]. destruct (i_prev s1) as [[|x l]|]; [exact Hp2 | apply ids_ok_nil | exact I].
      * lia.
Qed.

Theorem run_rows_ok bad : forall rows s s', state_ok s -> run_rows bad s rows = IOk s' -> state_ok s'.
Proof.
  induction rows as [|r rows IH]; intros s s' Hs; simpl; [intros H; injection H as <-; exact Hs|].
  destruct (step_row bad s r) as [s1| |] eqn:Hr; try discriminate.
  intros H. eapply IH; [eapply step_row_ok; eassumption | exact H].
Qed.

Lemma init_state_ok : state_ok init_state.
Proof. apply state_ok_intro; [apply empty_tree_ok | apply ids_ok_nil | exact I | simpl; lia]. Qed.

(* every imported document is a tree: ids are positions, parents precede children, a node is registered in the
   children list of exactly its parent *)
Theorem loads_tree_ok bad text d : loads bad text = IOk d -> tree_ok d.
Proof.
  unfold loads. destruct (run_rows bad init_state (rows_of_text text)) as [s| |] eqn:H; try discriminate.
  intros E. injection E as <-. exact (s_tree _ (run_rows_ok _ _ _ _ init_state_ok H)).
Qed.

(* ------------------------------------------------------------------ headers: every node that has a header points to a
   HeaderToken node created no later than itself, and a node either is its own header or inherits its parent's *)
Definition is_header_node (d : doc) (h : nat) : Prop := exists e sp, n_tok (get_node d h) = Some (THeader e sp) /\ n_header (get_node d h) = Some h.

Definition hdr_ok (d : doc) : Prop :=
  forall i h, i < List.length (d_nodes d) -> n_header (get_node d i) = Some h ->
    h <= i /\ is_header_node d h /\
    (h = i \/ exists p, n_parent (get_node d i) = Some p /\ n_header (get_node d p) = Some h).

Lemma hdr_ok_empty : hdr_ok empty_doc.
Proof. intros i h Hi. simpl in Hi. assert (i = 0) by lia. subst. discriminate. Qed.

Definition same_nodes_hdr (d d' : doc) : Prop :=
  List.length (d_nodes d') = List.length (d_nodes d) /\
  forall i, core (get_node d' i) = core (get_node d i) /\ n_header (get_node d' i) = n_header (get_node d i).

Lemma hdr_ok_same d d' : same_nodes_hdr d d' -> hdr_ok d -> hdr_ok d'.
Proof.
  intros [L H] Hd i h Hi Hh. rewrite L in Hi. destruct (H i) as [Ci Hi']. rewrite Hi' in Hh.
  destruct (Hd i h Hi Hh) as [A [[e [sp [B1 B2]]] C]]. split; [exact A|]. split.
  - exists e, sp. destruct (H h) as [Ch Hh']. unfold core in Ch. injection Ch as _ _ Et _ _. rewrite Et, Hh'. split; assumption.
  - destruct C as [C|[p [P1 P2]]]; [left; exact C|]. right. exists p. unfold core in Ci. injection Ci as _ _ _ Ep _.
    rewrite Ep. split; [exact P1|]. destruct (H p) as [_ ->]. exact P2.
Qed.

Lemma update_self_hdr (d : doc) id (f : node -> node) :
  (forall n, core (f n) = core n /\ n_header (f n) = n_header n) ->
  same_nodes_hdr d (set_nodes d (update_nth id f (d_nodes d))).
Proof.
  intros Hf. split; [simpl; apply update_nth_length|]. intros i. unfold get_node. simpl.
  destruct (Nat.eq_dec id i) as [->|Hne].
  - destruct (Nat.lt_ge_cases i (List.length (d_nodes d))) as [Hl|Hl].
    + rewrite nth_update_nth_eq by exact Hl. apply Hf.
    + rewrite !nth_overflow; [split; reflexivity | exact Hl | rewrite update_nth_length; exact Hl].
  - rewrite nth_update_nth_neq by exact Hne. split; reflexivity.
Qed.

Lemma hdr_same_sig d id c : same_nodes_hdr d (sig_update d id c).
Proof. apply update_self_hdr. intros n. split; reflexivity. Qed.
Lemma hdr_same_refl d : same_nodes_hdr d d.
Proof. split; [reflexivity | intros i; split; reflexivity]. Qed.
Lemma hdr_same_cancel d a b : same_nodes_hdr d (set_cancelled d a b). Proof. split; [reflexivity | intros i; split; reflexivity]. Qed.
Lemma hdr_same_error d id : same_nodes_hdr d (add_error d id). Proof. split; [reflexivity | intros i; split; reflexivity]. Qed.
Lemma hdr_same_hstage d st : same_nodes_hdr d (set_header_stage d st). Proof. split; [reflexivity | intros i; split; reflexivity]. Qed.
Lemma hdr_same_mst d st : same_nodes_hdr d (push_mst d st). Proof. split; [reflexivity | intros i; split; reflexivity]. Qed.
Lemma hdr_same_trans a b c : same_nodes_hdr a b -> same_nodes_hdr b c -> same_nodes_hdr a c.
Proof.
  intros [L1 H1] [L2 H2]. split; [congruence|]. intros i. destruct (H1 i) as [A1 B1], (H2 i) as [A2 B2]. split; congruence.
Qed.

(* a new node that inherits the header of its (existing) parent *)
Lemma hdr_ok_add_inherit d st p t lo sg d' id : tree_ok d -> hdr_ok d -> p < List.length (d_nodes d) ->
  add_node d st p t lo sg (n_header (get_node d p)) = IOk (d', id) -> hdr_ok d'.
Proof.
  intros T Hd Hp Ha. destruct (add_node_spec _ _ _ _ _ _ _ _ _ T Hp Ha) as [Eid [El [T1 [Ep [Et [Eh [_ [_ Hold]]]]]]]].
  intros i h Hi Hh. rewrite El in Hi.
  assert (Keep : forall j, j < id -> n_header (get_node d' j) = n_header (get_node d j) /\ n_tok (get_node d' j) = n_tok (get_node d j)
                                     /\ n_parent (get_node d' j) = n_parent (get_node d j)).
  { intros j Hj. destruct (Hold j Hj) as [C H']. unfold core in C. injection C as _ _ Ct Cp _. repeat split; assumption. }
  assert (Hdr' : forall x, x < id -> is_header_node d x -> is_header_node d' x).
  { intros x Hx [e [sp [B1 B2]]]. exists e, sp. destruct (Keep x Hx) as [K1 [K2 _]]. rewrite K1, K2. split; assumption. }
  destruct (Nat.eq_dec i id) as [->|Hne].
  - rewrite Eh in Hh. assert (Hpid : p < id) by lia.
    destruct (Hd p h Hp Hh) as [A [B _]]. split; [lia|]. split; [apply Hdr'; [lia | exact B]|].
    right. exists p. split; [exact Ep|]. destruct (Keep p Hpid) as [-> _]. exact Hh.
  - assert (Hi' : i < id) by lia. destruct (Keep i Hi') as [K1 [_ K3]]. rewrite K1 in Hh. rewrite Eid in Hi'.
    destruct (Hd i h Hi' Hh) as [A [B C]]. rewrite <- Eid in Hi'. split; [exact A|]. split; [apply Hdr'; [lia | exact B]|].
    destruct C as [C|[q [Q1 Q2]]]; [left; exact C|]. right. exists q. rewrite K3. split; [exact Q1|].
    assert (Hq : q < i) by (destruct (t_parent d T i q ltac:(lia) Q1); assumption).
    destruct (Keep q ltac:(lia)) as [-> _]. exact Q2.
Qed.

(* a new node without header (global comments) *)
Lemma hdr_ok_add_none d st p t lo sg d' id : tree_ok d -> hdr_ok d -> p < List.length (d_nodes d) ->
  add_node d st p t lo sg None = IOk (d', id) -> hdr_ok d'.
Proof.
  intros T Hd Hp Ha. destruct (add_node_spec _ _ _ _ _ _ _ _ _ T Hp Ha) as [Eid [El [T1 [Ep [Et [Eh [_ [_ Hold]]]]]]]].
  intros i h Hi Hh. rewrite El in Hi.
  assert (Keep : forall j, j < id -> n_header (get_node d' j) = n_header (get_node d j) /\ n_tok (get_node d' j) = n_tok (get_node d j)
                                     /\ n_parent (get_node d' j) = n_parent (get_node d j)).
  { intros j Hj. destruct (Hold j Hj) as [C H']. unfold core in C. injection C as _ _ Ct Cp _. repeat split; assumption. }
  destruct (Nat.eq_dec i id) as [->|Hne]; [rewrite Eh in Hh; discriminate|].
  assert (Hi' : i < id) by lia. destruct (Keep i Hi') as [K1 [_ K3]]. rewrite K1 in Hh. rewrite Eid in Hi'.
  destruct (Hd i h Hi' Hh) as [A [[e [sp [B1 B2]]] C]]. rewrite <- Eid in Hi'. split; [exact A|]. split.
  - exists e, sp. destruct (Keep h ltac:(lia)) as [K1' [K2' _]]. rewrite K1', K2'. split; assumption.
  - destruct C as [C|[q [Q1 Q2]]]; [left; exact C|]. right. exists q. rewrite K3. split; [exact Q1|].
    assert (Hq : q < i) by (destruct (t_parent d T i q ltac:(lia) Q1); assumption).
    destruct (Keep q ltac:(lia)) as [-> _]. exact Q2.
Qed.

(* a header cell: the new node becomes its own header *)
Lemma hdr_ok_add_header d st p e sp d' id : tree_ok d -> hdr_ok d -> p < List.length (d_nodes d) ->
  add_node d st p (THeader e sp) None [] None = IOk (d', id) -> hdr_ok (set_header_self d' id).
Proof.
  intros T Hd Hp Ha. destruct (add_node_spec _ _ _ _ _ _ _ _ _ T Hp Ha) as [Eid [El [T1 [Ep [Et [Eh [_ [_ Hold]]]]]]]].
  assert (Hlen : List.length (d_nodes (set_header_self d' id)) = S id) by (simpl; rewrite update_nth_length; exact El).
  assert (Hnew : get_node (set_header_self d' id) id = {| n_id := n_id (get_node d' id); n_stage := n_stage (get_node d' id);
            n_tok := n_tok (get_node d' id); n_parent := n_parent (get_node d' id); n_header := Some id; n_lastop := n_lastop (get_node d' id);
            n_sigs := n_sigs (get_node d' id); n_children := n_children (get_node d' id) |}).
  { unfold get_node, set_header_self. simpl. rewrite nth_update_nth_eq by lia. reflexivity. }
  assert (Hother : forall j, j <> id -> get_node (set_header_self d' id) j = get_node d' j).
  { intros j Hj. unfold get_node, set_header_self. simpl. apply nth_update_nth_neq. lia. }
  assert (Keep : forall j, j < id -> n_header (get_node d' j) = n_header (get_node d j) /\ n_tok (get_node d' j) = n_tok (get_node d j)
                                     /\ n_parent (get_node d' j) = n_parent (get_node d j)).
  { intros j Hj. destruct (Hold j Hj) as [C H']. unfold core in C. injection C as _ _ Ct Cp _. repeat split; assumption. }
  intros i h Hi Hh. rewrite Hlen in Hi.
  destruct (Nat.eq_dec i id) as [->|Hne].
  - rewrite Hnew in Hh. cbn [n_header] in Hh. injection Hh as <-. split; [lia|]. split; [|left; reflexivity].
    exists e, sp. rewrite Hnew. cbn [n_tok n_header]. split; [exact Et | reflexivity].
  - assert (Hi' : i < id) by lia. rewrite (Hother i Hne) in Hh. destruct (Keep i Hi') as [K1 [_ K3]]. rewrite K1 in Hh. rewrite Eid in Hi'.
    destruct (Hd i h Hi' Hh) as [A [[e' [sp' [B1 B2]]] C]]. rewrite <- Eid in Hi'. split; [exact A|]. split.
    + exists e', sp'. rewrite (Hother h ltac:(lia)). destruct (Keep h ltac:(lia)) as [K1' [K2' _]]. rewrite K1', K2'. split; assumption.
    + destruct C as [C|[q [Q1 Q2]]]; [left; exact C|]. right. exists q. rewrite (Hother i Hne), K3. split; [exact Q1|].
      assert (Hq : q < i) by (destruct (t_parent d T i q ltac:(lia) Q1); assumption).
      rewrite (Hother q ltac:(lia)). destruct (Keep q ltac:(lia)) as [-> _]. exact Q2.
Qed.

Ltac hdr_same := first [apply hdr_same_sig | apply hdr_same_cancel | apply hdr_same_error | apply hdr_same_hstage | apply hdr_same_mst | apply hdr_same_refl].

Lemma step_cell_hdr bad row s icol col s' b : state_ok s -> hdr_ok (i_doc s) -> step_cell bad row s icol col = IOk (s', b) -> hdr_ok (i_doc s').
Proof.
  intros [T Hn Hp Hh] Hd. unfold step_cell.
  assert (H0 : 0 < List.length (d_nodes (i_doc s))) by apply T.
  destruct (startswith "**" col).
  - destruct (add_node _ _ _ _ _ _ _) as [[d1 id]| |] eqn:Ha; try discriminate.
    assert (T0 : tree_ok (set_header_stage (i_doc s) (i_stage s))) by (eapply tree_ok_same_links; [links | exact T]).
    assert (Hd0 : hdr_ok (set_header_stage (i_doc s) (i_stage s))) by (eapply hdr_ok_same; [hdr_same | exact Hd]).
    intros H. injection H as <- <-. unfold push_next, set_doc. cbn [i_doc].
    exact (hdr_ok_add_header _ _ _ _ _ _ _ T0 Hd0 Hh Ha).
  - destruct (mem_str col spine_operations).
    + destruct (i_prev s) as [prev|] eqn:Ep; [|discriminate].
      destruct (Nat.leb _ icol); [discriminate|].
      assert (Hpar : nth icol prev 0 < List.length (d_nodes (i_doc s))) by (apply nth_ids_ok; assumption).
      destruct (add_node _ _ _ _ _ _ _) as [[d1 id]| |] eqn:Ha; try discriminate.
      pose proof (hdr_ok_add_inherit _ _ _ _ _ _ _ _ T Hd Hpar Ha) as H1.
      assert (Gen : forall d2, same_nodes_hdr d1 d2 -> hdr_ok d2) by (intros d2 S2; eapply hdr_ok_same; eassumption).
      destruct (String.eqb col "*-").
      { intros H. injection H as <- <-. unfold set_doc. cbn [i_doc]. apply Gen. destruct (n_lastop _); hdr_same. }
      destruct (String.eqb col "*+" || String.eqb col "*^").
      { intros H. injection H as <- <-. exact H1. }
      destruct (String.eqb col "*v"); [|discriminate].
      intros H. injection H as <- <-.
      destruct (match icol with O => true | S _ => _ end); unfold push_next, set_doc; cbn [i_doc]; apply Gen; destruct (n_lastop _); hdr_same.
    + match goal with |- context [match ?X with IOk _ => _ | IErr _ => _ | IOut => _ end = _] => destruct X as [[tok is_err]| |] end;
        try discriminate.
      destruct (i_prev s) as [prev|] eqn:Ep; [|discriminate].
      destruct (Nat.leb _ icol); [discriminate|].
      assert (Hpar : nth icol prev 0 < List.length (d_nodes (i_doc s))) by (apply nth_ids_ok; assumption).
      destruct (add_node _ _ _ _ _ _ _) as [[d1 id]| |] eqn:Ha; try discriminate.
      pose proof (hdr_ok_add_inherit _ _ _ _ _ _ _ _ T Hd Hpar Ha) as H1.
      intros H. injection H as <- <-. unfold push_next, set_doc. cbn [i_doc].
      set (d2 := if is_err then add_error d1 id else d1).
      assert (S2 : same_nodes_hdr d1 d2) by (unfold d2; destruct is_err; hdr_same).
      eapply hdr_ok_same; [|exact H1].
      destruct (cat_beq _ BARLINES || _); [exact S2|]. destruct (String.eqb _ "BoundingBoxToken"); [exact S2|].
      destruct (is_signature_token tok); [eapply hdr_same_trans; [exact S2 | hdr_same] | exact S2].
Qed.

Lemma step_cells_hdr bad row : forall cols s icol bar s' b, state_ok s -> hdr_ok (i_doc s) ->
  step_cells bad row s icol cols bar = IOk (s', b) -> hdr_ok (i_doc s').
Proof.
  induction cols as [|c cols IH]; intros s icol bar s' b Hs Hd; simpl.
  - intros H. injection H as <- <-. exact Hd.
  - destruct (step_cell bad row s icol c) as [[s1 b1]| |] eqn:Hc; try discriminate.
    intros H. eapply IH; [eapply step_cell_ok; eassumption | eapply step_cell_hdr; eassumption | exact H].
Qed.

Lemma step_row_hdr bad s row s' : state_ok s -> hdr_ok (i_doc s) -> step_row bad s row = IOk s' -> hdr_ok (i_doc s').
Proof.
  intros Hs Hd. pose proof Hs as [T Hn Hp Hh]. unfold step_row. destruct row as [|first rest].
  - intros H. injection H as <-. exact Hd.
  - set (prev := match i_next s with [] => i_prev s | n :: l0 => Some (n :: l0) end).
    assert (Hprev : match prev with Some l => ids_ok (i_doc s) l | None => True end).
    { unfold prev. destruct (i_next s) eqn:E; [exact Hp | exact Hn]. }
    clearbody prev.
    destruct (startswith "!!" first).
    + destruct (add_node _ _ _ _ _ _ _) as [[d1 id]| |] eqn:Ha; try discriminate. cbn [i_doc i_prehdr] in Ha.
      intros H. injection H as <-. cbn [i_doc]. exact (hdr_ok_add_none _ _ _ _ _ _ _ _ T Hd Hh Ha).
    + match goal with |- context [step_cells bad ?r ?s0 0 ?r false] =>
        assert (Hs0 : state_ok s0) by (apply state_ok_intro; [exact T | apply ids_ok_nil | exact Hprev | exact Hh]);
        assert (Hd0 : hdr_ok (i_doc s0)) by exact Hd;
        destruct (step_cells bad r s0 0 r false) as [[s1 bar]| |] eqn:Hc end; try discriminate.
      pose proof (step_cells_hdr _ _ _ _ _ _ _ _ Hs0 Hd0 Hc) as H1.
      intros H. injection H as <-. cbn [i_doc]. destruct bar; [eapply hdr_ok_same; [hdr_same | exact H1] | exact H1].
Qed.

Theorem run_rows_hdr bad : forall rows s s', state_ok s -> hdr_ok (i_doc s) -> run_rows bad s rows = IOk s' -> hdr_ok (i_doc s').
Proof.
  induction rows as [|r rows IH]; intros s s' Hs Hd; simpl; [intros H; injection H as <-; exact Hd|].
  destruct (step_row bad s r) as [s1| |] eqn:Hr; try discriminate.
  intros H. eapply IH; [eapply step_row_ok; eassumption | eapply step_row_hdr; eassumption | exact H].
Qed.

(* every node of an imported document that has a header points to a HeaderToken node created no later than itself,
   and either is that header or inherits it from its parent - so a whole spine path (through splits and joins)
   carries the header of the column it started in *)
Theorem loads_headers bad text d : loads bad text = IOk d -> hdr_ok d.
Proof.
  unfold loads. destruct (run_rows bad init_state (rows_of_text text)) as [s| |] eqn:H; try discriminate.
  intros E. injection E as <-. exact (run_rows_hdr _ _ _ _ init_state_ok hdr_ok_empty H).
Qed.
